// C03 -- no byte sequence from the network can panic, wedge or stall a wire decoder.
//
// Bounded-exhaustive mutation enumeration over the REAL decoders:
//   * rustybgp_packet::bgp::PeerCodec::try_parse (-> parse_message) + validate_message, driven
//     exactly like daemon/src/event/mod.rs run_select drives them (loop on the receive buffer),
//     plus the attribute sub-decoders the daemon applies to received attribute bytes
//     (prefix_sid::PrefixSid::decode, tunnel_encap::decode, ls::parse_ls_attr; convert.rs);
//   * rustybgp_packet::rpki::RtrCodec (tokio_util Decoder::decode on a BytesMut);
//   * rustybgp_packet::bfd::Message::decode.
//
// Seeds are the valid frames of mkmsg (every family x negotiated codec), a few hand-built
// seed frames (label chains, code-format TLVs); the mutation menu is derived from the
// independent reader wire.rs (every length field and type / flag byte).  See `RULE`.
//
// Case strings (replayable with `hx c03 --replay <case>`):
//   bgp|<codec>|<hex>[,<hex>...]   chunks fed one after the other into the receive buffer
//   rtr|<hex>[,<hex>...]
//   bfd|<hex>
// <codec> = f=<family|all>,as4=<y|n>,xmsg=<y|n>,xnh=<y|n>,ap=<y|n>

use crate::mkmsg as mk;
use crate::vx::enumr;
use crate::vx::report::{self, hex, unhex, Report, Violation};
use crate::wire::{self, FieldKind, FieldRef, Span};
use bytes::BytesMut;
use rustybgp_packet::bgp::{
    Attribute, Capability, Family, Message, Notification, ParsedMessage, ParsedUpdate, PeerCodec,
};
use std::cell::RefCell;
use std::collections::{BTreeMap, HashSet};
use std::sync::atomic::{AtomicBool, AtomicU64, AtomicUsize, Ordering};
use std::sync::{Mutex, OnceLock};
use tokio_util::codec::Decoder;

const RULE: &str = "seeds: valid frames of mkmsg for each of the 19 families x 16 negotiated codecs \
(2/4-byte AS x extended message x extended next hop x add-path) + 4 all-families codecs: UPDATE reach/unreach with every named \
NLRI value, 3-entry lists, every RFC-valid next hop, every attribute kind/value, End-of-RIB; OPEN with every capability set, \
NOTIFICATION, KEEPALIVE, ROUTE-REFRESH; full-size (4096 / 65535 byte) UPDATEs; hand-built seeds (label-stack chains, code-format TLVs). \
single mutations per seed: every length field reported by wire.rs (header, withdrawn, total-attr, per-attr, ext-attr, MP next-hop, NLRI \
bit length, EVPN route length, capability / opt-param / inner lengths, TLV lengths of LS / tunnel-encap / prefix-SID) set to \
{0,1,v-1,v+1,0x7f,0x80,0xff,0x7fff,0x8000,0xff00,0xffff} plus the values where withdrawn+attr+23 reaches 2^16; every type / flag byte over all 256 values; \
every byte of NLRI bodies, TLV / AS_PATH attribute bodies and OPEN parameters over {0,1,v-1,v+1,0x7f,0x80,0xff} and 2/3/4/8-byte \
all-zero / all-one fills; header length = n with the frame cut / zero-padded to n for every n; raw truncation at every byte; one extra trailing byte. \
thorough adds every pair {a,b} of non-overlapping mutations, a from the full menu, b from the boundary menu (type bytes restricted to the 7 boundary values). \
stream level: every seed split at every offset, frames glued, header only. RTR: versions {0,1,2,3,255} x type 0..255 x length menu x exact-size / resized buffer x every split. \
BFD: every value of bytes 0..3, boundary values of the others, every length, every truncation. \
a case is non-trivial when the mutated bytes differ from the seed; distinct = distinct byte strings per (codec, seed) (hash set)";

// ---------------------------------------------------------------------------
// codec contexts
// ---------------------------------------------------------------------------

const ALL_FAM: u8 = 255;

#[derive(Clone, Copy, Debug, PartialEq, Eq, Hash, PartialOrd, Ord)]
struct Cx {
    /// index into mk::families(), ALL_FAM = every family negotiated
    fam: u8,
    as4: bool,
    xmsg: bool,
    xnh: bool,
    ap: bool,
}

fn yn(b: bool) -> char {
    if b { 'y' } else { 'n' }
}

impl Cx {
    fn name(&self) -> String {
        let f = if self.fam == ALL_FAM { "all".to_string() } else { mk::family_name(mk::families()[self.fam as usize]).to_string() };
        format!("f={},as4={},xmsg={},xnh={},ap={}", f, yn(self.as4), yn(self.xmsg), yn(self.xnh), yn(self.ap))
    }
    fn parse(s: &str) -> Option<Cx> {
        let mut c = Cx { fam: 0, as4: true, xmsg: false, xnh: false, ap: false };
        for tok in s.split(',') {
            let (k, v) = tok.split_once('=')?;
            match k {
                "f" => {
                    c.fam = if v == "all" {
                        ALL_FAM
                    } else {
                        mk::families().iter().position(|f| mk::family_name(*f) == v)? as u8
                    }
                }
                "as4" => c.as4 = v == "y",
                "xmsg" => c.xmsg = v == "y",
                "xnh" => c.xnh = v == "y",
                "ap" => c.ap = v == "y",
                _ => return None,
            }
        }
        Some(c)
    }
    fn caps(&self) -> Vec<Capability> {
        let mode = if self.ap { 3 } else { 0 };
        if self.fam != ALL_FAM {
            return mk::session_caps(mk::families()[self.fam as usize], self.as4, self.xmsg, self.xnh, mode);
        }
        let fams = mk::families();
        let mut v: Vec<Capability> = fams.iter().map(|f| Capability::MultiProtocol(*f)).collect();
        if self.xnh {
            v.push(Capability::ExtendedNexthop(
                fams.iter().filter(|f| f.afi() == Family::AFI_IP).map(|f| (*f, Family::AFI_IP6)).collect(),
            ));
        }
        if self.xmsg {
            v.push(Capability::ExtendedMessage);
        }
        if self.as4 {
            v.push(Capability::FourOctetAsNumber(65001));
        }
        if self.ap {
            v.push(Capability::AddPath(fams.iter().map(|f| (*f, 3u8)).collect()));
        }
        v
    }
    /// both ends advertise the same capabilities: sender codec == receiver codec
    fn codec(&self) -> PeerCodec {
        let c = self.caps();
        PeerCodec::negotiate(&c, &c)
    }
    fn max_len(&self) -> usize {
        if self.xmsg { 65535 } else { 4096 }
    }
    /// what the DEcoder's behaviour depends on (extended next hop only changes the encoder)
    fn rx_key(&self) -> (u8, bool, bool, bool) {
        (self.fam, self.as4, self.xmsg, self.ap)
    }
}

// ---------------------------------------------------------------------------
// outcome histogram (non-vacuity)
// ---------------------------------------------------------------------------

const H_MSG: usize = 0; // +0 open +1 update-routes +2 update-eor +3 notification +4 keepalive +5 route-refresh
const H_NONE: usize = 6;
const H_PANIC: usize = 7;
const H_ERR: usize = 8; // + code*32 + subcode
const HN: usize = 8 + 8 * 32;

fn h_msg(m: &ParsedMessage) -> usize {
    match m {
        ParsedMessage::Open(_) => 0,
        ParsedMessage::Update(ParsedUpdate::Routes { .. }) => 1,
        ParsedMessage::Update(ParsedUpdate::EndOfRib(_)) => 2,
        ParsedMessage::Notification(_) => 3,
        ParsedMessage::Keepalive => 4,
        ParsedMessage::RouteRefresh { .. } => 5,
    }
}
fn h_err(n: &Notification) -> usize {
    H_ERR + (n.notification_code().min(7) as usize) * 32 + n.notification_subcode().min(31) as usize
}
fn h_name(i: usize) -> String {
    match i {
        0 => "bgp:msg:open".into(),
        1 => "bgp:msg:update".into(),
        2 => "bgp:msg:eor".into(),
        3 => "bgp:msg:notification".into(),
        4 => "bgp:msg:keepalive".into(),
        5 => "bgp:msg:route-refresh".into(),
        H_NONE => "bgp:need-more".into(),
        H_PANIC => "bgp:panic".into(),
        _ => format!("bgp:err:{}/{}", (i - H_ERR) / 32, (i - H_ERR) % 32),
    }
}

struct Acc {
    hist: [u64; HN],
    evals: u64,
    /// validate_message outputs seen
    validated: u64,
    sub_decoded: u64,
}
impl Acc {
    fn new() -> Acc {
        Acc { hist: [0; HN], evals: 0, validated: 0, sub_decoded: 0 }
    }
    fn flush(&mut self, rep: &mut Report) {
        for (i, n) in self.hist.iter().enumerate() {
            if *n > 0 {
                rep.add(&h_name(i), *n);
            }
        }
        rep.evaluations += self.evals;
        rep.add("bgp:validate_message outputs", self.validated);
        rep.add("bgp:attribute sub-decoder calls", self.sub_decoded);
        *self = Acc::new();
    }
}

// ---------------------------------------------------------------------------
// oracles
// ---------------------------------------------------------------------------

/// sig tail + description
type Bad = (String, String);

fn panic_sig(msg: &str) -> String {
    // "<message> @ <file>:<line>"
    let loc = msg.rsplit_once(" @ ").map(|x| x.1).unwrap_or("");
    let short = if let Some(i) = loc.find("packet/src/") {
        &loc[i + "packet/src/".len()..]
    } else if let Some(i) = loc.find("/registry/src/") {
        let rest = &loc[i + "/registry/src/".len()..];
        rest.split_once('/').map(|x| x.1).unwrap_or(rest)
    } else if let Some(i) = loc.find("/library/") {
        &loc[i + 1..]
    } else {
        loc
    };
    format!("panic/{}", if short.is_empty() { "unknown-location" } else { short })
}

/// independent view of the receive buffer (RFC 4271 §4.1)
#[derive(Clone, Copy, Debug, PartialEq, Eq)]
enum Fs {
    ShortHeader,
    BadLen(usize),
    Incomplete,
    Complete(usize),
}
fn frame_state(buf: &[u8], max_len: usize) -> Fs {
    if buf.len() < 19 {
        return Fs::ShortHeader;
    }
    let l = u16::from_be_bytes([buf[16], buf[17]]) as usize;
    if l < 19 || l > max_len {
        Fs::BadLen(l)
    } else if buf.len() < l {
        Fs::Incomplete
    } else {
        Fs::Complete(l)
    }
}

fn sub_decode(a: &Attribute, acc: &mut Acc) {
    // daemon/src/convert.rs applies these to the stored bytes of received attributes
    if let Some(b) = a.binary() {
        match a.code() {
            Attribute::PREFIX_SID => {
                acc.sub_decoded += 1;
                let _ = std::hint::black_box(rustybgp_packet::prefix_sid::PrefixSid::decode(b));
            }
            Attribute::TUNNEL_ENCAP => {
                acc.sub_decoded += 1;
                let _ = std::hint::black_box(rustybgp_packet::tunnel_encap::decode(b));
            }
            Attribute::LS => {
                acc.sub_decoded += 1;
                let _ = std::hint::black_box(rustybgp_packet::ls::parse_ls_attr(b));
            }
            _ => {}
        }
    }
}

/// what the session does with one parsed frame (event/mod.rs run_select)
fn post(m: ParsedMessage, ebgp: bool, acc: &mut Acc) {
    if let ParsedMessage::Update(ParsedUpdate::Routes { attrs, .. }) = &m {
        for a in attrs {
            sub_decode(a, acc);
        }
    }
    match rustybgp_packet::bgp::validate_message(m, ebgp) {
        Ok(it) => {
            for msg in it {
                acc.validated += 1;
                if let Message::Update(_) = &msg {
                    std::hint::black_box(&msg);
                }
            }
        }
        Err(n) => {
            std::hint::black_box(n.notification_code());
        }
    }
}

/// Feed `chunks` into a receive buffer the way the session task does and check
/// every clause.  Returns the first violation (the session is dead after it).
fn eval_bgp(rx: &mut PeerCodec, max_len: usize, chunks: &[&[u8]], acc: &mut Acc) -> Option<Bad> {
    let mut buf = BytesMut::new();
    for chunk in chunks {
        buf.extend_from_slice(chunk);
        let mut iters = 0usize;
        let cap = buf.len() / 19 + 4;
        loop {
            iters += 1;
            if iters > cap {
                return Some(("nontermination/bgp-try_parse-loop".into(), format!("try_parse still yields messages after {cap} iterations on a buffer that held at most {} frames", cap - 4)));
            }
            let before = buf.len();
            let st = frame_state(&buf, max_len);
            // the frame, for the direct parse_message pass (is_ebgp = false)
            let direct: Option<Vec<u8>> = if let Fs::Complete(l) = st { Some(buf[..l].to_vec()) } else { None };
            acc.evals += 1;
            let r = report::catch(|| rx.try_parse(&mut buf));
            match r {
                Err(p) => {
                    acc.hist[H_PANIC] += 1;
                    return Some((panic_sig(&p), format!("PeerCodec::try_parse panicked: {p}")));
                }
                Ok(Ok(Some(m))) => {
                    acc.hist[H_MSG + h_msg(&m)] += 1;
                    if buf.len() >= before {
                        return Some(("no-consume/bgp".into(), format!("try_parse returned a message but the buffer did not get shorter ({before} -> {})", buf.len())));
                    }
                    if let Err(p) = report::catch(|| post(m, true, acc)) {
                        acc.hist[H_PANIC] += 1;
                        return Some((panic_sig(&p), format!("processing the parsed message (validate_message / attribute sub-decoders) panicked: {p}")));
                    }
                }
                Ok(Ok(None)) => {
                    acc.hist[H_NONE] += 1;
                    // a decoder may drop bytes and still ask for more; what matters is what it leaves behind
                    match frame_state(&buf, max_len) {
                        Fs::Complete(l) => return Some(("need-more-on-complete-frame/bgp:complete".into(), format!("buffer holds a complete {l}-byte frame ({} bytes buffered) but try_parse asks for more", buf.len()))),
                        Fs::BadLen(l) => return Some(("need-more-on-complete-frame/bgp:bad-length".into(), format!("header length field {l} is outside 19..={max_len} (can never complete) but try_parse asks for more"))),
                        _ => {}
                    }
                    break;
                }
                Ok(Err(n)) => {
                    acc.hist[h_err(&n)] += 1;
                    return None; // rejected: NOTIFICATION + close
                }
            }
            // same frame through parse_message directly, then validate as iBGP
            if let Some(f) = direct {
                acc.evals += 1;
                match report::catch(|| rx.parse_message(&f)) {
                    Err(p) => return Some((panic_sig(&p), format!("PeerCodec::parse_message panicked: {p}"))),
                    Ok(Ok(m)) => {
                        if let Err(p) = report::catch(|| post(m, false, acc)) {
                            return Some((panic_sig(&p), format!("validate_message(ibgp) / sub-decoders panicked: {p}")));
                        }
                    }
                    Ok(Err(_)) => {}
                }
            }
            if buf.is_empty() {
                break;
            }
        }
    }
    None
}

// ---- RTR ----

#[derive(Clone, Copy, Debug, PartialEq, Eq)]
enum Rs {
    ShortHeader,
    BadLen(usize),
    Incomplete,
    Complete(usize),
}
fn rtr_state(buf: &[u8]) -> Rs {
    if buf.len() < 8 {
        return Rs::ShortHeader;
    }
    let l = u32::from_be_bytes([buf[4], buf[5], buf[6], buf[7]]) as usize;
    if l < 8 {
        Rs::BadLen(l)
    } else if buf.len() < l {
        Rs::Incomplete
    } else {
        Rs::Complete(l)
    }
}
/// RFC 6810 / 8210 / 8210bis: is this PDU type defined for this version?
fn rtr_type_defined(version: u8, t: u8) -> bool {
    match t {
        0..=4 | 6..=8 | 10 => true,
        9 => version >= 1,
        11 => version >= 2,
        _ => false,
    }
}

fn eval_rtr(chunks: &[&[u8]], evals: &mut u64, hist: &mut [u64; 4]) -> Option<Bad> {
    let mut codec = rustybgp_packet::rpki::RtrCodec::new();
    let mut buf = BytesMut::new();
    for chunk in chunks {
        buf.extend_from_slice(chunk);
        let mut iters = 0usize;
        let cap = buf.len() + 4;
        loop {
            iters += 1;
            if iters > cap {
                return Some(("nontermination/rtr-decode-loop".into(), format!("RtrCodec::decode still yields messages after {cap} iterations")));
            }
            let before = buf.len();
            let st = rtr_state(&buf);
            *evals += 1;
            match report::catch(|| codec.decode(&mut buf)) {
                Err(p) => {
                    hist[3] += 1;
                    return Some((panic_sig(&p), format!("RtrCodec::decode panicked: {p}")));
                }
                Ok(Ok(Some(_m))) => {
                    hist[0] += 1;
                    if buf.len() >= before {
                        let shape = if matches!(st, Rs::BadLen(_)) { "rtr-short-length" } else { "rtr" };
                        return Some((format!("no-consume/{shape}"), format!("decode returned a message without consuming input (buffer {before} -> {}, state {st:?}): the Framed loop spins forever", buf.len())));
                    }
                }
                Ok(Ok(None)) => {
                    hist[1] += 1;
                    // a decoder may skip PDUs and still ask for more; what matters is what it leaves behind
                    let st = rtr_state(&buf);
                    let (ver, ty) = if buf.len() >= 2 { (buf[0], buf[1]) } else { (0, 0) };
                    match st {
                        Rs::Complete(l) => {
                            let valid = wire::read_rtr(&buf[..l]).is_ok();
                            return Some(if !rtr_type_defined(ver, ty) {
                                ("wedge/rtr-unknown-type".into(), format!("complete {l}-byte PDU of undefined type {ty} (version {ver}) is neither consumed nor rejected: decode asks for more bytes forever"))
                            } else if valid {
                                ("wedge/rtr-unsupported-type".into(), format!("complete, RFC-valid {l}-byte PDU of type {ty} (version {ver}) is neither consumed nor rejected: decode asks for more bytes forever"))
                            } else {
                                ("need-more-on-complete-frame/rtr:short-body".into(), format!("complete {l}-byte PDU of type {ty} (version {ver}) whose length is too small for its type is neither consumed nor rejected"))
                            });
                        }
                        Rs::BadLen(l) => {
                            return Some(if !rtr_type_defined(ver, ty) {
                                ("wedge/rtr-unknown-type".into(), format!("PDU header of undefined type {ty} with length {l} < 8: decode asks for more bytes forever"))
                            } else {
                                ("need-more-on-complete-frame/rtr:length-below-header".into(), format!("PDU header of type {ty} with length field {l} < 8 can never complete but decode asks for more bytes"))
                            });
                        }
                        _ => {}
                    }
                    break;
                }
                Ok(Err(_e)) => {
                    hist[2] += 1;
                    return None;
                }
            }
            if buf.is_empty() {
                break;
            }
        }
    }
    None
}

fn eval_bfd(b: &[u8], hist: &mut [u64; 3]) -> Option<Bad> {
    match report::catch(|| rustybgp_packet::bfd::Message::decode(b)) {
        Err(p) => {
            hist[2] += 1;
            Some((panic_sig(&p), format!("bfd::Message::decode panicked: {p}")))
        }
        Ok(Ok(_)) => {
            hist[0] += 1;
            None
        }
        Ok(Err(_)) => {
            hist[1] += 1;
            None
        }
    }
}

// ---------------------------------------------------------------------------
// mutations
// ---------------------------------------------------------------------------

#[derive(Clone, Copy, Debug, PartialEq, Eq, Hash, PartialOrd, Ord)]
enum Op {
    /// write `val` big-endian into `width` (1..=4) bytes at `off`
    Set { off: u32, width: u8, val: u32 },
    /// fill `width` bytes at `off` with `byte`
    Fill { off: u32, width: u8, byte: u8 },
    /// header length := n and the frame cut / zero-padded to exactly n bytes
    Resize(u32),
    /// raw truncation of the stream after n bytes (header untouched)
    Trunc(u32),
    /// one extra byte after the frame
    Append(u8),
}

impl Op {
    fn apply(&self, b: &mut Vec<u8>) {
        match *self {
            Op::Set { off, width, val } => {
                let (o, w) = (off as usize, width as usize);
                if o + w <= b.len() {
                    for i in 0..w {
                        b[o + i] = (val >> (8 * (w - 1 - i))) as u8;
                    }
                }
            }
            Op::Fill { off, width, byte } => {
                let (o, w) = (off as usize, width as usize);
                if o + w <= b.len() {
                    for x in &mut b[o..o + w] {
                        *x = byte;
                    }
                }
            }
            Op::Resize(n) => {
                b.resize(n as usize, 0);
                if b.len() >= 18 {
                    b[16] = (n >> 8) as u8;
                    b[17] = n as u8;
                }
            }
            Op::Trunc(n) => b.truncate(n as usize),
            Op::Append(x) => b.push(x),
        }
    }
    /// byte range written (None for the structural ops)
    fn range(&self) -> Option<(usize, usize)> {
        match *self {
            Op::Set { off, width, .. } | Op::Fill { off, width, .. } => Some((off as usize, off as usize + width as usize)),
            _ => None,
        }
    }
}

#[derive(Clone, Copy, Debug)]
struct M {
    op: Op,
    /// member of the boundary menu (second element of a pair)
    boundary: bool,
}

fn is_len_kind(k: FieldKind) -> bool {
    use FieldKind::*;
    matches!(k, OpenOptLen | OpenExtOptLen | OptParamLen | CapLen | CapInnerLen | WithdrawnLen | TotalAttrLen | AttrLen | AttrExtLen | MpNhLen | NlriLen | EvpnRouteLen | TlvLen)
}
fn is_type_kind(k: FieldKind) -> bool {
    use FieldKind::*;
    matches!(k, MsgType | OpenVersion | OpenExtMarker | OptParamType | CapCode | AttrFlags | AttrType | MpAfi | MpSafi | MpReserved | LabelBos | EvpnRouteType | NotifCode | NotifSubcode | RrAfi | RrSubtype | RrSafi | TlvType)
}
fn is_nlri_level(k: FieldKind) -> bool {
    use FieldKind::*;
    matches!(k, NlriPathId | NlriLen | LabelBos | EvpnRouteType | EvpnRouteLen)
}

const BYTE_BOUNDS: [i32; 5] = [0, 1, 0x7f, 0x80, 0xff];

fn byte_boundary_vals(v: u8) -> Vec<u8> {
    let mut o: Vec<u8> = BYTE_BOUNDS.iter().map(|x| *x as u8).collect();
    o.push(v.wrapping_sub(1));
    o.push(v.wrapping_add(1));
    o
}

fn rd(frame: &[u8], off: usize, width: usize) -> u32 {
    let mut v = 0u32;
    for i in 0..width {
        v = v << 8 | frame[off + i] as u32;
    }
    v
}

struct MenuInfo {
    reader_ok: bool,
    fields: usize,
}

/// The single-mutation menu of one seed frame.  Every op yields a byte string
/// different from the seed and from every other op's (hash set of outputs).
fn menu(frame: &[u8], cx: &Cx, big: bool) -> (Vec<M>, MenuInfo) {
    let len = frame.len();
    let mut raw: Vec<M> = Vec::new();
    let mut push = |op: Op, boundary: bool| raw.push(M { op, boundary });
    // --- header length, cuts, truncation, trailing byte ---
    for n in 0..len {
        push(Op::Trunc(n as u32), false);
    }
    for n in 19..len {
        push(Op::Resize(n as u32), true);
    }
    for n in [len + 1, len + 2, len + 255, 0x7f, 0x80, 0xff, 0x100, 4095, 4096, 4097, 65535] {
        if n >= 19 && n != len && n <= 65535 {
            push(Op::Resize(n as u32), n < len + 3);
        }
    }
    push(Op::Append(0x00), false);
    push(Op::Append(0xff), false);
    if len >= 19 {
        let v = rd(frame, 16, 2);
        for val in [0u32, 1, 18, 19, v.wrapping_sub(1) & 0xffff, (v + 1) & 0xffff, 0x7f, 0x80, 0xff, 0x7fff, 0x8000, 0xff00, 0xffff] {
            push(Op::Set { off: 16, width: 2, val }, true);
        }
    }
    // --- fields of the independent reader ---
    let mut info = MenuInfo { reader_ok: false, fields: 0 };
    let mut fields: Vec<FieldRef> = Vec::new();
    let mut regions: Vec<Span> = Vec::new();
    if let Ok(fr) = wire::read_frame(frame, cx.max_len().max(len)) {
        info.reader_ok = true;
        fields.extend(fr.fields.iter().copied());
        if let Ok(nf) = wire::update_nlri_fields(frame, &fr, cx.ap) {
            fields.extend(nf);
        }
        match &fr.body {
            wire::Body::Update(u) => {
                regions.push(u.withdrawn);
                regions.push(u.nlri);
                if let Some(m) = &u.mp_reach {
                    regions.push(m.nlri);
                    if m.afi == 16388 {
                        let _ = wire::walk_tlvs(frame, m.nlri, 2, 2, &mut fields);
                    }
                }
                if let Some(m) = &u.mp_unreach {
                    regions.push(m.nlri);
                    if m.afi == 16388 {
                        let _ = wire::walk_tlvs(frame, m.nlri, 2, 2, &mut fields);
                    }
                }
                for a in &u.attrs {
                    match a.code {
                        29 | 23 => {
                            let _ = wire::walk_tlvs(frame, a.value, 2, 2, &mut fields);
                            regions.push(a.value);
                        }
                        40 => {
                            let _ = wire::walk_tlvs(frame, a.value, 1, 2, &mut fields);
                            regions.push(a.value);
                        }
                        2 | 7 | 17 | 18 | 26 => regions.push(a.value),
                        _ => {}
                    }
                }
            }
            wire::Body::Open(o) => {
                for p in &o.params {
                    regions.push(p.value);
                }
            }
            _ => {}
        }
    }
    fields.sort_by_key(|f| (f.off, f.width, f.kind));
    fields.dedup();
    info.fields = fields.len();
    for f in &fields {
        if f.off + f.width > len {
            continue;
        }
        let k = f.kind;
        if k == FieldKind::HeaderLen {
            continue;
        }
        if is_len_kind(k) {
            let v = rd(frame, f.off, f.width);
            let mask: u32 = if f.width >= 4 { u32::MAX } else { (1u32 << (8 * f.width)) - 1 };
            let mut vals: Vec<u32> = vec![0, 1, v.wrapping_sub(1) & mask, v.wrapping_add(1) & mask, 0x7f, 0x80, 0xff];
            if f.width >= 2 {
                vals.extend([0x7fff, 0x8000, 0xff00, 0xffff]);
            }
            if k == FieldKind::TotalAttrLen || k == FieldKind::WithdrawnLen {
                // withdrawn + attr + 23 around 2^16
                let other_off = if k == FieldKind::TotalAttrLen { 19 } else { f.off + 2 + v as usize };
                let other = if other_off + 2 <= len { rd(frame, other_off, 2) } else { 0 };
                let t = 65536u32.wrapping_sub(23).wrapping_sub(other) & 0xffff;
                vals.extend([t.wrapping_sub(1) & 0xffff, t, (t + 1) & 0xffff, (len as u32).wrapping_sub(23) & 0xffff, (len as u32).wrapping_sub(22) & 0xffff]);
            }
            for val in vals {
                push(Op::Set { off: f.off as u32, width: f.width as u8, val }, true);
            }
        } else if is_type_kind(k) {
            for i in 0..f.width {
                let v = frame[f.off + i];
                let b = byte_boundary_vals(v);
                if big && is_nlri_level(k) {
                    for val in b {
                        push(Op::Set { off: (f.off + i) as u32, width: 1, val: val as u32 }, true);
                    }
                } else {
                    for val in 0..=255u8 {
                        push(Op::Set { off: (f.off + i) as u32, width: 1, val: val as u32 }, b.contains(&val));
                    }
                }
            }
        } else {
            // marker / AS / hold time / identifier / path id: boundary values per byte
            if big && is_nlri_level(k) {
                continue;
            }
            let idx: Vec<usize> = if k == FieldKind::Marker { vec![0, f.width - 1] } else { (0..f.width).collect() };
            for i in idx {
                for val in byte_boundary_vals(frame[f.off + i]) {
                    push(Op::Set { off: (f.off + i) as u32, width: 1, val: val as u32 }, true);
                }
            }
        }
    }
    // --- body regions: every byte over the boundary values + fills ---
    if !big {
        let mut offs: Vec<usize> = Vec::new();
        for r in &regions {
            if r.len == 0 || r.end() > len {
                continue;
            }
            if r.len <= 96 {
                offs.extend(r.off..r.end());
            } else {
                offs.extend(r.off..r.off + 24);
                offs.extend(r.end() - 8..r.end());
            }
        }
        offs.sort();
        offs.dedup();
        let inreg: HashSet<usize> = offs.iter().copied().collect();
        for &o in &offs {
            for val in byte_boundary_vals(frame[o]) {
                push(Op::Set { off: o as u32, width: 1, val: val as u32 }, true);
            }
            for w in [2usize, 3, 4, 8] {
                if (o..o + w).all(|x| inreg.contains(&x)) {
                    push(Op::Fill { off: o as u32, width: w as u8, byte: 0xff }, false);
                    push(Op::Fill { off: o as u32, width: w as u8, byte: 0x00 }, false);
                }
            }
        }
    }
    // --- dedupe by effect ---
    let mut seen: HashSet<u128> = HashSet::new();
    seen.insert(crate::vx::bfs::hash128(frame));
    let mut out: Vec<M> = Vec::with_capacity(raw.len());
    let mut scratch: Vec<u8> = Vec::with_capacity(len + 300);
    // boundary members first so that a duplicate keeps its boundary flag
    raw.sort_by_key(|m| !m.boundary);
    for m in raw {
        if big {
            // hashing 64 KiB per op is the dominant cost for big frames: ops are distinct by construction
            // except identities, which are dropped by comparing the written bytes
            let same = match m.op {
                Op::Set { off, width, val } => off as usize + width as usize <= len && rd(frame, off as usize, width as usize) == val,
                _ => false,
            };
            if !same && seen.insert(crate::vx::bfs::hash128(format!("{:?}", m.op).as_bytes())) {
                out.push(m);
            }
            continue;
        }
        scratch.clear();
        scratch.extend_from_slice(frame);
        m.op.apply(&mut scratch);
        if seen.insert(crate::vx::bfs::hash128(&scratch)) {
            out.push(m);
        }
    }
    out.sort_by_key(|m| m.op);
    (out, info)
}

// ---------------------------------------------------------------------------
// seed corpus
// ---------------------------------------------------------------------------

struct Unit {
    cx: Cx,
    label: String,
    frame: Vec<u8>,
    /// full-size frame: reduced menu, no pairs
    big: bool,
    /// member of the pair corpus (thorough)
    pairs: bool,
}

fn raw_attr(flags: u8, code: u8, body: &[u8]) -> Vec<u8> {
    let mut o = Vec::new();
    if body.len() > 255 {
        o.extend_from_slice(&[flags | 0x10, code]);
        o.extend_from_slice(&(body.len() as u16).to_be_bytes());
    } else {
        o.extend_from_slice(&[flags & !0x10, code, body.len() as u8]);
    }
    o.extend_from_slice(body);
    o
}

fn raw_update(withdrawn: &[u8], attrs: &[u8], nlri: &[u8]) -> Vec<u8> {
    let total = 19 + 2 + withdrawn.len() + 2 + attrs.len() + nlri.len();
    let mut f = vec![0xffu8; 16];
    f.extend_from_slice(&(total as u16).to_be_bytes());
    f.push(2);
    f.extend_from_slice(&(withdrawn.len() as u16).to_be_bytes());
    f.extend_from_slice(withdrawn);
    f.extend_from_slice(&(attrs.len() as u16).to_be_bytes());
    f.extend_from_slice(attrs);
    f.extend_from_slice(nlri);
    f
}

fn base_raw_attrs() -> Vec<u8> {
    // ORIGIN IGP, AS_PATH [SEQ 65001] (4-byte), NEXT_HOP 192.0.2.1
    let mut a = raw_attr(0x40, 1, &[0]);
    a.extend(raw_attr(0x40, 2, &[2, 1, 0, 0, 0xfd, 0xe9]));
    a.extend(raw_attr(0x40, 3, &[192, 0, 2, 1]));
    a
}

fn tlv16(t: u16, v: &[u8]) -> Vec<u8> {
    let mut o = t.to_be_bytes().to_vec();
    o.extend_from_slice(&(v.len() as u16).to_be_bytes());
    o.extend_from_slice(v);
    o
}
fn tlv8_8(t: u8, v: &[u8]) -> Vec<u8> {
    let mut o = vec![t, v.len() as u8];
    o.extend_from_slice(v);
    o
}
fn tlv8_16(t: u8, v: &[u8]) -> Vec<u8> {
    let mut o = vec![t];
    o.extend_from_slice(&(v.len() as u16).to_be_bytes());
    o.extend_from_slice(v);
    o
}

/// Hand-built seeds: attribute bodies in the layout THIS code base reads (where it
/// differs from what mkmsg writes per RFC) and label-stack chains no encoder emits.
fn hand_seeds() -> Vec<(Cx, String, Vec<u8>)> {
    let fams = mk::families();
    let fi = |f: Family| fams.iter().position(|x| *x == f).unwrap() as u8;
    let cx4 = Cx { fam: fi(Family::IPV4), as4: true, xmsg: false, xnh: false, ap: false };
    let mut out = Vec::new();
    let nlri4 = [8u8, 10];
    let mut with_attr = |name: &str, flags: u8, code: u8, body: Vec<u8>| {
        let mut a = base_raw_attrs();
        a.extend(raw_attr(flags, code, &body));
        out.push((cx4, format!("hand:{name}"), raw_update(&[], &a, &nlri4)));
    };
    // BGP-LS attribute (type 29), layouts of ls.rs::parse_ls_attr
    let range = |sid: &[u8]| {
        let mut r = vec![0x00, 0x1f, 0x40, 1, sid.len() as u8];
        r.extend_from_slice(sid);
        r
    };
    let mut srcap = vec![0x80, 0x00];
    srcap.extend(range(&[0x00, 0x00, 0x3e, 0x80]));
    srcap.extend(range(&[0x03, 0xe8, 0x00]));
    let mut ls1 = tlv16(1034, &srcap);
    ls1.extend(tlv16(1036, &srcap));
    with_attr("ls:sr-ranges", 0x80, 29, ls1);
    let mut endx = vec![0x00, 0x05, 0x00, 0x00, 10, 0];
    endx.extend_from_slice(&[0x20, 0x01, 0x0d, 0xb8, 0, 0, 0, 1, 0, 0, 0, 0, 0, 0, 0, 0]);
    endx.extend(tlv16(1252, &[32, 16, 16, 0]));
    let mut ls2 = tlv16(1106, &endx);
    let mut peer = vec![0x80, 10, 0, 0, 0, 0, 0xfd, 0xe9, 192, 0, 2, 1];
    peer.extend_from_slice(&[0x20, 0x01, 0x0d, 0xb8, 0, 0, 0, 2, 0, 0, 0, 0, 0, 0, 0, 0]);
    ls2.extend(tlv16(1104, &peer));
    ls2.extend(tlv16(1101, &[0xc0, 1, 0, 0, 0x00, 0x5d, 0xc0]));
    ls2.extend(tlv16(1102, &[0x00, 1, 0, 0, 0, 0, 0, 42]));
    ls2.extend(tlv16(1095, &[7]));
    ls2.extend(tlv16(1095, &[0, 7]));
    ls2.extend(tlv16(1115, &[0, 0, 0, 1, 0, 0, 0, 9]));
    ls2.extend(tlv16(1116, &[0, 0, 0, 3]));
    with_attr("ls:srv6+peer-sids", 0x80, 29, ls2);
    // tunnel encapsulation (type 23): SR policy with both binding SID forms, type-B segment
    let v6 = [0x20u8, 0x01, 0x0d, 0xb8, 0, 0, 0, 3, 0, 0, 0, 0, 0, 0, 0, 0];
    let mut segb = vec![0x40, 0];
    segb.extend_from_slice(&v6);
    segb.extend_from_slice(&[0, 19, 0, 0, 32, 16, 16, 0]);
    let mut seglist = vec![0u8];
    seglist.extend(tlv8_8(9, &[0, 0, 0, 0, 0, 1]));
    seglist.extend(tlv8_8(13, &segb));
    seglist.extend(tlv8_8(1, &[0, 0, 0x03, 0xe8, 0, 0]));
    let mut bsid6 = vec![0u8, 0];
    bsid6.extend_from_slice(&v6);
    let mut bsid20 = bsid6.clone();
    bsid20.extend_from_slice(&[0, 19, 32, 16, 16, 0]);
    let mut sr = tlv8_8(12, &[0, 0, 0, 0, 0, 100]);
    sr.extend(tlv8_8(13, &bsid6));
    sr.extend(tlv8_8(20, &bsid20));
    sr.extend(tlv8_8(14, &[0, 0, 1]));
    sr.extend(tlv8_8(15, &[10, 0]));
    sr.extend(tlv8_16(128, &seglist));
    sr.extend(tlv8_16(129, b"\0cp-name"));
    sr.extend(tlv8_16(130, b"\0policy"));
    with_attr("tunnel:sr-policy-srv6", 0xc0, 23, tlv16(15, &sr));
    // prefix-SID (type 40) with L2 service TLV and an unknown sub-sub-TLV
    let mut info = vec![0u8];
    info.extend_from_slice(&v6);
    info.extend_from_slice(&[0, 0, 19, 0]);
    info.extend(tlv8_16(1, &[40, 24, 16, 0, 16, 64]));
    info.extend(tlv8_16(9, &[1, 2]));
    let mut l2 = vec![0u8];
    l2.extend(tlv8_16(1, &info));
    l2.extend(tlv8_16(7, &[5]));
    with_attr("psid:srv6-l2", 0xc0, 40, tlv8_16(6, &l2));
    // AS4_PATH / AS4_AGGREGATOR next to a 2-byte AS_PATH (OLD speaker)
    {
        let cx2 = Cx { as4: false, ..cx4 };
        let mut a = raw_attr(0x40, 1, &[0]);
        a.extend(raw_attr(0x40, 2, &[2, 2, 0x5b, 0xa0, 0xfd, 0xe9]));
        a.extend(raw_attr(0x40, 3, &[192, 0, 2, 1]));
        a.extend(raw_attr(0xc0, 7, &[0x5b, 0xa0, 192, 0, 2, 2]));
        a.extend(raw_attr(0xc0, 17, &[2, 2, 0xfa, 0x56, 0xea, 0x00, 0, 0, 0xfd, 0xe9]));
        a.extend(raw_attr(0xc0, 18, &[0xfa, 0x56, 0xea, 0x00, 192, 0, 2, 2]));
        out.push((cx2, "hand:as4-reconcile".into(), raw_update(&[], &a, &nlri4)));
    }
    // ... every pairing of AS_PATH and AS4_PATH segment lists (<= 2 segments, SEQUENCE / SET,
    // 1 or 2 members, AS_TRANS in the 2-octet path): the reconciliation cuts the AS_PATH at
    // every possible place, inside and at the end of either segment type
    {
        let cx2 = Cx { as4: false, ..cx4 };
        let segs = |w: usize| -> Vec<Vec<u8>> {
            let one: Vec<Vec<u8>> = [1u8, 2]
                .iter()
                .flat_map(|t| {
                    [1usize, 2].iter().map(move |n| {
                        let mut v = vec![*t, *n as u8];
                        for i in 0..*n {
                            if w == 2 {
                                v.extend_from_slice(&(if i == 0 { 23456u16 } else { 65010 }).to_be_bytes());
                            } else {
                                v.extend_from_slice(&(if i == 0 { 500_000u32 } else { 65010 }).to_be_bytes());
                            }
                        }
                        v
                    }).collect::<Vec<_>>()
                })
                .collect();
            let mut all = one.clone();
            for a in &one {
                for b in &one {
                    all.push([a.clone(), b.clone()].concat());
                }
            }
            all
        };
        for (i, ap) in segs(2).iter().enumerate() {
            for (j, a4) in segs(4).iter().enumerate() {
                let mut a = raw_attr(0x40, 1, &[0]);
                a.extend(raw_attr(0x40, 2, ap));
                a.extend(raw_attr(0x40, 3, &[192, 0, 2, 1]));
                a.extend(raw_attr(0xc0, 17, a4));
                out.push((cx2, format!("hand:as4-reconcile/{i}x{j}"), raw_update(&[], &a, &nlri4)));
            }
        }
    }
    // legacy withdrawn + attributes + NLRI in one frame
    out.push((cx4, "hand:withdraw+reach".into(), raw_update(&[24, 10, 1, 1, 0], &base_raw_attrs(), &[24, 10, 2, 2, 32, 10, 3, 3, 3])));
    // label-stack chains (RFC 3107 stacks; bottom-of-stack only on the last label)
    for (f, has_rd, plen) in [(Family::IPV4_VPN, true, 24usize), (Family::IPV6_VPN, true, 64), (Family::IPV4_MPLS, false, 24), (Family::IPV6_MPLS, false, 64)] {
        for k in [2usize, 7, 8, 10, 11] {
            let bits = k * 24 + if has_rd { 64 } else { 0 } + plen;
            let mut n = vec![bits.min(255) as u8];
            for i in 0..k {
                let l = ((1000 + i as u32) << 4) | (i + 1 == k) as u32;
                n.extend_from_slice(&[(l >> 16) as u8, (l >> 8) as u8, l as u8]);
            }
            if has_rd {
                n.extend_from_slice(&[0, 0, 0xfd, 0xe8, 0, 0, 0, 100]);
            }
            n.extend(std::iter::repeat(0x0a).take(plen / 8));
            let v6nh = f.afi() == Family::AFI_IP6;
            let mut nh: Vec<u8> = if has_rd { vec![0; 8] } else { vec![] };
            if v6nh { nh.extend_from_slice(&v6) } else { nh.extend_from_slice(&[192, 0, 2, 1]) }
            let mut mp = f.afi().to_be_bytes().to_vec();
            mp.push(f.safi());
            mp.push(nh.len() as u8);
            mp.extend(nh);
            mp.push(0);
            mp.extend_from_slice(&n);
            let mut a = raw_attr(0x40, 1, &[0]);
            a.extend(raw_attr(0x40, 2, &[2, 1, 0, 0, 0xfd, 0xe9]));
            a.extend(raw_attr(0x80, 14, &mp));
            let cx = Cx { fam: fi(f), ..cx4 };
            out.push((cx, format!("hand:label-chain:{}:{k}", mk::family_name(f)), raw_update(&[], &a, &[])));
            let mut mu = f.afi().to_be_bytes().to_vec();
            mu.push(f.safi());
            mu.extend_from_slice(&n);
            out.push((cx, format!("hand:label-chain-unreach:{}:{k}", mk::family_name(f)), raw_update(&[], &raw_attr(0x80, 15, &mu), &[])));
        }
    }
    out
}

fn corpus(thorough: bool, notes: &mut Vec<String>) -> Vec<Unit> {
    let fams = mk::families();
    let mut units: Vec<Unit> = Vec::new();
    let mut seen: HashSet<((u8, bool, bool, bool), Vec<u8>)> = HashSet::new();
    let mut enc_fail: BTreeMap<String, u64> = BTreeMap::new();
    let mut add = |units: &mut Vec<Unit>, cx: Cx, label: String, frame: Vec<u8>, big: bool, pairs: bool| {
        if frame.len() < 19 {
            return;
        }
        if seen.insert((cx.rx_key(), frame.clone())) {
            units.push(Unit { cx, label, frame, big, pairs });
        }
    };
    let mut enc = |codec: &mut PeerCodec, msg: &Message, what: &str| -> Vec<Vec<u8>> {
        match report::catch(|| mk::encode(codec, msg)) {
            Ok(Ok(fr)) => fr,
            Ok(Err(e)) => {
                *enc_fail.entry(format!("{what}: {}", report::trunc(&e, 60))).or_insert(0) += 1;
                vec![]
            }
            Err(p) => {
                *enc_fail.entry(format!("{what}: encoder panic {}", report::trunc(&p, 80))).or_insert(0) += 1;
                vec![]
            }
        }
    };
    let base = mk::base_attrs();
    // per-family codecs
    for (fi, f) in fams.iter().enumerate() {
        let fname = mk::family_name(*f);
        for bits in 0..16u32 {
            let b = |n: u32| bits >> n & 1 == 1;
            let cx = Cx { fam: fi as u8, as4: !b(0), xmsg: b(1), xnh: b(2), ap: b(3) };
            let mut tx = cx.codec();
            let pair_cx = cx.as4 && !cx.xmsg && !cx.xnh;
            let mut named = mk::nlris_named(*f);
            named.extend(mk::nlris_code_only(*f));
            for (nm, n) in &named {
                let e = mk::path_entries(std::slice::from_ref(n), cx.ap);
                for fr in enc(&mut tx, &mk::reach(*f, e.clone(), mk::default_nexthop(*f), &base), "reach") {
                    add(&mut units, cx, format!("{fname}:reach:{nm}"), fr, false, pair_cx);
                }
                for fr in enc(&mut tx, &mk::unreach(*f, e), "unreach") {
                    add(&mut units, cx, format!("{fname}:unreach:{nm}"), fr, false, pair_cx);
                }
            }
            for (nm, m) in mk::updates(*f, 3, false, cx.ap, &base) {
                for fr in enc(&mut tx, &m, "updates3") {
                    add(&mut units, cx, format!("{fname}:{nm}"), fr, false, pair_cx);
                }
            }
            if let Some(n) = mk::nlris(*f, mk::NlriSize::Min).into_iter().next() {
                let e = mk::path_entries(&[n], cx.ap);
                for nh in mk::nexthops(*f) {
                    if nh.needs_ext_nh && !cx.xnh {
                        continue;
                    }
                    for fr in enc(&mut tx, &mk::reach(*f, e.clone(), nh.nexthop, &base), "nexthop") {
                        add(&mut units, cx, format!("{fname}:nh:{}", nh.name), fr, false, false);
                    }
                }
                if (*f == Family::IPV4 || *f == Family::IPV6) && !cx.xnh && !cx.ap {
                    for (nm, set) in mk::attribute_sets() {
                        for fr in enc(&mut tx, &mk::reach(*f, e.clone(), mk::default_nexthop(*f), &set), "attrs") {
                            let small = fr.len() <= 160;
                            add(&mut units, cx, format!("{fname}:attrs:{nm}"), fr, false, !cx.xmsg && *f == Family::IPV4 && small);
                        }
                    }
                    for (nm, vals) in mk::attr_kinds() {
                        if mk::attr_kind_fate(nm) != mk::AttrFate::As4 {
                            continue;
                        }
                        for (i, a) in vals.iter().enumerate() {
                            let mut set = base.clone();
                            set.push(a.clone());
                            for fr in enc(&mut tx, &mk::reach(*f, e.clone(), mk::default_nexthop(*f), &set), "attrs-as4") {
                                add(&mut units, cx, format!("{fname}:attrs:{nm}#{i}"), fr, false, false);
                            }
                        }
                    }
                }
            }
        }
    }
    // all-families codecs: AFI / SAFI mutations reach every family's NLRI decoder
    for bits in 0..4u32 {
        let cx = Cx { fam: ALL_FAM, as4: bits & 1 == 0, xmsg: false, xnh: false, ap: bits & 2 != 0 };
        let mut tx = cx.codec();
        for f in &fams {
            let fname = mk::family_name(*f);
            for (nm, m) in mk::updates(*f, 2, false, cx.ap, &base) {
                for fr in enc(&mut tx, &m, "all-fam") {
                    add(&mut units, cx, format!("all/{fname}:{nm}"), fr, false, cx.as4);
                }
            }
            if let Some(n) = mk::nlris(*f, mk::NlriSize::Max).into_iter().next() {
                let e = mk::path_entries(&[n], cx.ap);
                for fr in enc(&mut tx, &mk::reach(*f, e, mk::default_nexthop(*f), &base), "all-fam") {
                    add(&mut units, cx, format!("all/{fname}:reach:max"), fr, false, false);
                }
            }
        }
    }
    // OPEN / NOTIFICATION / KEEPALIVE / ROUTE-REFRESH (codec-independent apart from the size limit)
    for xmsg in [false, true] {
        let cx = Cx { fam: 0, as4: true, xmsg, xnh: false, ap: false };
        let mut tx = cx.codec();
        for (nm, m) in mk::opens() {
            for fr in enc(&mut tx, &m, "open") {
                let small = fr.len() <= 120;
                add(&mut units, cx, format!("open:{nm}"), fr, false, !xmsg && small);
            }
        }
        for (nm, m) in mk::notifications() {
            for fr in enc(&mut tx, &m, "notification") {
                let small = fr.len() <= 40;
                add(&mut units, cx, format!("notification:{nm}"), fr, false, !xmsg && small);
            }
        }
        for fr in enc(&mut tx, &mk::keepalive(), "keepalive") {
            add(&mut units, cx, "keepalive".into(), fr, false, !xmsg);
        }
        for (nm, m) in mk::route_refreshes() {
            for fr in enc(&mut tx, &m, "route-refresh") {
                add(&mut units, cx, format!("route-refresh:{nm}"), fr, false, !xmsg && nm == "ipv6");
            }
        }
    }
    for (cx, label, frame) in hand_seeds() {
        add(&mut units, cx, label, frame, false, true);
    }
    // full-size frames
    let big_fams: Vec<Family> = if thorough {
        fams.clone()
    } else {
        vec![Family::IPV4, Family::IPV6, Family::IPV4_VPN, Family::L2VPN_EVPN, Family::IPV4_FLOWSPEC, Family::LS]
    };
    for f in &big_fams {
        let fi = fams.iter().position(|x| x == f).unwrap() as u8;
        let fname = mk::family_name(*f);
        let mut variants = vec![(false, false), (false, true)];
        if thorough && matches!(*f, Family::IPV4 | Family::IPV6_VPN | Family::L2VPN_EVPN) {
            variants.push((true, false));
        }
        for (xmsg, ap) in variants {
            let cx = Cx { fam: fi, as4: true, xmsg, xnh: false, ap };
            let mut tx = cx.codec();
            let n = if xmsg { 16000 } else { 1100 };
            for (nm, m) in mk::updates(*f, n, false, ap, &base) {
                let frs = enc(&mut tx, &m, "big");
                if frs.len() >= 2 {
                    add(&mut units, cx, format!("{fname}:big:{nm}:first"), frs[0].clone(), true, false);
                }
            }
        }
    }
    for (k, v) in &enc_fail {
        notes.push(format!("corpus: encoder refused a seed {v}x ({k})"));
    }
    units
}

// ---------------------------------------------------------------------------
// step budget: a watchdog that reports a decoder call which does not return
// ---------------------------------------------------------------------------

#[repr(align(128))]
struct Slot {
    /// (pass << 56) | (unit << 28) | index ; 0 = idle
    case: AtomicU64,
    tick: AtomicU64,
}
const NSLOT: usize = 64;
static SLOTS: [Slot; NSLOT] = [const { Slot { case: AtomicU64::new(0), tick: AtomicU64::new(0) } }; NSLOT];
static NEXT_SLOT: AtomicUsize = AtomicUsize::new(0);
static WATCH_ON: AtomicBool = AtomicBool::new(false);
static UNITS: OnceLock<Vec<Unit>> = OnceLock::new();
static FOUND: Mutex<Vec<Violation>> = Mutex::new(Vec::new());
/// descriptions of the non-BGP cases currently running, by slot (rare updates)
static SLOT_TEXT: Mutex<Vec<String>> = Mutex::new(Vec::new());

thread_local! {
    static MY_SLOT: usize = NEXT_SLOT.fetch_add(1, Ordering::Relaxed) % NSLOT;
    static CACHE: RefCell<Option<Cache>> = const { RefCell::new(None) };
}

const P_SINGLE: u64 = 1;
const P_PAIR: u64 = 2;
const P_STREAM: u64 = 3;
const P_OTHER: u64 = 4;

#[inline]
fn beat(pass: u64, unit: usize, idx: usize) {
    MY_SLOT.with(|s| {
        SLOTS[*s].case.store(pass << 56 | (unit as u64) << 28 | idx as u64, Ordering::Relaxed);
        SLOTS[*s].tick.fetch_add(1, Ordering::Relaxed);
    });
}
fn idle() {
    MY_SLOT.with(|s| {
        SLOTS[*s].case.store(0, Ordering::Relaxed);
        SLOTS[*s].tick.fetch_add(1, Ordering::Relaxed);
    });
}

fn stall_limit() -> std::time::Duration {
    std::time::Duration::from_secs(std::env::var("VERIF_C03_STALL_S").ok().and_then(|s| s.parse().ok()).unwrap_or(20))
}

/// Runs until the process exits.  If one evaluation does not finish within the
/// budget, writes a result that contains the nontermination violation (plus all
/// violations found so far) and ends the process: the spinning thread cannot be stopped.
fn watchdog() {
    let mut last: Vec<(u64, std::time::Instant)> = (0..NSLOT).map(|_| (0, std::time::Instant::now())).collect();
    let limit = stall_limit();
    loop {
        std::thread::sleep(std::time::Duration::from_millis(250));
        if !WATCH_ON.load(Ordering::Relaxed) {
            continue;
        }
        for i in 0..NSLOT {
            let t = SLOTS[i].tick.load(Ordering::Relaxed);
            let c = SLOTS[i].case.load(Ordering::Relaxed);
            if t != last[i].0 || c == 0 {
                last[i] = (t, std::time::Instant::now());
                continue;
            }
            if last[i].1.elapsed() >= limit {
                let (decoder, case) = describe_case(c, i);
                let mut rep = Report::new("C03", "hx-c03");
                rep.rule = RULE.into();
                rep.exhaustive = false;
                rep.caps_hit.push(format!("step budget: one decoder call did not return within {} s; the sweep was abandoned", limit.as_secs()));
                for v in FOUND.lock().unwrap().iter() {
                    rep.violation(v.clone());
                }
                rep.violation(Violation {
                    sig: format!("C03/nontermination/{decoder}"),
                    what: format!("a single decoder call did not return within {} s (step budget)", limit.as_secs()),
                    case,
                });
                let profile = if cfg!(debug_assertions) { "dev" } else { "release" };
                rep.part = format!("{}-{}", rep.part, profile);
                rep.finish();
                std::process::exit(0);
            }
        }
    }
}

fn describe_case(c: u64, slot: usize) -> (String, String) {
    let pass = c >> 56;
    let unit = ((c >> 28) & 0x0fff_ffff) as usize;
    let idx = (c & 0x0fff_ffff) as usize;
    if pass == P_OTHER {
        let t = SLOT_TEXT.lock().unwrap().get(slot).cloned().unwrap_or_default();
        let d = t.split('|').next().unwrap_or("bgp").to_string();
        return (d, t);
    }
    let Some(units) = UNITS.get() else { return ("bgp".into(), format!("unit {unit} index {idx}")) };
    let u = &units[unit];
    let (m, _) = menu(&u.frame, &u.cx, u.big);
    let mut b = u.frame.clone();
    match pass {
        P_SINGLE => {
            if let Some(x) = m.get(idx) {
                x.op.apply(&mut b);
            }
            ("bgp".into(), format!("bgp|{}|{}", u.cx.name(), hex(&b)))
        }
        P_PAIR => {
            // the inner index is not recorded: give the outer mutation (replay all inner ones by hand)
            if let Some(x) = m.get(idx) {
                x.op.apply(&mut b);
            }
            ("bgp".into(), format!("bgp|{}|{}", u.cx.name(), hex(&b)))
        }
        _ => ("bgp".into(), format!("bgp|{}|{},{}", u.cx.name(), hex(&b[..idx.min(b.len())]), hex(&b[idx.min(b.len())..]))),
    }
}

thread_local! {
    static MY_BEST: RefCell<BTreeMap<String, (usize, String)>> = const { RefCell::new(BTreeMap::new()) };
}

/// Record a violation.  The witness kept per signature is the shortest case,
/// ties broken by string order: independent of thread scheduling.
fn record(rep: &mut Report, tail: String, what: String, case: String) {
    let sig = format!("C03/{tail}");
    let better_local = MY_BEST.with(|b| {
        let mut b = b.borrow_mut();
        match b.get(&sig) {
            Some((l, c)) if (*l, c.as_str()) <= (case.len(), case.as_str()) => false,
            _ => {
                b.insert(sig.clone(), (case.len(), case.clone()));
                true
            }
        }
    });
    if better_local {
        let mut f = FOUND.lock().unwrap();
        match f.iter_mut().find(|v| v.sig == sig) {
            Some(v) => {
                if (case.len(), case.as_str()) < (v.case.len(), v.case.as_str()) {
                    v.what = what.clone();
                    v.case = case.clone();
                }
            }
            None => f.push(Violation { sig: sig.clone(), what: what.clone(), case: case.clone() }),
        }
    }
    rep.violation(Violation { sig, what, case });
}

/// install the globally best witness of every signature
fn canonical_witnesses(rep: &mut Report) {
    let f = FOUND.lock().unwrap();
    for v in f.iter() {
        if let Some((old, _)) = rep.violations.get_mut(&v.sig) {
            *old = v.clone();
        }
    }
}

// ---------------------------------------------------------------------------
// passes over the BGP corpus
// ---------------------------------------------------------------------------

struct Cache {
    unit: usize,
    has_menu: bool,
    menu: Vec<M>,
    bidx: Vec<u32>,
    rx: PeerCodec,
}

fn with_cache<R>(unit: usize, need_menu: bool, f: impl FnOnce(&mut Cache) -> R) -> R {
    CACHE.with(|c| {
        let mut c = c.borrow_mut();
        let u = &UNITS.get().unwrap()[unit];
        if c.as_ref().map(|x| x.unit) != Some(unit) {
            *c = Some(Cache { unit, has_menu: false, menu: Vec::new(), bidx: Vec::new(), rx: u.cx.codec() });
        }
        let c = c.as_mut().unwrap();
        if need_menu && !c.has_menu {
            let (m, _) = menu(&u.frame, &u.cx, u.big);
            c.bidx = m.iter().enumerate().filter(|(_, x)| x.boundary).map(|(i, _)| i as u32).collect();
            c.menu = m;
            c.has_menu = true;
        }
        f(c)
    })
}

fn bgp_case(cx: &Cx, chunks: &[&[u8]]) -> String {
    let h: Vec<String> = chunks.iter().map(|c| hex(c)).collect();
    format!("bgp|{}|{}", cx.name(), h.join(","))
}

const CHUNK: usize = 1024;

fn pass_singles(units: &'static [Unit], sizes: &[usize], rep: &mut Report) {
    let mut items: Vec<(u32, u32, u32)> = Vec::new();
    for (ui, n) in sizes.iter().enumerate() {
        let step = if units[ui].big { 64 } else { CHUNK };
        let mut s = 0;
        while s < *n {
            items.push((ui as u32, s as u32, (s + step).min(*n) as u32));
            s += step;
        }
    }
    enumr::par_range(items.len() as u64, rep, |i, r| {
        let (ui, s, e) = items[i as usize];
        let u = &units[ui as usize];
        let mut acc = Acc::new();
        let mut buf: Vec<u8> = Vec::with_capacity(u.frame.len() + 300);
        with_cache(ui as usize, true, |c| {
            for mi in s..e {
                buf.clear();
                buf.extend_from_slice(&u.frame);
                c.menu[mi as usize].op.apply(&mut buf);
                beat(P_SINGLE, ui as usize, mi as usize);
                if let Some((tail, what)) = eval_bgp(&mut c.rx, u.cx.max_len(), &[&buf], &mut acc) {
                    record(r, tail, format!("{what} [seed {} / {:?}]", u.label, c.menu[mi as usize].op), bgp_case(&u.cx, &[&buf]));
                }
                r.distinct_nontrivial += 1;
                r.add("cases:single mutations", 1);
            }
        });
        idle();
        acc.flush(r);
    });
}

fn pass_pairs(units: &'static [Unit], sizes: &[usize], rep: &mut Report) {
    let mut items: Vec<(u32, u32)> = Vec::new();
    for (ui, n) in sizes.iter().enumerate() {
        if units[ui].pairs && !units[ui].big {
            for a in 0..*n {
                items.push((ui as u32, a as u32));
            }
        }
    }
    enumr::par_range(items.len() as u64, rep, |i, r| {
        let (ui, ai) = items[i as usize];
        let u = &units[ui as usize];
        let mut acc = Acc::new();
        let mut base: Vec<u8> = Vec::with_capacity(u.frame.len() + 300);
        let mut buf: Vec<u8> = Vec::with_capacity(u.frame.len() + 300);
        let mut n = 0u64;
        with_cache(ui as usize, true, |c| {
            let a = c.menu[ai as usize];
            let Some((a0, a1)) = a.op.range() else { return };
            base.extend_from_slice(&u.frame);
            a.op.apply(&mut base);
            beat(P_PAIR, ui as usize, ai as usize);
            for &bi in &c.bidx {
                if bi == ai || (a.boundary && bi < ai) {
                    continue;
                }
                let b = c.menu[bi as usize];
                match b.op {
                    Op::Resize(nn) => {
                        if a1 > nn as usize || a0 < 18 && a1 > 16 {
                            continue;
                        }
                    }
                    _ => {
                        let Some((b0, b1)) = b.op.range() else { continue };
                        if a0 < b1 && b0 < a1 {
                            continue;
                        }
                    }
                }
                buf.clear();
                buf.extend_from_slice(&base);
                b.op.apply(&mut buf);
                SLOTS_TICK();
                n += 1;
                if let Some((tail, what)) = eval_bgp(&mut c.rx, u.cx.max_len(), &[&buf], &mut acc) {
                    record(r, tail, format!("{what} [seed {} / {:?} + {:?}]", u.label, a.op, b.op), bgp_case(&u.cx, &[&buf]));
                }
            }
        });
        idle();
        r.distinct_nontrivial += n;
        r.add("cases:mutation pairs", n);
        acc.flush(r);
    });
}

#[allow(non_snake_case)]
#[inline]
fn SLOTS_TICK() {
    MY_SLOT.with(|s| {
        SLOTS[*s].tick.fetch_add(1, Ordering::Relaxed);
    });
}

fn pass_stream(units: &'static [Unit], rep: &mut Report) {
    let ka: Vec<u8> = {
        let mut k = vec![0xffu8; 16];
        k.extend_from_slice(&[0, 19, 4]);
        k
    };
    // items: (unit, split range)
    let mut items: Vec<(u32, u32, u32)> = Vec::new();
    for (ui, u) in units.iter().enumerate() {
        let step = if u.frame.len() > 8192 { 256 } else { 4096 };
        let mut s = 0;
        while s <= u.frame.len() {
            items.push((ui as u32, s as u32, (s + step).min(u.frame.len() + 1) as u32));
            s += step;
        }
    }
    enumr::par_range(items.len() as u64, rep, |i, r| {
        let (ui, s, e) = items[i as usize];
        let u = &units[ui as usize];
        let f = &u.frame;
        let mut acc = Acc::new();
        with_cache(ui as usize, false, |c| {
            let max = u.cx.max_len();
            for k in s..e {
                let k = k as usize;
                beat(P_STREAM, ui as usize, k);
                let chunks: [&[u8]; 2] = [&f[..k], &f[k..]];
                if let Some((tail, what)) = eval_bgp(&mut c.rx, max, &chunks, &mut acc) {
                    record(r, tail, format!("{what} [seed {} split at {k}]", u.label), bgp_case(&u.cx, &chunks));
                }
                r.add("cases:stream splits", 1);
                r.distinct_nontrivial += 1;
            }
            if s == 0 {
                // glued frames, header only, byte-by-byte delivery
                let mut glued = f.clone();
                glued.extend_from_slice(f);
                let mut g2 = ka.clone();
                g2.extend_from_slice(f);
                g2.extend_from_slice(&ka);
                let hdr: &[u8] = &f[..19];
                let sets: Vec<Vec<&[u8]>> = vec![vec![&glued], vec![&g2], vec![hdr], vec![hdr, &f[19..]]];
                for ch in &sets {
                    beat(P_STREAM, ui as usize, 0);
                    if let Some((tail, what)) = eval_bgp(&mut c.rx, max, ch, &mut acc) {
                        record(r, tail, format!("{what} [seed {} glued / header-only]", u.label), bgp_case(&u.cx, ch));
                    }
                    r.add("cases:stream glued/header-only", 1);
                    r.distinct_nontrivial += 1;
                }
                if f.len() <= 512 {
                    let bytes: Vec<&[u8]> = f.chunks(1).collect();
                    if let Some((tail, what)) = eval_bgp(&mut c.rx, max, &bytes, &mut acc) {
                        record(r, tail, format!("{what} [seed {} byte by byte]", u.label), bgp_case(&u.cx, &bytes));
                    }
                    r.add("cases:stream byte-by-byte", 1);
                    r.distinct_nontrivial += 1;
                }
            }
        });
        idle();
        acc.flush(r);
    });
}

// ---------------------------------------------------------------------------
// RTR
// ---------------------------------------------------------------------------

/// A PDU of the given type built per RFC 6810 / 8210 / 8210bis where the type is
/// defined (checked against wire::read_rtr), header + 4 body bytes otherwise.
fn rtr_pdu(version: u8, t: u8) -> Vec<u8> {
    let hdr = |hdr16: u16, len: u32| {
        let mut v = vec![version, t];
        v.extend_from_slice(&hdr16.to_be_bytes());
        v.extend_from_slice(&len.to_be_bytes());
        v
    };
    match t {
        0 | 1 => {
            let mut v = hdr(7, 12);
            v.extend_from_slice(&42u32.to_be_bytes());
            v
        }
        2 | 8 => hdr(0, 8),
        3 => hdr(7, 8),
        4 => {
            let mut v = hdr(0, 20);
            v.extend_from_slice(&[1, 24, 24, 0, 192, 0, 2, 0]);
            v.extend_from_slice(&65001u32.to_be_bytes());
            v
        }
        6 => {
            let mut v = hdr(0, 32);
            v.extend_from_slice(&[1, 48, 48, 0]);
            v.extend_from_slice(&[0x20, 0x01, 0x0d, 0xb8, 0, 0, 0, 0, 0, 0, 0, 0, 0, 0, 0, 0]);
            v.extend_from_slice(&65001u32.to_be_bytes());
            v
        }
        7 => {
            if version == 0 {
                let mut v = hdr(7, 12);
                v.extend_from_slice(&42u32.to_be_bytes());
                v
            } else {
                let mut v = hdr(7, 24);
                for x in [42u32, 3600, 600, 7200] {
                    v.extend_from_slice(&x.to_be_bytes());
                }
                v
            }
        }
        9 => {
            let mut v = hdr(0x0100, 8 + 20 + 4 + 16);
            v.extend_from_slice(&[0xab; 20]);
            v.extend_from_slice(&65001u32.to_be_bytes());
            v.extend_from_slice(&[0x30; 16]);
            v
        }
        10 => {
            let inner = {
                let mut i = vec![version, 2, 0, 0];
                i.extend_from_slice(&8u32.to_be_bytes());
                i
            };
            let text = b"bad";
            let mut v = hdr(2, (8 + 4 + inner.len() + 4 + text.len()) as u32);
            v.extend_from_slice(&(inner.len() as u32).to_be_bytes());
            v.extend_from_slice(&inner);
            v.extend_from_slice(&(text.len() as u32).to_be_bytes());
            v.extend_from_slice(text);
            v
        }
        11 => {
            let mut v = hdr(0x0100, 8 + 4 + 8);
            for x in [65001u32, 65002, 65003] {
                v.extend_from_slice(&x.to_be_bytes());
            }
            v
        }
        _ => {
            let mut v = hdr(0, 12);
            v.extend_from_slice(&[1, 2, 3, 4]);
            v
        }
    }
}

fn rtr_case(chunks: &[&[u8]]) -> String {
    let h: Vec<String> = chunks.iter().map(|c| hex(c)).collect();
    format!("rtr|{}", h.join(","))
}

fn set_slot_text(s: String) {
    MY_SLOT.with(|i| {
        let mut t = SLOT_TEXT.lock().unwrap();
        if t.len() < NSLOT {
            t.resize(NSLOT, String::new());
        }
        t[*i] = s;
    });
}

fn pass_rtr(rep: &mut Report) {
    let versions = [0u8, 1, 2, 3, 255];
    let n = versions.len() as u64 * 256;
    let valid_ok = AtomicU64::new(0);
    let valid_n = AtomicU64::new(0);
    enumr::par_range(n, rep, |i, r| {
        let version = versions[(i / 256) as usize];
        let t = (i % 256) as u8;
        let pdu = rtr_pdu(version, t);
        let truelen = pdu.len() as u32;
        if version <= 2 && rtr_type_defined(version, t) {
            valid_n.fetch_add(1, Ordering::Relaxed);
            if wire::read_rtr(&pdu).is_ok() {
                valid_ok.fetch_add(1, Ordering::Relaxed);
            } else {
                r.notes.push(format!("rtr: harness-built PDU type {t} v{version} is not accepted by wire::read_rtr"));
            }
        }
        let mut lens: Vec<u32> = vec![0, 1, 7, 8, 9, 12, 16, 20, 24, 32, truelen.wrapping_sub(1), truelen, truelen + 1, 0x7fff_ffff, 0x8000_0000, u32::MAX];
        lens.sort();
        lens.dedup();
        let mut bufs: Vec<Vec<u8>> = Vec::new();
        for l in &lens {
            let mut b = pdu.clone();
            b[4..8].copy_from_slice(&l.to_be_bytes());
            bufs.push(b.clone());
            if (8..=64).contains(l) && *l != truelen {
                b.resize(*l as usize, 0);
                bufs.push(b);
            }
        }
        // glued: this PDU followed by a valid Cache Reset / preceded by one
        let reset = rtr_pdu(1, 8);
        let mut g = pdu.clone();
        g.extend_from_slice(&reset);
        bufs.push(g);
        let mut g = reset.clone();
        g.extend_from_slice(&pdu);
        bufs.push(g);
        let mut seen: HashSet<Vec<u8>> = HashSet::new();
        let mut evals = 0u64;
        let mut hist = [0u64; 4];
        beat(P_OTHER, 0, i as usize);
        for b in bufs {
            if !seen.insert(b.clone()) {
                continue;
            }
            set_slot_text(format!("rtr|{}", hex(&b)));
            for k in 0..=b.len() {
                let chunks: Vec<&[u8]> = if k == 0 || k == b.len() { vec![&b[..]] } else { vec![&b[..k], &b[k..]] };
                if k == b.len() && k != 0 {
                    continue; // same as k == 0
                }
                SLOTS_TICK();
                if let Some((tail, what)) = eval_rtr(&chunks, &mut evals, &mut hist) {
                    record(r, tail, what, rtr_case(&chunks));
                }
                r.add("cases:rtr", 1);
                r.distinct_nontrivial += 1;
            }
            // byte by byte
            let bytes: Vec<&[u8]> = b.chunks(1).collect();
            if let Some((tail, what)) = eval_rtr(&bytes, &mut evals, &mut hist) {
                record(r, tail, what, rtr_case(&bytes));
            }
            r.add("cases:rtr", 1);
            r.distinct_nontrivial += 1;
        }
        idle();
        r.evaluations += evals;
        for (k, v) in ["rtr:message", "rtr:need-more", "rtr:error", "rtr:panic"].iter().zip(hist) {
            if v > 0 {
                r.add(k, v);
            }
        }
    });
    rep.notes.push(format!(
        "rtr: {}/{} harness-built PDUs of RFC-defined (version, type) pairs accepted by the independent reader wire::read_rtr",
        valid_ok.load(Ordering::Relaxed),
        valid_n.load(Ordering::Relaxed)
    ));
}

// ---------------------------------------------------------------------------
// BFD
// ---------------------------------------------------------------------------

fn pass_bfd(rep: &mut Report) {
    // RFC 5880 §4.1: vers/diag, sta/flags, detect mult, length, my disc, your disc, 3 intervals
    let mut bases: Vec<Vec<u8>> = Vec::new();
    for sta in 0..4u8 {
        for flags in [0u8, 0x20, 0x10, 0x08, 0x04, 0x02, 0x01] {
            let mut b = vec![0x20 | sta, sta << 6 | flags, 3, 24];
            for x in [0x1234_5678u32, 0xabcd_ef12, 100_000, 200_000, 0] {
                b.extend_from_slice(&x.to_be_bytes());
            }
            bases.push(b);
        }
    }
    let mut seen: HashSet<Vec<u8>> = HashSet::new();
    let mut hist = [0u64; 3];
    let mut n = 0u64;
    let mut run = |b: Vec<u8>, rep: &mut Report| {
        if !seen.insert(b.clone()) {
            return;
        }
        n += 1;
        if let Some((tail, what)) = eval_bfd(&b, &mut hist) {
            record(rep, tail, what, format!("bfd|{}", hex(&b)));
        }
    };
    beat(P_OTHER, 0, 0);
    set_slot_text("bfd".into());
    for base in &bases {
        run(base.clone(), rep);
        for i in 0..4 {
            for v in 0..=255u8 {
                let mut b = base.clone();
                b[i] = v;
                run(b, rep);
            }
        }
        for i in 4..24 {
            for v in byte_boundary_vals(base[i]) {
                let mut b = base.clone();
                b[i] = v;
                run(b, rep);
            }
        }
        for k in 0..24 {
            run(base[..k].to_vec(), rep);
        }
        for extra in [1usize, 2, 24, 231, 232, 1000] {
            let mut b = base.clone();
            b.resize(24 + extra, 0);
            run(b.clone(), rep);
            // length byte agrees with the datagram size (authentication section / padding)
            if b.len() <= 255 {
                b[3] = b.len() as u8;
                run(b, rep);
            }
        }
        for l in 0..=255u8 {
            // length byte l, datagram resized to l
            let mut b = base.clone();
            b[3] = l;
            if l >= 4 {
                b.resize(l as usize, 0);
                b[3] = l;
            }
            run(b, rep);
        }
    }
    idle();
    rep.evaluations += n;
    rep.distinct_nontrivial += n;
    rep.add("cases:bfd", n);
    for (k, v) in ["bfd:message", "bfd:error", "bfd:panic"].iter().zip(hist) {
        rep.add(k, v);
    }
}

// ---------------------------------------------------------------------------
// entry point
// ---------------------------------------------------------------------------

fn replay(case: &str) -> Report {
    let mut rep = Report::new("C03", "hx-c03");
    rep.rule = RULE.into();
    let parts: Vec<&str> = case.split('|').collect();
    // step budget in replay mode as well
    std::thread::spawn(watchdog);
    set_slot_text(case.to_string());
    beat(P_OTHER, 0, 0);
    WATCH_ON.store(true, Ordering::Relaxed);
    let chunks_of = |s: &str| -> Vec<Vec<u8>> { s.split(',').map(unhex).collect() };
    let res: Option<Bad> = match parts.as_slice() {
        ["bgp", cx, hx] => {
            let Some(cx) = Cx::parse(cx) else {
                rep.machinery_error = Some(format!("bad codec descriptor {cx:?}"));
                return rep;
            };
            let chunks = chunks_of(hx);
            let refs: Vec<&[u8]> = chunks.iter().map(|c| &c[..]).collect();
            let mut rx = cx.codec();
            let mut acc = Acc::new();
            eprintln!("c03 replay: codec {} (max {} bytes, two_byte_as {}), {} chunk(s), {} bytes", cx.name(), cx.max_len(), rx.two_byte_as, chunks.len(), chunks.iter().map(|c| c.len()).sum::<usize>());
            let all: Vec<u8> = chunks.concat();
            match wire::read_frame(&all, cx.max_len()) {
                Ok(f) => eprintln!("c03 replay: independent reader: type {} length {} ({} fields)", f.msg_type, f.len, f.fields.len()),
                Err(e) => eprintln!("c03 replay: independent reader: {e}"),
            }
            let r = eval_bgp(&mut rx, cx.max_len(), &refs, &mut acc);
            for (i, n) in acc.hist.iter().enumerate() {
                if *n > 0 {
                    eprintln!("c03 replay:   outcome {} x{n}", h_name(i));
                }
            }
            rep.evaluations = acc.evals;
            r
        }
        ["rtr", hx] => {
            let chunks = chunks_of(hx);
            let refs: Vec<&[u8]> = chunks.iter().map(|c| &c[..]).collect();
            let mut evals = 0;
            let mut hist = [0u64; 4];
            let r = eval_rtr(&refs, &mut evals, &mut hist);
            eprintln!("c03 replay: rtr: {} chunk(s); message {} need-more {} error {} panic {}", chunks.len(), hist[0], hist[1], hist[2], hist[3]);
            eprintln!("c03 replay: independent reader: {:?}", wire::read_rtr(&chunks.concat()).map(|p| (p.version, p.pdu_type, p.length)));
            rep.evaluations = evals;
            r
        }
        ["bfd", hx] => {
            let b = unhex(hx);
            let mut hist = [0u64; 3];
            let r = eval_bfd(&b, &mut hist);
            eprintln!("c03 replay: bfd {} bytes: message {} error {} panic {}", b.len(), hist[0], hist[1], hist[2]);
            rep.evaluations = 1;
            r
        }
        _ => {
            rep.machinery_error = Some(format!("cannot parse replay case {case:?}"));
            return rep;
        }
    };
    WATCH_ON.store(false, Ordering::Relaxed);
    match res {
        Some((tail, what)) => {
            eprintln!("c03 replay: VIOLATION C03/{tail}: {what}");
            rep.violation(Violation { sig: format!("C03/{tail}"), what, case: case.to_string() });
        }
        None => eprintln!("c03 replay: all oracle clauses hold"),
    }
    rep.distinct_nontrivial = 1;
    rep
}

pub fn run(replay_case: Option<&str>) -> Report {
    if let Some(c) = replay_case {
        return replay(c);
    }
    let mut rep = Report::new("C03", "hx-c03");
    rep.rule = RULE.into();
    let thorough = rep.thorough();
    let t0 = std::time::Instant::now();
    let mut notes = Vec::new();
    let units: &'static [Unit] = UNITS.get_or_init(|| corpus(thorough, &mut notes));
    rep.notes.extend(notes);
    std::thread::spawn(watchdog);
    WATCH_ON.store(true, Ordering::Relaxed);

    // menu sizes (and reader statistics)
    let sizes: Mutex<Vec<usize>> = Mutex::new(vec![0; units.len()]);
    let reader_bad: Mutex<Vec<String>> = Mutex::new(Vec::new());
    let nfields = AtomicU64::new(0);
    enumr::par_range(units.len() as u64, &mut rep, |i, _r| {
        let u = &units[i as usize];
        let (m, info) = menu(&u.frame, &u.cx, u.big);
        sizes.lock().unwrap()[i as usize] = m.len();
        nfields.fetch_add(info.fields as u64, Ordering::Relaxed);
        if !info.reader_ok {
            reader_bad.lock().unwrap().push(u.label.clone());
        }
    });
    let sizes = sizes.into_inner().unwrap();
    let mut bad = reader_bad.into_inner().unwrap();
    bad.sort();
    bad.dedup();
    let n_big = units.iter().filter(|u| u.big).count();
    let n_pairs = units.iter().filter(|u| u.pairs && !u.big).count();
    let cxs: HashSet<Cx> = units.iter().map(|u| u.cx).collect();
    let rxs: HashSet<(u8, bool, bool, bool)> = units.iter().map(|u| u.cx.rx_key()).collect();
    rep.notes.push(format!(
        "corpus: {} distinct seed frames ({} full-size, {} in the pair corpus) under {} codecs ({} distinct decoder configurations); {} fields from wire.rs; total bytes {}",
        units.len(), n_big, n_pairs, cxs.len(), rxs.len(), nfields.load(Ordering::Relaxed), units.iter().map(|u| u.frame.len()).sum::<usize>()
    ));
    if !bad.is_empty() {
        rep.notes.push(format!("corpus: {} seed labels not accepted by the independent reader (generic mutations only): {}", bad.len(), report::trunc(&bad.join(" "), 400)));
    }
    for k in [0usize, units.len() / 3, 2 * units.len() / 3, units.len() - 1] {
        let u = &units[k];
        rep.samples.push(format!("seed {} under {}: {} ({} single mutations)", u.label, u.cx.name(), report::trunc(&hex(&u.frame), 160), sizes[k]));
    }

    let t = std::time::Instant::now();
    pass_singles(units, &sizes, &mut rep);
    rep.notes.push(format!("singles: {} mutations over {} seeds in {:.1}s", sizes.iter().sum::<usize>(), units.len(), t.elapsed().as_secs_f64()));
    let t = std::time::Instant::now();
    pass_stream(units, &mut rep);
    rep.notes.push(format!("stream: every seed split at every offset, glued, header-only, byte-by-byte in {:.1}s", t.elapsed().as_secs_f64()));
    if thorough {
        let t = std::time::Instant::now();
        pass_pairs(units, &sizes, &mut rep);
        rep.notes.push(format!("pairs: {} seeds, {} pairs in {:.1}s", n_pairs, rep.extra.get("cases:mutation pairs").copied().unwrap_or(0), t.elapsed().as_secs_f64()));
    } else {
        rep.notes.push("pairs: not run in the quick tier".into());
    }
    let t = std::time::Instant::now();
    pass_rtr(&mut rep);
    pass_bfd(&mut rep);
    rep.notes.push(format!("rtr+bfd in {:.1}s", t.elapsed().as_secs_f64()));
    WATCH_ON.store(false, Ordering::Relaxed);

    let outcomes: Vec<String> = rep.extra.iter().filter(|(k, _)| k.starts_with("bgp:") || k.starts_with("rtr:") || k.starts_with("bfd:")).map(|(k, v)| format!("{k}={v}")).collect();
    rep.notes.push(format!("outcomes ({} classes): {}", outcomes.len(), outcomes.join(" ")));
    rep.notes.push("assume: allocation: no decoder allocates from a length field beyond 64 KiB (BGP lengths are 16-bit; RtrCodec never allocates from the 32-bit length) - checked by reading the code, not observed".into());
    rep.notes.push(format!("assume: step budget = {} s per decoder call (watchdog); decode loops capped at buffer-length iterations", stall_limit().as_secs()));
    rep.notes.push(format!("total {:.1}s", t0.elapsed().as_secs_f64()));
    canonical_witnesses(&mut rep);
    rep.exhaustive = true;
    rep
}
