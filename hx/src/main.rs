// External harness: explores the public API of rustybgp-packet and
// rustybgp-table.  One sub-command per check part; see /verif/check.
#![allow(clippy::all)]
#![allow(dead_code)]

#[path = "../../lib/vx/mod.rs"]
pub mod vx;

mod universe;
mod mkmsg;
mod wire;
mod c02;
mod c03;
mod c04;
mod c05;
mod c06;
mod c12;
mod c14;
mod c19;

fn main() {
    vx::report::quiet_panics();
    let args: Vec<String> = std::env::args().collect();
    let part = args.get(1).map(|s| s.as_str()).unwrap_or("");
    let replay = args
        .iter()
        .position(|a| a == "--replay")
        .and_then(|i| args.get(i + 1))
        .cloned();
    let profile = if cfg!(debug_assertions) { "dev" } else { "release" };
    let rep = match part {
        "c06" => c06::run("C06", replay.as_deref()),
        "c15" => c06::run("C15", replay.as_deref()),
        "c02" => c02::run(replay.as_deref()),
        "c03" => c03::run(replay.as_deref()),
        "c04" => c04::run(replay.as_deref()),
        "c05" => c05::run(replay.as_deref()),
        "c12" => c12::run(replay.as_deref()),
        "c14" => c14::run(replay.as_deref()),
        "c19" => c19::run(replay.as_deref()),
        _ => {
            eprintln!("hx: unknown part {part:?}");
            std::process::exit(2);
        }
    };
    let mut rep = rep;
    rep.part = format!("{}-{}", rep.part, profile);
    rep.finish();
    if rep.machinery_error.is_some() {
        std::process::exit(2);
    }
}
