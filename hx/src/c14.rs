// C14 harness (stub: replaced by the real harness).
use crate::vx::report::Report;

pub fn run(_replay: Option<&str>) -> Report {
    let mut rep = Report::new("C14", "hx-c14");
    rep.machinery_error = Some("harness not built yet".into());
    rep
}
