// C14 harness: routing policy evaluates as specified and can never crash on a route.
//
// Part (a): bounded-exhaustive enumeration of policy programs x routes, evaluated by the
//           real rustybgp_table policy engine (built only through the public PolicyTable
//           API, the way daemon/src/event/grpc.rs does) and by a reference interpreter
//           written from the property statement (linear scans, no shared code).
// Part (b): vx::bfs over CRUD histories (sets / statements / policies / assignments).
//
// The code is split over several files (`c14_*.rs`, included below) only to keep the
// individual files readable; they form one module.

use crate::vx::bfs::{self, BfsCfg};
use crate::vx::enumr;
use crate::vx::report::{self, Report, Violation};
use rustybgp_packet::bgp::{Ipv4Net, Ipv6Net, Nexthop};
use rustybgp_packet::{Attribute, Family, IpNet, Nlri};
use rustybgp_table::{
    Actions, CommunityAction, CommunityActionType, Comparison, Condition, ConditionConfig,
    DefinedSetConfig, DefinedSetRef, Disposition, LocalPrefAction, MatchOption, MedAction,
    MedActionType, NexthopAction, OriginAction, PeerRole, PolicyAssignment, PolicyDirection,
    PolicyTable, PrefixConfig, Roa, RouteType, RpkiTable, RpkiValidationState, Source, TableError,
};
use std::collections::{BTreeMap, BTreeSet, HashSet};
use std::net::{IpAddr, Ipv4Addr, Ipv6Addr};
use std::sync::{Arc, Mutex};

include!("c14_core.rs");
include!("c14_sets.rs");
include!("c14_chain.rs");
include!("c14_crud.rs");

pub fn run(replay: Option<&str>) -> Report {
    let mut rep = Report::new("C14", "hx-c14");
    if let Some(case) = replay {
        return run_replay(rep, case);
    }
    let thorough = rep.thorough();
    rep.rule = "part (a): every (policy program, route) pair of the stated small universes is built through the public PolicyTable API and evaluated by apply_import/apply_export, then compared with a reference interpreter (disposition + attribute vector + next hop) and checked for panics; non-trivial/distinct = distinct per-program behaviour vectors (outcome of one program over all routes of its universe) observed from the subject. part (b): explicit-state BFS over CRUD histories; distinct = canonical table states".into();

    let mut distinct: u64 = 0;
    let subs: Vec<(&str, fn(&mut Report, bool) -> u64)> = vec![
        ("a1v4", |r, t| a1_run(r, t, false)),
        ("a1v6", |r, t| a1_run(r, t, true)),
        ("a2", a2_run),
        ("a3", a3_run),
        ("a4", a4_run),
        ("a5", a5_run),
        ("a6", a6_run),
    ];
    for (name, f) in subs {
        let mut sub = Report::new("C14", "hx-c14");
        let t0 = std::time::Instant::now();
        let d = f(&mut sub, thorough);
        distinct += d;
        sub.notes.push(format!(
            "{name}: evaluations={} distinct_behaviours={} violations(sigs)={} wall={:.1}s",
            sub.evaluations,
            d,
            sub.violations.len(),
            t0.elapsed().as_secs_f64()
        ));
        sub.distinct_nontrivial = 0;
        rep.merge(sub);
    }
    rep.distinct_nontrivial += distinct;
    crud_run(&mut rep, thorough);
    rep
}

fn run_replay(mut rep: Report, case: &str) -> Report {
    let name = case.split('#').next().unwrap_or("");
    let idx: Vec<u64> = case
        .split('#')
        .nth(1)
        .unwrap_or("")
        .split(',')
        .filter_map(|s| s.trim().parse().ok())
        .collect();
    eprintln!("replay {case}");
    let vs: Vec<(String, String, String)> = match name {
        "a1v4" => a1_replay(&idx, false),
        "a1v6" => a1_replay(&idx, true),
        "a2" => a2_replay(&idx),
        "a3" => a3_replay(&idx),
        "a4" => a4_replay(&idx),
        "a5" => a5_replay(&idx),
        "a6" => a6_replay(&idx),
        n if n.starts_with("crud") => {
            return crud_replay(rep, case);
        }
        _ => {
            rep.machinery_error = Some(format!("unknown replay case {name:?}"));
            return rep;
        }
    };
    rep.evaluations = 1;
    for (sig, what, case) in vs {
        eprintln!("  VIOLATION {sig}: {what}");
        rep.violation(Violation { sig, what, case });
    }
    rep
}
