// C14 harness: routing policy evaluates as specified and can never crash on a route.
//
// Part (a): bounded-exhaustive enumeration of policy programs x routes, evaluated by the
//           real rustybgp_table policy engine (built only through the public PolicyTable
//           API, the way daemon/src/event/grpc.rs does) and by a reference interpreter
//           written from the property statement (linear scans, no shared code).
// Part (b): vx::bfs over CRUD histories (sets / statements / policies / assignments).
//
// (single file; sections: driver, core model + reference, set conditions, chaining, CRUD)

use crate::vx::bfs::{self, BfsCfg};
use crate::vx::enumr;
use crate::vx::report::{self, Report, Violation};
use rustybgp_packet::bgp::{Ipv4Net, Ipv6Net, Nexthop};
use rustybgp_packet::{Attribute, Family, IpNet, Nlri};
use rustybgp_table::{
    Actions, CommunityAction, CommunityActionType, Comparison, Condition, ConditionConfig,
    DefinedSetConfig, DefinedSetRef, Disposition, LocalPrefAction, MatchOption, MedAction,
    MedActionType, NexthopAction, OriginAction, PeerRole, PolicyAssignment, PolicyDirection,
    PolicyTable, PrefixConfig, Roa, RouteType, RpkiTable, RpkiValidationState, Source, TableError,
};
use std::collections::{BTreeMap, BTreeSet, HashSet};
use std::net::{IpAddr, Ipv4Addr, Ipv6Addr};
use std::sync::{Arc, Mutex};


pub fn run(replay: Option<&str>) -> Report {
    let mut rep = Report::new("C14", "hx-c14");
    if let Some(case) = replay {
        return run_replay(rep, case);
    }
    let thorough = rep.thorough();
    rep.rule = "part (a): every (policy program, route) pair of the stated small universes is built through the public PolicyTable API and evaluated by apply_import/apply_export, then compared with a reference interpreter (disposition + attribute vector + next hop) and checked for panics; non-trivial/distinct = distinct per-program behaviour vectors (outcome of one program over all routes of its universe) observed from the subject. part (b): explicit-state BFS over CRUD histories; distinct = canonical table states".into();

    let mut distinct: u64 = 0;
    let subs: Vec<(&str, fn(&mut Report, bool) -> u64)> = vec![
        ("a1v4", |r, t| a1_run(r, t, false)),
        ("a1v6", |r, t| a1_run(r, t, true)),
        ("a2", a2_run),
        ("a3", a3_run),
        ("a4", a4_run),
        ("a5", a5_run),
        ("a6", a6_run),
    ];
    for (name, f) in subs {
        let mut sub = Report::new("C14", "hx-c14");
        let t0 = std::time::Instant::now();
        let d = f(&mut sub, thorough);
        distinct += d;
        sub.notes.push(format!(
            "{name}: evaluations={} distinct_behaviours={} violations(sigs)={} wall={:.1}s",
            sub.evaluations,
            d,
            sub.violations.len(),
            t0.elapsed().as_secs_f64()
        ));
        sub.distinct_nontrivial = 0;
        rep.merge(sub);
    }
    rep.distinct_nontrivial += distinct;
    crud_run(&mut rep, thorough);
    rep
}

fn run_replay(mut rep: Report, case: &str) -> Report {
    let name = case.split('#').next().unwrap_or("");
    let idx: Vec<u64> = case
        .split('#')
        .nth(1)
        .unwrap_or("")
        .split(',')
        .filter_map(|s| s.trim().parse().ok())
        .collect();
    eprintln!("replay {case}");
    let vs: Vec<(String, String, String)> = match name {
        "a1v4" => a1_replay(&idx, false),
        "a1v6" => a1_replay(&idx, true),
        "a2" => a2_replay(&idx),
        "a3" => a3_replay(&idx),
        "a4" => a4_replay(&idx),
        "a5" => a5_replay(&idx),
        "a6" => a6_replay(&idx),
        n if n.starts_with("crud") => {
            return crud_replay(rep, case);
        }
        _ => {
            rep.machinery_error = Some(format!("unknown replay case {name:?}"));
            return rep;
        }
    };
    rep.evaluations = 1;
    for (sig, what, case) in vs {
        eprintln!("  VIOLATION {sig}: {what}");
        rep.violation(Violation { sig, what, case });
    }
    rep
}

// ===========================================================================
// Core: plain models of programs and routes, installation through the public
// API, subject evaluation, reference interpreter.
// ===========================================================================

#[derive(Clone, Copy, PartialEq, Eq, Debug, Hash, PartialOrd, Ord)]
enum Opt {
    Any,
    All,
    Invert,
}
const OPTS: [Opt; 3] = [Opt::Any, Opt::All, Opt::Invert];

impl Opt {
    fn cfg(self) -> MatchOption {
        match self {
            Opt::Any => MatchOption::Any,
            Opt::All => MatchOption::All,
            Opt::Invert => MatchOption::Invert,
        }
    }
    /// "ANY/ALL/INVERT mean what they say" over the per-pattern verdicts.
    fn combine(self, per_pattern: &[bool]) -> bool {
        match self {
            Opt::Any => per_pattern.iter().any(|&b| b),
            Opt::All => per_pattern.iter().all(|&b| b),
            Opt::Invert => !per_pattern.iter().any(|&b| b),
        }
    }
}

#[derive(Clone, Copy, PartialEq, Eq, Debug, Hash, PartialOrd, Ord)]
enum Disp {
    Accept,
    Reject,
    Pass,
}
impl Disp {
    fn cfg(self) -> Disposition {
        match self {
            Disp::Accept => Disposition::Accept,
            Disp::Reject => Disposition::Reject,
            Disp::Pass => Disposition::Pass,
        }
    }
    fn of(d: Disposition) -> Disp {
        match d {
            Disposition::Accept => Disp::Accept,
            Disposition::Reject => Disp::Reject,
            Disposition::Pass => Disp::Pass,
        }
    }
}

#[derive(Clone, Copy, PartialEq, Eq, Debug)]
enum Cmp {
    Eq,
    Ge,
    Le,
}
impl Cmp {
    fn cfg(self) -> Comparison {
        match self {
            Cmp::Eq => Comparison::Eq,
            Cmp::Ge => Comparison::Ge,
            Cmp::Le => Comparison::Le,
        }
    }
    fn holds(self, l: u64, v: u64) -> bool {
        match self {
            Cmp::Eq => l == v,
            Cmp::Ge => l >= v,
            Cmp::Le => l <= v,
        }
    }
}

#[derive(Clone, Copy, PartialEq, Eq, Debug)]
enum Dir {
    Import,
    Export,
}

/// Prefix-set entry.  `addr` is left-aligned in 128 bits for both families.
#[derive(Clone, Debug, PartialEq)]
struct PEntry {
    v6: bool,
    addr: u128,
    plen: u8,
    min: u8,
    max: u8,
}

fn net_str(v6: bool, addr: u128, len: u8) -> String {
    if v6 {
        format!("{}/{}", Ipv6Addr::from(addr), len)
    } else {
        format!("{}/{}", Ipv4Addr::from((addr >> 96) as u32), len)
    }
}

impl PEntry {
    fn text(&self) -> String {
        format!("{}[{}..{}]", net_str(self.v6, self.addr, self.plen), self.min, self.max)
    }
    /// "a set entry covers the route's prefix": the entry is not longer than the
    /// route and the first plen bits agree.
    fn covers(&self, v6: bool, addr: u128, len: u8) -> bool {
        if self.v6 != v6 || self.plen > len {
            return false;
        }
        self.plen == 0 || (self.addr ^ addr) >> (128 - self.plen as u32) == 0
    }
    fn matches(&self, v6: bool, addr: u128, len: u8) -> bool {
        self.covers(v6, addr, len) && self.min <= len && len <= self.max
    }
}

#[derive(Clone, Copy, PartialEq, Eq, Debug, Hash, PartialOrd, Ord)]
enum AsForm {
    Include,
    LeftMost,
    Origin,
    Only,
}

#[derive(Clone, Debug, PartialEq)]
enum AsPat {
    /// `_N_` `^N_` `_N$` `^N$` and the range variants `_A-B_` ...
    Single { form: AsForm, lo: u32, hi: u32 },
    /// probe: "^1_2$" -- a genuine (non single-form) regular expression
    Regex12,
    /// "^$": matches the empty string only (an AS_PATH that is present and empty: locally originated routes)
    RegexEmpty,
    /// ".*": matches every string, the empty one included
    RegexAny,
}

impl AsPat {
    fn text(&self) -> String {
        match self {
            AsPat::Single { form, lo, hi } => {
                let n = if lo == hi { format!("{lo}") } else { format!("{lo}-{hi}") };
                match form {
                    AsForm::Include => format!("_{n}_"),
                    AsForm::LeftMost => format!("^{n}_"),
                    AsForm::Origin => format!("_{n}$"),
                    AsForm::Only => format!("^{n}$"),
                }
            }
            AsPat::Regex12 => "^1_2$".to_string(),
            AsPat::RegexEmpty => "^$".to_string(),
            AsPat::RegexAny => ".*".to_string(),
        }
    }
    fn class(&self) -> &'static str {
        match self {
            AsPat::Single { form: AsForm::Include, .. } => "include",
            AsPat::Single { form: AsForm::LeftMost, .. } => "leftmost",
            AsPat::Single { form: AsForm::Origin, .. } => "origin",
            AsPat::Single { form: AsForm::Only, .. } => "only",
            AsPat::Regex12 => "regex(non-single-form)",
            AsPat::RegexEmpty => "regex(empty-string)",
            AsPat::RegexAny => "regex(any-string)",
        }
    }
}

type Segs = Vec<(u8, Vec<u32>)>;
const SEG_SET: u8 = 1;
const SEG_SEQ: u8 = 2;
const SEG_CSEQ: u8 = 3;
const SEG_CSET: u8 = 4;

/// Acceptable verdicts of one AS-path pattern on one path.  Several readings are
/// accepted (the statement does not pin the pattern semantics on odd paths):
///  G = GoBGP: the list of AS_SEQUENCE members, other segment types contribute a 0 placeholder;
///  F = flat: all members of all segments in order;
///  S = per segment: first member of the first segment / last member of the last segment.
/// On paths made only of non-empty AS_SEQUENCE segments all readings agree.
fn as_pat_readings(p: &AsPat, path: Option<&Segs>) -> BTreeSet<bool> {
    let mut out = BTreeSet::new();
    let Some(segs) = path else {
        out.insert(false);
        return out;
    };
    match p {
        AsPat::Single { form, lo, hi } => {
            let inr = |x: u32| *lo <= x && x <= *hi;
            let on_list = |l: &[u32]| -> bool {
                match form {
                    AsForm::Include => l.iter().any(|&x| inr(x)),
                    AsForm::LeftMost => !l.is_empty() && inr(l[0]),
                    AsForm::Origin => !l.is_empty() && inr(l[l.len() - 1]),
                    AsForm::Only => l.len() == 1 && inr(l[0]),
                }
            };
            let mut g = Vec::new();
            let mut f = Vec::new();
            for (t, m) in segs {
                if *t == SEG_SEQ {
                    g.extend_from_slice(m);
                } else {
                    g.push(0);
                }
                f.extend_from_slice(m);
            }
            out.insert(on_list(&g));
            out.insert(on_list(&f));
            let s = match form {
                AsForm::Include => segs.iter().any(|(_, m)| m.iter().any(|&x| inr(x))),
                AsForm::LeftMost => segs.first().is_some_and(|(_, m)| m.first().is_some_and(|&x| inr(x))),
                AsForm::Origin => segs.last().is_some_and(|(_, m)| m.last().is_some_and(|&x| inr(x))),
                AsForm::Only => segs.len() == 1 && segs[0].1.len() == 1 && inr(segs[0].1[0]),
            };
            out.insert(s);
        }
        AsPat::RegexEmpty | AsPat::RegexAny => {
            // judged on an empty AS_PATH (string "") and on paths of non-empty AS_SEQUENCE
            // segments (string "1 2 ..."); the string form of other paths is not pinned
            let normal = segs.iter().all(|(t, m)| *t == SEG_SEQ && !m.is_empty());
            if normal {
                out.insert(matches!(p, AsPat::RegexAny) || segs.is_empty());
            } else {
                out.insert(true);
                out.insert(false);
            }
        }
        AsPat::Regex12 => {
            // "^1_2$": AS 1 immediately followed by AS 2 and nothing else.  Judged only on
            // paths of non-empty AS_SEQUENCE segments (string form "1 2"); don't-care elsewhere.
            let normal = !segs.is_empty() && segs.iter().all(|(t, m)| *t == SEG_SEQ && !m.is_empty());
            if normal || segs.is_empty() {
                let flat: Vec<u32> = segs.iter().flat_map(|(_, m)| m.iter().copied()).collect();
                out.insert(flat == [1, 2]);
            } else {
                out.insert(true);
                out.insert(false);
            }
        }
    }
    out
}

/// Three readings evaluated consistently over all patterns of a set.
fn as_set_readings(pats: &[AsPat], opt: Opt, path: Option<&Segs>) -> BTreeSet<bool> {
    // enumerate the product of per-pattern acceptable verdicts (tiny)
    let per: Vec<Vec<bool>> = pats.iter().map(|p| as_pat_readings(p, path).into_iter().collect()).collect();
    let mut out = BTreeSet::new();
    let dims: Vec<usize> = per.iter().map(|v| v.len()).collect();
    for i in 0..enumr::product_size(&dims) {
        let d = enumr::digits(i, &dims);
        let verdicts: Vec<bool> = d.iter().enumerate().map(|(k, &j)| per[k][j]).collect();
        out.insert(opt.combine(&verdicts));
    }
    out
}

#[derive(Clone, Debug, PartialEq)]
enum CommPat {
    /// text "H:L"
    Exact(u16, u16),
    /// text = decimal u32
    Numeric(u32),
    /// text "^H:.*$"
    HighAny(u16),
    /// text = well-known name, value per RFC 1997 / IANA
    WellKnown(&'static str, u32),
}
impl CommPat {
    fn text(&self) -> String {
        match self {
            CommPat::Exact(h, l) => format!("{h}:{l}"),
            CommPat::Numeric(v) => format!("{v}"),
            CommPat::HighAny(h) => format!("^{h}:.*$"),
            CommPat::WellKnown(n, _) => n.to_string(),
        }
    }
    fn class(&self) -> &'static str {
        match self {
            CommPat::Exact(..) => "H:L",
            CommPat::Numeric(_) => "numeric",
            CommPat::HighAny(_) => "regex",
            CommPat::WellKnown(..) => "wellknown-name",
        }
    }
    fn matches(&self, c: u32) -> bool {
        match self {
            CommPat::Exact(h, l) => c == ((*h as u32) << 16 | *l as u32),
            CommPat::Numeric(v) => c == *v,
            CommPat::HighAny(h) => (c >> 16) as u16 == *h,
            CommPat::WellKnown(_, v) => c == *v,
        }
    }
}

/// Extended community values the harness uses: two-octet-AS route target / site of origin,
/// and one of an unknown type (no string form).
fn ext_rt(asn: u16, local: u32) -> [u8; 8] {
    let a = asn.to_be_bytes();
    let l = local.to_be_bytes();
    [0x00, 0x02, a[0], a[1], l[0], l[1], l[2], l[3]]
}
fn ext_soo(asn: u16, local: u32) -> [u8; 8] {
    let mut v = ext_rt(asn, local);
    v[1] = 0x03;
    v
}
const EXT_UNKNOWN: [u8; 8] = [0x80, 0x99, 0, 1, 0, 0, 0, 1];

#[derive(Clone, Debug, PartialEq)]
enum ExtPat {
    /// "^rt:A:L$" / "^soo:A:L$"
    Exact(bool, u16, u32),
    /// "^rt:A:.*$"
    RtAsnAny(u16),
}
impl ExtPat {
    fn text(&self) -> String {
        match self {
            ExtPat::Exact(false, a, l) => format!("^rt:{a}:{l}$"),
            ExtPat::Exact(true, a, l) => format!("^soo:{a}:{l}$"),
            ExtPat::RtAsnAny(a) => format!("^rt:{a}:.*$"),
        }
    }
    fn matches(&self, c: &[u8; 8]) -> bool {
        if c[0] != 0x00 || (c[1] != 0x02 && c[1] != 0x03) {
            return false;
        }
        let soo = c[1] == 0x03;
        let asn = u16::from_be_bytes([c[2], c[3]]);
        let local = u32::from_be_bytes([c[4], c[5], c[6], c[7]]);
        match self {
            ExtPat::Exact(s, a, l) => *s == soo && *a == asn && *l == local,
            ExtPat::RtAsnAny(a) => !soo && *a == asn,
        }
    }
}

#[derive(Clone, Debug, PartialEq)]
enum LargePat {
    /// "^A:B:C$"
    Exact(u32, u32, u32),
    /// "^A:\d+:\d+$"
    GlobalAny(u32),
}
impl LargePat {
    fn text(&self) -> String {
        match self {
            LargePat::Exact(a, b, c) => format!("^{a}:{b}:{c}$"),
            LargePat::GlobalAny(a) => format!("^{a}:\\d+:\\d+$"),
        }
    }
    fn matches(&self, v: &(u32, u32, u32)) -> bool {
        match self {
            LargePat::Exact(a, b, c) => (*a, *b, *c) == *v,
            LargePat::GlobalAny(a) => *a == v.0,
        }
    }
}

#[derive(Clone, Copy, PartialEq, Eq, Debug)]
enum RT {
    Internal,
    External,
    Local,
}
#[derive(Clone, Copy, PartialEq, Eq, Debug)]
enum Rov {
    NotFound,
    Valid,
    Invalid,
}

#[derive(Clone, Debug)]
enum RCond {
    Prefix(Vec<PEntry>, Opt),
    Neighbor(Vec<(IpAddr, u8)>, Opt),
    AsPath(Vec<AsPat>, Opt),
    Comm(Vec<CommPat>, Opt),
    Ext(Vec<ExtPat>, Opt),
    Large(Vec<LargePat>, Opt),
    AsPathLen(Cmp, u32),
    Nexthop(Vec<IpAddr>),
    Rpki(Rov),
    LocalPrefEq(u32),
    MedEq(u32),
    Origin(u8),
    RouteType(RT),
    CommCount(Cmp, u32),
    AfiSafiIn(Vec<bool>), // list of families: false = IPv4 unicast, true = IPv6 unicast
}

#[derive(Clone, Debug, PartialEq)]
enum RAct {
    SetLp(u32),
    CommAdd(Vec<u32>),
    CommRemove(Vec<u32>),
    CommReplace(Vec<u32>),
    MedMod(i64),
    MedSet(i64),
    NhAddr(IpAddr),
    NhSelf,
    NhPeer,
    NhUnchanged,
    Origin(u8),
}

#[derive(Clone, Debug, Default)]
struct RStmt {
    conds: Vec<RCond>,
    disp: Option<Disp>,
    acts: Vec<RAct>,
}
#[derive(Clone, Debug, Default)]
struct RPolicy {
    stmts: Vec<RStmt>,
}
#[derive(Clone, Debug)]
struct RAssign {
    policies: Vec<RPolicy>,
    default: Disp,
}

fn one_cond(c: RCond, default: Disp) -> RAssign {
    // matching statement accepts/rejects opposite to the default, so that the
    // condition's verdict is visible in the disposition
    let d = if default == Disp::Accept { Disp::Reject } else { Disp::Accept };
    RAssign {
        policies: vec![RPolicy { stmts: vec![RStmt { conds: vec![c], disp: Some(d), acts: vec![] }] }],
        default,
    }
}

#[derive(Clone, Copy, PartialEq, Eq, Debug)]
enum Src {
    Ebgp,
    Ibgp,
    Local,
}

#[derive(Clone, Debug)]
struct RRoute {
    v6: bool,
    addr: u128,
    len: u8,
    origin: Option<u32>,
    as_path: Option<Segs>,
    med: Option<u32>,
    lp: Option<u32>,
    comms: Option<Vec<u32>>,
    ext: Option<Vec<[u8; 8]>>,
    large: Option<Vec<(u32, u32, u32)>>,
    nexthop: Option<IpAddr>,
    src: Src,
}

impl RRoute {
    fn bare(v6: bool, addr: u128, len: u8) -> RRoute {
        RRoute {
            v6,
            addr,
            len,
            origin: Some(0),
            as_path: Some(vec![(SEG_SEQ, vec![65001])]),
            med: None,
            lp: None,
            comms: None,
            ext: None,
            large: None,
            nexthop: Some(if v6 { "2001:db8::1".parse().unwrap() } else { "192.0.2.1".parse().unwrap() }),
            src: Src::Ebgp,
        }
    }
    fn v4(a: u8, b: u8, c: u8, d: u8, len: u8) -> RRoute {
        RRoute::bare(false, (u32::from_be_bytes([a, b, c, d]) as u128) << 96, len)
    }
    fn text(&self) -> String {
        let mut s = format!("{} src={:?}", net_str(self.v6, self.addr, self.len), self.src);
        if let Some(o) = self.origin {
            s += &format!(" origin={o}");
        }
        match &self.as_path {
            None => s += " aspath=<no attribute>",
            Some(p) => s += &format!(" aspath={}", segs_text(p)),
        }
        if let Some(v) = self.med {
            s += &format!(" med={v}");
        }
        if let Some(v) = self.lp {
            s += &format!(" lp={v}");
        }
        if let Some(v) = &self.comms {
            s += &format!(" comm={:?}", v.iter().map(|c| format!("{}:{}", c >> 16, c & 0xffff)).collect::<Vec<_>>());
        }
        if let Some(v) = &self.ext {
            s += &format!(" ext={:?}", v.iter().map(|c| report::hex(c)).collect::<Vec<_>>());
        }
        if let Some(v) = &self.large {
            s += &format!(" large={v:?}");
        }
        s += &format!(" nh={:?}", self.nexthop);
        s
    }
}

fn segs_text(p: &Segs) -> String {
    if p.is_empty() {
        return "<empty>".into();
    }
    p.iter()
        .map(|(t, m)| {
            let n = match *t {
                SEG_SET => "SET",
                SEG_SEQ => "SEQ",
                SEG_CSEQ => "CSEQ",
                SEG_CSET => "CSET",
                _ => "?",
            };
            if m.len() > 8 {
                format!("{n}[{}, {}, .. {} ({} ASNs)]", m[0], m[1], m[m.len() - 1], m.len())
            } else {
                format!("{n}{m:?}")
            }
        })
        .collect::<Vec<_>>()
        .join(" ")
}

struct Env {
    dir: Dir,
    /// export: address of the peer the route is sent to; import: the source's address
    peer_addr: IpAddr,
    local_addr: IpAddr,
    original_nexthop: Option<IpAddr>,
    is_confed: bool,
    rpki: Option<RpkiTable>,
    /// model of the VRPs in `rpki`: (v6, addr, plen, maxlen, asn)
    vrps: Vec<(bool, u128, u8, u8, u32)>,
}

fn src_addr(s: Src) -> IpAddr {
    match s {
        Src::Ebgp => "10.0.0.1".parse().unwrap(),
        Src::Ibgp => "10.0.0.2".parse().unwrap(),
        Src::Local => "0.0.0.0".parse().unwrap(),
    }
}
const LOCAL_ADDR: &str = "10.0.0.254";
const LOCAL_ASN: u32 = 65000;

impl Env {
    fn import(r: &RRoute) -> Env {
        Env {
            dir: Dir::Import,
            peer_addr: src_addr(r.src),
            local_addr: if r.src == Src::Local { "0.0.0.0".parse().unwrap() } else { LOCAL_ADDR.parse().unwrap() },
            original_nexthop: r.nexthop,
            is_confed: false,
            rpki: None,
            vrps: vec![],
        }
    }
    fn export(r: &RRoute) -> Env {
        Env {
            dir: Dir::Export,
            peer_addr: "10.0.0.9".parse().unwrap(),
            local_addr: LOCAL_ADDR.parse().unwrap(),
            original_nexthop: r.nexthop,
            is_confed: false,
            rpki: None,
            vrps: vec![],
        }
    }
    fn of(dir: Dir, r: &RRoute) -> Env {
        match dir {
            Dir::Import => Env::import(r),
            Dir::Export => Env::export(r),
        }
    }
}

fn source_of(s: Src) -> Arc<Source> {
    match s {
        Src::Local => Source::local(),
        Src::Ebgp => Arc::new(Source::new(src_addr(s), LOCAL_ADDR.parse().unwrap(), 65001, LOCAL_ASN, Ipv4Addr::new(1, 1, 1, 1), PeerRole::Ebgp)),
        Src::Ibgp => Arc::new(Source::new(src_addr(s), LOCAL_ADDR.parse().unwrap(), LOCAL_ASN, LOCAL_ASN, Ipv4Addr::new(2, 2, 2, 2), PeerRole::Ibgp)),
    }
}

fn to_nh(a: IpAddr) -> Nexthop {
    match a {
        IpAddr::V4(a) => Nexthop::V4(a),
        IpAddr::V6(a) => Nexthop::V6(a),
    }
}

fn as_path_bytes(segs: &Segs) -> Vec<u8> {
    let mut b = Vec::new();
    for (t, m) in segs {
        b.push(*t);
        b.push(m.len() as u8);
        for a in m {
            b.extend_from_slice(&a.to_be_bytes());
        }
    }
    b
}

fn to_subject(r: &RRoute) -> (Nlri, Arc<Vec<Attribute>>, Option<Nexthop>, Arc<Source>) {
    let nlri = if r.v6 {
        Nlri::V6(Ipv6Net { addr: Ipv6Addr::from(r.addr), mask: r.len })
    } else {
        Nlri::V4(Ipv4Net { addr: Ipv4Addr::from((r.addr >> 96) as u32), mask: r.len })
    };
    let mut a = Vec::new();
    if let Some(o) = r.origin {
        a.push(Attribute::new_with_value(Attribute::ORIGIN, o).unwrap());
    }
    if let Some(p) = &r.as_path {
        a.push(Attribute::new_with_bin(Attribute::AS_PATH, as_path_bytes(p)).unwrap());
    }
    if let Some(v) = r.med {
        a.push(Attribute::new_with_value(Attribute::MULTI_EXIT_DESC, v).unwrap());
    }
    if let Some(v) = r.lp {
        a.push(Attribute::new_with_value(Attribute::LOCAL_PREF, v).unwrap());
    }
    if let Some(v) = &r.comms {
        let mut b = Vec::new();
        for c in v {
            b.extend_from_slice(&c.to_be_bytes());
        }
        a.push(Attribute::new_with_bin(Attribute::COMMUNITY, b).unwrap());
    }
    if let Some(v) = &r.ext {
        let mut b = Vec::new();
        for c in v {
            b.extend_from_slice(c);
        }
        a.push(Attribute::new_with_bin(Attribute::EXTENDED_COMMUNITY, b).unwrap());
    }
    if let Some(v) = &r.large {
        let mut b = Vec::new();
        for (x, y, z) in v {
            b.extend_from_slice(&x.to_be_bytes());
            b.extend_from_slice(&y.to_be_bytes());
            b.extend_from_slice(&z.to_be_bytes());
        }
        a.push(Attribute::new_with_bin(Attribute::LARGE_COMMUNITY, b).unwrap());
    }
    (nlri, Arc::new(a), r.nexthop.map(to_nh), source_of(r.src))
}

/// Canonical attribute vector: code -> payload; attribute order is not significant;
/// community lists are compared as sets (the statement does not say whether an
/// "add" de-duplicates); an empty community-type list equals an absent attribute.
type Canon = BTreeMap<u8, Vec<u8>>;

fn canon_sorted_chunks(b: &[u8], n: usize) -> Vec<u8> {
    let mut v: Vec<&[u8]> = b.chunks(n).collect();
    v.sort();
    v.dedup();
    v.concat()
}

fn canon_attrs(attrs: &[Attribute]) -> Canon {
    let mut m = Canon::new();
    for a in attrs {
        let mut payload = match (a.value(), a.binary()) {
            (Some(v), _) => v.to_be_bytes().to_vec(),
            (None, Some(b)) => b.clone(),
            _ => vec![],
        };
        let width = match a.code() {
            Attribute::COMMUNITY => 4,
            Attribute::EXTENDED_COMMUNITY => 8,
            Attribute::LARGE_COMMUNITY => 12,
            _ => 0,
        };
        if width > 0 {
            if payload.is_empty() {
                continue;
            }
            payload = canon_sorted_chunks(&payload, width);
        }
        // a duplicated attribute code would be a subject bug: keep both visible
        let mut code = a.code();
        while m.contains_key(&code) {
            code = code.wrapping_add(100);
        }
        m.insert(code, payload);
    }
    m
}

fn canon_route(r: &RRoute) -> Canon {
    let (_, attrs, _, _) = to_subject(r);
    canon_attrs(&attrs)
}

#[derive(Clone, Debug, PartialEq, Eq, PartialOrd, Ord, Hash)]
struct Outcome {
    disp: Disp,
    attrs: Canon,
    nh: Option<IpAddr>,
}
impl Outcome {
    fn new(disp: Disp, attrs: Canon, nh: Option<IpAddr>) -> Outcome {
        if disp == Disp::Reject {
            // a rejected route is dropped: its attributes are not observable
            Outcome { disp, attrs: Canon::new(), nh: None }
        } else {
            Outcome { disp, attrs, nh }
        }
    }
    fn text(&self) -> String {
        if self.disp == Disp::Reject {
            return "Reject".into();
        }
        let a: Vec<String> = self.attrs.iter().map(|(c, p)| format!("{c}={}", report::hex(p))).collect();
        format!("{:?} attrs{{{}}} nh={:?}", self.disp, a.join(" "), self.nh)
    }
}

// ---------------------------------------------------------------------------
// Installation through the public API (the order the daemon's gRPC handlers use:
// defined sets, then statements, then policies, then the assignment).
// ---------------------------------------------------------------------------

struct Installed {
    pt: PolicyTable,
    asg: Arc<PolicyAssignment>,
}

struct Builder {
    pt: PolicyTable,
    n: usize,
}

fn err_str(e: TableError) -> String {
    format!("{e:?}")
}

impl Builder {
    fn new() -> Builder {
        Builder { pt: PolicyTable::new(), n: 0 }
    }
    fn fresh(&mut self, p: &str) -> String {
        self.n += 1;
        format!("{p}{}", self.n)
    }
    fn cond(&mut self, c: &RCond) -> Result<ConditionConfig, String> {
        Ok(match c {
            RCond::Prefix(es, opt) => {
                let name = self.fresh("ps");
                let prefixes = es
                    .iter()
                    .map(|e| PrefixConfig { ip_prefix: net_str(e.v6, e.addr, e.plen), mask_length_min: e.min, mask_length_max: e.max })
                    .collect();
                self.pt.add_defined_set(DefinedSetConfig::Prefix { name: name.clone(), prefixes }).map_err(err_str)?;
                ConditionConfig::PrefixSet(name, opt.cfg())
            }
            RCond::Neighbor(ns, opt) => {
                let name = self.fresh("ns");
                let neighbors = ns.iter().map(|(a, l)| format!("{a}/{l}")).collect();
                self.pt.add_defined_set(DefinedSetConfig::Neighbor { name: name.clone(), neighbors }).map_err(err_str)?;
                ConditionConfig::NeighborSet(name, opt.cfg())
            }
            RCond::AsPath(ps, opt) => {
                let name = self.fresh("as");
                let patterns = ps.iter().map(|p| p.text()).collect();
                self.pt.add_defined_set(DefinedSetConfig::AsPath { name: name.clone(), patterns }).map_err(err_str)?;
                ConditionConfig::AsPathSet(name, opt.cfg())
            }
            RCond::Comm(ps, opt) => {
                let name = self.fresh("cs");
                let patterns = ps.iter().map(|p| p.text()).collect();
                self.pt.add_defined_set(DefinedSetConfig::Community { name: name.clone(), patterns }).map_err(err_str)?;
                ConditionConfig::CommunitySet(name, opt.cfg())
            }
            RCond::Ext(ps, opt) => {
                let name = self.fresh("es");
                let patterns = ps.iter().map(|p| p.text()).collect();
                self.pt.add_defined_set(DefinedSetConfig::ExtCommunity { name: name.clone(), patterns }).map_err(err_str)?;
                ConditionConfig::ExtCommunitySet(name, opt.cfg())
            }
            RCond::Large(ps, opt) => {
                let name = self.fresh("ls");
                let patterns = ps.iter().map(|p| p.text()).collect();
                self.pt.add_defined_set(DefinedSetConfig::LargeCommunity { name: name.clone(), patterns }).map_err(err_str)?;
                ConditionConfig::LargeCommunitySet(name, opt.cfg())
            }
            RCond::AsPathLen(c, v) => ConditionConfig::AsPathLength(c.cfg(), *v),
            RCond::Nexthop(v) => ConditionConfig::Nexthop(v.clone()),
            RCond::Rpki(s) => ConditionConfig::Rpki(match s {
                Rov::NotFound => RpkiValidationState::NotFound,
                Rov::Valid => RpkiValidationState::Valid,
                Rov::Invalid => RpkiValidationState::Invalid,
            }),
            RCond::LocalPrefEq(v) => ConditionConfig::LocalPrefEq(*v),
            RCond::MedEq(v) => ConditionConfig::MedEq(*v),
            RCond::Origin(v) => ConditionConfig::Origin(*v),
            RCond::RouteType(t) => ConditionConfig::RouteType(match t {
                RT::Internal => RouteType::Internal,
                RT::External => RouteType::External,
                RT::Local => RouteType::Local,
            }),
            RCond::CommCount(c, v) => ConditionConfig::CommunityCount(c.cfg(), *v),
            RCond::AfiSafiIn(f) => ConditionConfig::AfiSafiIn(f.iter().map(|&v6| if v6 { Family::IPV6 } else { Family::IPV4 }).collect()),
        })
    }
    fn actions(acts: &[RAct]) -> Actions {
        let mut a = Actions::default();
        for x in acts {
            match x {
                RAct::SetLp(v) => a.local_pref = Some(LocalPrefAction { value: *v }),
                RAct::CommAdd(v) => a.community = Some(CommunityAction { action_type: CommunityActionType::Add, communities: v.clone() }),
                RAct::CommRemove(v) => a.community = Some(CommunityAction { action_type: CommunityActionType::Remove, communities: v.clone() }),
                RAct::CommReplace(v) => a.community = Some(CommunityAction { action_type: CommunityActionType::Replace, communities: v.clone() }),
                RAct::MedMod(v) => a.med = Some(MedAction { action_type: MedActionType::Mod, value: *v }),
                RAct::MedSet(v) => a.med = Some(MedAction { action_type: MedActionType::Replace, value: *v }),
                RAct::NhAddr(ip) => a.nexthop = Some(NexthopAction::Address(*ip)),
                RAct::NhSelf => a.nexthop = Some(NexthopAction::PeerSelf),
                RAct::NhPeer => a.nexthop = Some(NexthopAction::PeerAddress),
                RAct::NhUnchanged => a.nexthop = Some(NexthopAction::Unchanged),
                RAct::Origin(v) => a.origin = Some(OriginAction { origin: *v }),
            }
        }
        a
    }
    fn stmt(&mut self, s: &RStmt) -> Result<String, String> {
        let mut cfgs = Vec::new();
        for c in &s.conds {
            cfgs.push(self.cond(c)?);
        }
        let name = self.fresh("st");
        self.pt
            .add_statement(&name, cfgs, s.disp.map(|d| d.cfg()), Builder::actions(&s.acts))
            .map_err(err_str)?;
        Ok(name)
    }
    fn policy(&mut self, p: &RPolicy) -> Result<String, String> {
        let mut names = Vec::new();
        for s in &p.stmts {
            names.push(self.stmt(s)?);
        }
        let name = self.fresh("pol");
        self.pt.add_policy(&name, names).map_err(err_str)?;
        Ok(name)
    }
    fn install(mut self, a: &RAssign, dir: Dir) -> Result<Installed, String> {
        let mut names = Vec::new();
        for p in &a.policies {
            names.push(self.policy(p)?);
        }
        let d = match dir {
            Dir::Import => PolicyDirection::Import,
            Dir::Export => PolicyDirection::Export,
        };
        // AddPolicyAssignment on an empty slot, as the daemon does for "global"
        let (_, asg) = self.pt.add_assignment("global", d, a.default.cfg(), names).map_err(err_str)?;
        Ok(Installed { pt: self.pt, asg })
    }
}

fn install(a: &RAssign, dir: Dir) -> Result<Installed, String> {
    match report::catch(|| Builder::new().install(a, dir)) {
        Ok(r) => r,
        Err(p) => Err(format!("PANIC while building: {p}")),
    }
}

/// Evaluate the real engine.  Err = the subject panicked.
fn eval_subject(asg: &PolicyAssignment, r: &RRoute, env: &Env) -> Result<Outcome, String> {
    let (nlri, attrs, nh, src) = to_subject(r);
    report::catch(|| match env.dir {
        Dir::Import => {
            let mut nh = nh;
            let (filtered, out) = rustybgp_table::apply_import(asg, env.rpki.as_ref(), &src, &nlri, &attrs, &mut nh);
            Outcome::new(if filtered { Disp::Reject } else { Disp::Accept }, canon_attrs(&out), nh.map(|n| n.addr()))
        }
        Dir::Export => {
            let mut a = attrs;
            let mut nh = nh;
            let d = rustybgp_table::apply_export(
                asg,
                env.rpki.as_ref(),
                &src,
                &nlri,
                &mut a,
                &mut nh,
                env.original_nexthop.map(to_nh),
                env.is_confed,
                env.local_addr,
                env.peer_addr,
            );
            Outcome::new(Disp::of(d), canon_attrs(&a), nh.map(|n| n.addr()))
        }
    })
}

// ---------------------------------------------------------------------------
// Reference interpreter (from the property statement).
// ---------------------------------------------------------------------------

fn tf(b: bool) -> BTreeSet<bool> {
    let mut s = BTreeSet::new();
    s.insert(b);
    s
}
fn either() -> BTreeSet<bool> {
    let mut s = BTreeSet::new();
    s.insert(true);
    s.insert(false);
    s
}

fn ip_in_net(addr: &IpAddr, net: &IpAddr, len: u8) -> bool {
    match (addr, net) {
        (IpAddr::V4(a), IpAddr::V4(n)) => {
            let (a, n) = (u32::from(*a), u32::from(*n));
            len == 0 || (a ^ n) >> (32 - len as u32) == 0
        }
        (IpAddr::V6(a), IpAddr::V6(n)) => {
            let (a, n) = (u128::from(*a), u128::from(*n));
            len == 0 || (a ^ n) >> (128 - len as u32) == 0
        }
        _ => false,
    }
}

/// RFC 4271 9.1.2.2 (a): AS_SET counts 1, AS_SEQUENCE its members, confederation segments 0.
fn as_path_len(p: &Segs) -> u64 {
    p.iter()
        .map(|(t, m)| match *t {
            SEG_SEQ => m.len() as u64,
            SEG_SET => 1,
            _ => 0,
        })
        .sum()
}

/// Acceptable verdicts of one condition.
fn ref_cond(c: &RCond, r: &RRoute, env: &Env) -> BTreeSet<bool> {
    match c {
        RCond::Prefix(es, opt) => {
            let hit = es.iter().any(|e| e.matches(r.v6, r.addr, r.len));
            tf(if *opt == Opt::Invert { !hit } else { hit })
        }
        RCond::Neighbor(ns, opt) => {
            let hit = ns.iter().any(|(n, l)| ip_in_net(&env.peer_addr, n, *l));
            tf(if *opt == Opt::Invert { !hit } else { hit })
        }
        RCond::AsPath(ps, opt) => as_set_readings(ps, *opt, r.as_path.as_ref()),
        RCond::Comm(ps, opt) => {
            let cs = r.comms.clone().unwrap_or_default();
            let v: Vec<bool> = ps.iter().map(|p| cs.iter().any(|c| p.matches(*c))).collect();
            tf(opt.combine(&v))
        }
        RCond::Ext(ps, opt) => {
            let cs = r.ext.clone().unwrap_or_default();
            let v: Vec<bool> = ps.iter().map(|p| cs.iter().any(|c| p.matches(c))).collect();
            tf(opt.combine(&v))
        }
        RCond::Large(ps, opt) => {
            let cs = r.large.clone().unwrap_or_default();
            let v: Vec<bool> = ps.iter().map(|p| cs.iter().any(|c| p.matches(c))).collect();
            tf(opt.combine(&v))
        }
        RCond::AsPathLen(cmp, v) => match &r.as_path {
            // no AS_PATH attribute: "length 0" (GoBGP) and "condition not applicable" are both accepted
            None => {
                let mut s = tf(cmp.holds(0, *v as u64));
                s.insert(false);
                s
            }
            Some(p) => tf(cmp.holds(as_path_len(p), *v as u64)),
        },
        RCond::Nexthop(list) => tf(r.nexthop.is_some_and(|n| list.contains(&n))),
        RCond::Rpki(want) => {
            if env.vrps.is_empty() {
                // no VRP at all: NotFound (RFC 6811) or "validation not performed" are both accepted
                let mut s = tf(*want == Rov::NotFound);
                s.insert(false);
                return s;
            }
            // RFC 6811 with origin AS = last AS of the final AS_SEQUENCE segment
            let origin = r.as_path.as_ref().and_then(|p| p.last()).and_then(|(t, m)| if *t == SEG_SEQ { m.last().copied() } else { None });
            let mut covered = false;
            let mut valid = false;
            for (v6, addr, plen, maxlen, asn) in &env.vrps {
                let e = PEntry { v6: *v6, addr: *addr, plen: *plen, min: 0, max: 0 };
                if e.covers(r.v6, r.addr, r.len) {
                    covered = true;
                    if r.len <= *maxlen && *asn != 0 && Some(*asn) == origin {
                        valid = true;
                    }
                }
            }
            let st = if valid { Rov::Valid } else if covered { Rov::Invalid } else { Rov::NotFound };
            tf(st == *want)
        }
        RCond::LocalPrefEq(v) => tf(r.lp == Some(*v)),
        RCond::MedEq(v) => tf(r.med == Some(*v)),
        RCond::Origin(v) => tf(r.origin == Some(*v as u32)),
        RCond::RouteType(t) => tf(match t {
            RT::Local => r.src == Src::Local,
            RT::Internal => r.src == Src::Ibgp,
            RT::External => r.src == Src::Ebgp,
        }),
        RCond::CommCount(cmp, v) => tf(cmp.holds(r.comms.as_ref().map(|c| c.len()).unwrap_or(0) as u64, *v as u64)),
        RCond::AfiSafiIn(f) => tf(f.contains(&r.v6)),
    }
}

/// One action; several results where the statement leaves the result open.
fn ref_action(a: &RAct, r: &RRoute, env: &Env) -> Vec<RRoute> {
    let mut n = r.clone();
    match a {
        RAct::SetLp(v) => n.lp = Some(*v),
        RAct::CommAdd(v) => {
            let mut c = n.comms.take().unwrap_or_default();
            c.extend_from_slice(v);
            n.comms = Some(c);
        }
        RAct::CommRemove(v) => {
            let c: Vec<u32> = n.comms.take().unwrap_or_default().into_iter().filter(|x| !v.contains(x)).collect();
            n.comms = Some(c);
        }
        RAct::CommReplace(v) => n.comms = Some(v.clone()),
        RAct::MedSet(v) => n.med = Some((*v).clamp(0, u32::MAX as i64) as u32),
        RAct::MedMod(d) => {
            let cur = n.med.unwrap_or(0) as i64;
            let t = cur.saturating_add(*d);
            if t < 0 || t > u32::MAX as i64 {
                // out of range: clamping (rustybgp) and leaving the MED alone (GoBGP) are both accepted
                let mut clamped = n.clone();
                clamped.med = Some(t.clamp(0, u32::MAX as i64) as u32);
                return vec![clamped, n];
            }
            n.med = Some(t as u32);
        }
        RAct::NhAddr(ip) => n.nexthop = Some(*ip),
        RAct::NhSelf => n.nexthop = Some(env.local_addr),
        RAct::NhPeer => n.nexthop = Some(env.peer_addr),
        RAct::NhUnchanged => {
            if let Some(o) = env.original_nexthop {
                n.nexthop = Some(o);
            }
        }
        RAct::Origin(v) => n.origin = Some(*v as u32),
    }
    vec![n]
}

/// All outcomes the statement allows.  Statements in order; a statement applies when
/// all its conditions hold; the first non-pass disposition wins; actions of applied
/// statements accumulate; fall-through gives the default.  Conditions of later
/// statements may see the accumulated or the original attributes (both accepted).
fn ref_eval(a: &RAssign, r0: &RRoute, env: &Env) -> Vec<Outcome> {
    let mut alts: Vec<RRoute> = vec![r0.clone()];
    let mut done: BTreeSet<Outcome> = BTreeSet::new();
    for p in &a.policies {
        for s in &p.stmts {
            let mut next: Vec<RRoute> = Vec::new();
            for cur in &alts {
                let mut can_true = true;
                let mut can_false = false;
                for c in &s.conds {
                    let mut v = ref_cond(c, cur, env);
                    v.extend(ref_cond(c, r0, env));
                    if !v.contains(&true) {
                        can_true = false;
                    }
                    if v.contains(&false) {
                        can_false = true;
                    }
                }
                if can_false {
                    next.push(cur.clone());
                }
                if can_true {
                    let mut rs = vec![cur.clone()];
                    for act in &s.acts {
                        rs = rs.iter().flat_map(|x| ref_action(act, x, env)).collect();
                    }
                    for m in rs {
                        match s.disp {
                            None | Some(Disp::Pass) => next.push(m),
                            Some(d) => {
                                done.insert(Outcome::new(d, canon_route(&m), m.nexthop));
                            }
                        }
                    }
                }
            }
            alts = next;
            if alts.len() > 64 {
                alts.truncate(64); // never reached in the enumerated universes (asserted by callers' counts)
            }
        }
    }
    for cur in alts {
        done.insert(Outcome::new(a.default, canon_route(&cur), cur.nexthop));
    }
    done.into_iter().collect()
}

fn hash64(b: &[u8]) -> u64 {
    (bfs::hash128(b) >> 64) as u64
}

/// A shared set of behaviour-vector hashes (distinct-behaviour measurement).
struct Distinct(Mutex<HashSet<u64>>);
impl Distinct {
    fn new() -> Distinct {
        Distinct(Mutex::new(HashSet::new()))
    }
    fn add(&self, h: u64) {
        self.0.lock().unwrap().insert(h);
    }
    fn len(&self) -> u64 {
        self.0.lock().unwrap().len() as u64
    }
}

fn outcome_code(o: &Result<Outcome, String>) -> Vec<u8> {
    match o {
        Ok(o) => o.text().into_bytes(),
        Err(_) => b"PANIC".to_vec(),
    }
}

fn panic_site(msg: &str) -> String {
    bfs::panic_loc(msg)
}

type V3 = (String, String, String); // (sig, what, case)

/// Deterministic violation collector: per signature the witness with the smallest
/// (case length, case text) is kept, independent of thread scheduling.
struct VioSink(Mutex<BTreeMap<String, (Violation, u64)>>);
impl VioSink {
    fn new() -> VioSink {
        VioSink(Mutex::new(BTreeMap::new()))
    }
    fn add_all(&self, vs: Vec<V3>) {
        if vs.is_empty() {
            return;
        }
        let mut m = self.0.lock().unwrap();
        for (sig, what, case) in vs {
            match m.get_mut(&sig) {
                Some((old, n)) => {
                    *n += 1;
                    if (case.len(), case.as_str()) < (old.case.len(), old.case.as_str()) {
                        *old = Violation { sig, what, case };
                    }
                }
                None => {
                    m.insert(sig.clone(), (Violation { sig, what, case }, 1));
                }
            }
        }
    }
    fn into_report(self, rep: &mut Report) {
        for (sig, (v, n)) in self.0.into_inner().unwrap() {
            match rep.violations.get_mut(&sig) {
                Some((old, c)) => {
                    *c += n;
                    if (v.case.len(), v.case.as_str()) < (old.case.len(), old.case.as_str()) {
                        *old = v;
                    }
                }
                None => {
                    rep.violations.insert(sig, (v, n));
                }
            }
        }
    }
}

// ===========================================================================
// A1: prefix sets
// ===========================================================================

struct A1Space {
    v6: bool,
    w: u8,
    entries: Vec<PEntry>,
    routes: Vec<RRoute>,
    /// set index -> entry indices
    sets: Vec<(u32, u32)>, // (i, j) with j == u32::MAX for a single-entry set
}

fn a1_space(v6: bool, w: u8) -> A1Space {
    // embedded w-bit space below a base prefix that straddles a byte/group boundary
    let (base, b, maxlen): (u128, u8, u8) = if v6 {
        (0x2001_0db8u128 << 96, 31, 128)
    } else {
        (0x0a00_0000u128 << 96, 7, 32)
    };
    let mut nodes: Vec<(u128, u8)> = Vec::new();
    for l in 0..=w {
        for i in 0..(1u128 << l) {
            let len = b + l;
            nodes.push((base | (i << (128 - len as u32)), len));
        }
    }
    let mut lens: Vec<u8> = vec![0];
    for l in 0..=w + 1 {
        lens.push(b + l);
    }
    lens.push(maxlen);
    let mut ranges: Vec<(u8, u8)> = Vec::new();
    for (i, &lo) in lens.iter().enumerate() {
        for &hi in &lens[i..] {
            ranges.push((lo, hi));
        }
    }
    ranges.push((b + 2, b + 1)); // inverted range: can never match
    let mut prefixes = nodes.clone();
    prefixes.push((0, 0)); // zero-length prefix
    let mut entries = Vec::new();
    for (addr, plen) in &prefixes {
        for (min, max) in &ranges {
            entries.push(PEntry { v6, addr: *addr, plen: *plen, min: *min, max: *max });
        }
    }
    let mut routes: Vec<RRoute> = nodes.iter().map(|(a, l)| RRoute::bare(v6, *a, *l)).collect();
    routes.push(RRoute::bare(v6, 0, 0)); // default route
    routes.push(RRoute::bare(v6, base ^ (1u128 << (128 - b as u32)), b)); // sibling of the base
    let deep = b + w + 1;
    routes.push(RRoute::bare(v6, base, deep)); // longer than every entry
    routes.push(RRoute::bare(v6, base | (1u128 << (128 - deep as u32)), deep));
    // what the wire decoder can produce: host bits beyond the mask are not cleared
    routes.push(RRoute::bare(v6, base | (1u128 << (128 - (b + w) as u32)), b + 1));
    // a route of the other family
    routes.push(if v6 { RRoute::v4(10, 0, 0, 0, 8) } else { RRoute::bare(true, 0x2001_0db8u128 << 96, 32) });
    let n = entries.len() as u32;
    let mut sets = Vec::new();
    for i in 0..n {
        sets.push((i, u32::MAX));
    }
    for i in 0..n {
        for j in i + 1..n {
            sets.push((i, j));
        }
    }
    A1Space { v6, w, entries, routes, sets }
}

impl A1Space {
    fn set(&self, s: usize) -> Vec<PEntry> {
        let (i, j) = self.sets[s];
        let mut v = vec![self.entries[i as usize].clone()];
        if j != u32::MAX {
            v.push(self.entries[j as usize].clone());
        }
        v
    }
    fn name(&self) -> &'static str {
        if self.v6 { "a1v6" } else { "a1v4" }
    }
    fn dir(&self) -> Dir {
        if self.v6 { Dir::Export } else { Dir::Import }
    }
}

fn a1_shape(es: &[PEntry], r: &RRoute, hit_expected: bool) -> &'static str {
    if !hit_expected {
        // subject matched although no entry covers+contains the route
        if es.iter().any(|e| e.v6 == r.v6 && e.plen > r.len) {
            "false-match/entry-longer-than-route"
        } else {
            "false-match/other"
        }
    } else {
        let good: Vec<&PEntry> = es.iter().filter(|e| e.matches(r.v6, r.addr, r.len)).collect();
        let shadowed = good.iter().all(|g| {
            es.iter().any(|o| o.v6 == g.v6 && o.plen > g.plen && !o.matches(r.v6, r.addr, r.len))
        });
        let same = good.iter().all(|g| es.iter().any(|o| !std::ptr::eq(*g, o) && o.v6 == g.v6 && o.plen == g.plen && o.addr == g.addr));
        if same {
            "missed-match/two-entries-same-prefix"
        } else if shadowed {
            let nested = good.iter().any(|g| es.iter().any(|o| o.v6 == g.v6 && o.plen > g.plen && o.plen <= r.len && !o.matches(r.v6, r.addr, r.len)));
            if nested { "missed-match/shadowed-by-nested-entry" } else { "missed-match/shadowed-by-entry-longer-than-route" }
        } else {
            "missed-match/other"
        }
    }
}

/// Evaluate every (option, route) of one set; `only` restricts to one (opt, route).
fn a1_eval_set(sp: &A1Space, s: usize, only: Option<(usize, usize)>, verbose: bool, dist: Option<&Distinct>) -> (u64, Vec<V3>) {
    let es = sp.set(s);
    let mut out = Vec::new();
    let mut n = 0u64;
    for (oi, opt) in [Opt::Any, Opt::Invert].into_iter().enumerate() {
        if only.is_some_and(|(o, _)| o != oi) {
            continue;
        }
        let prog = one_cond(RCond::Prefix(es.clone(), opt), Disp::Reject);
        let inst = match install(&prog, sp.dir()) {
            Ok(i) => i,
            Err(e) => {
                out.push((
                    format!("C14/build/prefix-set-rejected"),
                    format!("a well-formed prefix set was not accepted by the API: {e}"),
                    format!("{}#{},{},{},0#set={:?}", sp.name(), sp.w, s, oi, es.iter().map(|e| e.text()).collect::<Vec<_>>()),
                ));
                continue;
            }
        };
        let mut behaviour = Vec::new();
        for (ri, r) in sp.routes.iter().enumerate() {
            if only.is_some_and(|(_, x)| x != ri) {
                continue;
            }
            n += 1;
            let env = Env::of(sp.dir(), r);
            let hit = es.iter().any(|e| e.matches(r.v6, r.addr, r.len));
            let cond = if opt == Opt::Invert { !hit } else { hit };
            let expected = Outcome::new(if cond { Disp::Accept } else { Disp::Reject }, canon_route(r), r.nexthop);
            let got = eval_subject(&inst.asg, r, &env);
            behaviour.extend(outcome_code(&got));
            behaviour.push(b'|');
            let render = || {
                format!(
                    "{}#{},{},{},{}#prefix-set {{{}}} {:?} x route {}",
                    sp.name(),
                    sp.w,
                    s,
                    oi,
                    ri,
                    es.iter().map(|e| e.text()).collect::<Vec<_>>().join(", "),
                    opt,
                    net_str(r.v6, r.addr, r.len)
                )
            };
            if verbose {
                eprintln!("  {}\n    expected {}\n    observed {:?}", render(), expected.text(), got.as_ref().map(|o| o.text()));
            }
            match got {
                Err(p) => out.push((format!("C14/no-panic/prefix-set/{}", panic_site(&p)), format!("policy evaluation panicked: {p}"), render())),
                Ok(g) if g != expected => {
                    let shape = a1_shape(&es, r, hit);
                    out.push((
                        format!("C14/eval/prefix-set/{shape}"),
                        format!(
                            "prefix condition ({opt:?}): the statement gives {} (an entry covers the route and contains its length: {hit}), the engine gave {}",
                            expected.text(),
                            g.text()
                        ),
                        render(),
                    ));
                }
                Ok(_) => {}
            }
        }
        if let Some(d) = dist {
            d.add(hash64(&behaviour));
        }
    }
    (n, out)
}

fn a1_run(rep: &mut Report, thorough: bool, v6: bool) -> u64 {
    let w = if thorough { 4 } else { 3 };
    let sp = a1_space(v6, w);
    let dist = Distinct::new();
    rep.notes.push(format!(
        "{}: embedded {}-bit space below {}, {} entries (prefix x [min,max]), {} sets of <=2 entries x {{ANY,INVERT}} x {} routes",
        sp.name(),
        w,
        if v6 { "2001:db8::/31" } else { "10.0.0.0/7" },
        sp.entries.len(),
        sp.sets.len(),
        sp.routes.len()
    ));
    let sink = VioSink::new();
    enumr::par_range(sp.sets.len() as u64, rep, |i, local| {
        let (n, vs) = a1_eval_set(&sp, i as usize, None, false, Some(&dist));
        local.evaluations += n;
        sink.add_all(vs);
        if i % 20011 == 0 {
            local.samples.push(format!("{} set#{i} {{{}}}", sp.name(), sp.set(i as usize).iter().map(|e| e.text()).collect::<Vec<_>>().join(", ")));
        }
    });
    sink.into_report(rep);
    dist.len()
}

fn a1_replay(idx: &[u64], v6: bool) -> Vec<V3> {
    if idx.len() < 4 {
        return vec![];
    }
    let sp = a1_space(v6, idx[0] as u8);
    if idx[1] as usize >= sp.sets.len() {
        return vec![];
    }
    a1_eval_set(&sp, idx[1] as usize, Some((idx[2] as usize, idx[3] as usize)), true, None).1
}

// ===========================================================================
// A2: AS-path sets
// ===========================================================================

struct A2Space {
    nseg: usize,
    pats: Vec<AsPat>,
    sets: Vec<Vec<usize>>,
    paths: Vec<Option<Segs>>,
}

fn a2_space(nseg: usize) -> A2Space {
    let mut pats = Vec::new();
    let forms = [AsForm::Include, AsForm::LeftMost, AsForm::Origin, AsForm::Only];
    for f in forms {
        for n in [1u32, 2] {
            pats.push(AsPat::Single { form: f, lo: n, hi: n });
        }
    }
    for f in forms {
        for (lo, hi) in [(1u32, 2u32), (2, 3)] {
            pats.push(AsPat::Single { form: f, lo, hi });
        }
    }
    let regex = pats.len();
    pats.push(AsPat::Regex12);
    pats.push(AsPat::RegexEmpty);
    pats.push(AsPat::RegexAny);
    let mut sets: Vec<Vec<usize>> = (0..pats.len()).map(|i| vec![i]).collect();
    for i in 0..8 {
        for j in i + 1..8 {
            sets.push(vec![i, j]);
        }
    }
    sets.push(vec![regex, 5]); // "^1_2$" together with "_2$"
    sets.push(vec![regex + 1, 0]); // "^$" together with "_1_"
    sets.push(vec![regex + 1, regex + 2]); // "^$" together with ".*"
    // segments: every type x member lists of length 0..=2 over {1,2,3}
    let mut members: Vec<Vec<u32>> = vec![vec![]];
    for a in 1..=3u32 {
        members.push(vec![a]);
    }
    for a in 1..=3u32 {
        for b in 1..=3u32 {
            members.push(vec![a, b]);
        }
    }
    let mut segs: Vec<(u8, Vec<u32>)> = Vec::new();
    for t in [SEG_SET, SEG_SEQ, SEG_CSEQ, SEG_CSET] {
        for m in &members {
            segs.push((t, m.clone()));
        }
    }
    let mut paths: Vec<Option<Segs>> = vec![None, Some(vec![])];
    let mut level: Vec<Segs> = vec![vec![]];
    for _ in 0..nseg {
        let mut next = Vec::new();
        for p in &level {
            for s in &segs {
                let mut q = p.clone();
                q.push(s.clone());
                next.push(q);
            }
        }
        for p in &next {
            paths.push(Some(p.clone()));
        }
        level = next;
    }
    A2Space { nseg, pats, sets, paths }
}

fn path_class(p: &Option<Segs>) -> &'static str {
    match p {
        None => "no-aspath-attribute",
        Some(s) if s.is_empty() => "zero-segments",
        Some(s) => {
            if s.last().unwrap().1.is_empty() {
                "empty-last-segment"
            } else if s[0].1.is_empty() {
                "empty-first-segment"
            } else if s.iter().any(|(_, m)| m.is_empty()) {
                "empty-middle-segment"
            } else if s.iter().all(|(t, _)| *t == SEG_SEQ) {
                "seq-only"
            } else {
                "has-set-or-confed-segment"
            }
        }
    }
}

fn a2_route(p: &Option<Segs>) -> RRoute {
    let mut r = RRoute::v4(10, 0, 0, 0, 8);
    r.as_path = p.clone();
    r
}

/// Subject verdict of one (set, opt) on one path: Ok(condition held) / Err(panic).
fn a2_subject(inst: &Installed, p: &Option<Segs>) -> Result<bool, String> {
    let r = a2_route(p);
    eval_subject(&inst.asg, &r, &Env::import(&r)).map(|o| o.disp == Disp::Accept)
}

/// bad[p][path]: the single-pattern ANY set already misbehaves on that path.
fn a2_single_matrix(sp: &A2Space) -> Vec<Vec<bool>> {
    let mut bad = Vec::new();
    for p in &sp.pats {
        let inst = install(&one_cond(RCond::AsPath(vec![p.clone()], Opt::Any), Disp::Reject), Dir::Import);
        let row: Vec<bool> = sp
            .paths
            .iter()
            .map(|path| match &inst {
                Err(_) => true,
                Ok(i) => match a2_subject(i, path) {
                    Err(_) => true,
                    Ok(v) => !as_pat_readings(p, path.as_ref()).contains(&v),
                },
            })
            .collect();
        bad.push(row);
    }
    bad
}

fn a2_eval(sp: &A2Space, bad: &[Vec<bool>], si: usize, oi: usize, only_path: Option<usize>, verbose: bool, dist: Option<&Distinct>) -> (u64, Vec<V3>) {
    let pats: Vec<AsPat> = sp.sets[si].iter().map(|&i| sp.pats[i].clone()).collect();
    let opt = OPTS[oi];
    let mut out = Vec::new();
    let texts: Vec<String> = pats.iter().map(|p| p.text()).collect();
    let inst = match install(&one_cond(RCond::AsPath(pats.clone(), opt), Disp::Reject), Dir::Import) {
        Ok(i) => i,
        Err(e) => {
            out.push((
                "C14/build/aspath-set-rejected".to_string(),
                format!("as-path set {texts:?} {opt:?} was not accepted by the API: {e}"),
                format!("a2#{},{},{},0#build", sp.nseg, si, oi),
            ));
            return (0, out);
        }
    };
    let mut n = 0;
    let mut behaviour = Vec::new();
    for (pi, path) in sp.paths.iter().enumerate() {
        if only_path.is_some_and(|x| x != pi) {
            continue;
        }
        n += 1;
        let acceptable = as_set_readings(&pats, opt, path.as_ref());
        let got = a2_subject(&inst, path);
        behaviour.push(match &got {
            Ok(true) => b'1',
            Ok(false) => b'0',
            Err(_) => b'P',
        });
        let render = || {
            format!(
                "a2#{},{},{},{}#as-path-set {:?} {:?} x AS_PATH {}",
                sp.nseg,
                si,
                oi,
                pi,
                texts,
                opt,
                path.as_ref().map(segs_text).unwrap_or("<no attribute>".into())
            )
        };
        if verbose {
            eprintln!("  {}\n    acceptable verdicts {:?}\n    observed {:?}", render(), acceptable, got);
        }
        // root cause only: a member pattern that is already wrong alone on this path is
        // reported by its single-pattern ANY case
        let member_bad = sp.sets[si].iter().any(|&i| bad[i][pi]);
        let is_single_any = pats.len() == 1 && opt == Opt::Any;
        if member_bad && !is_single_any && !verbose {
            continue;
        }
        let class = if pats.len() == 1 { pats[0].class().to_string() } else { "combination".to_string() };
        match got {
            Err(p) => out.push((
                format!("C14/no-panic/aspath-set/{}/{}", class, path_class(path)),
                format!("policy evaluation panicked on an AS_PATH the wire decoder accepts: {p}"),
                render(),
            )),
            Ok(v) if !acceptable.contains(&v) => {
                let sig = if opt == Opt::All {
                    "C14/eval/aspath-set/opt=ALL".to_string()
                } else {
                    format!("C14/eval/aspath-set/{}/{}", class, path_class(path))
                };
                out.push((
                    sig,
                    format!("as-path condition {texts:?} {opt:?}: every accepted reading gives {acceptable:?}, the engine gave {v}"),
                    render(),
                ));
            }
            Ok(_) => {}
        }
    }
    if let Some(d) = dist {
        behaviour.push(oi as u8);
        d.add(hash64(&behaviour));
    }
    (n, out)
}

fn a2_run(rep: &mut Report, thorough: bool) -> u64 {
    let sp = a2_space(if thorough { 3 } else { 2 });
    let bad = a2_single_matrix(&sp);
    let dist = Distinct::new();
    rep.notes.push(format!(
        "a2: {} patterns (8 single-AS forms, 8 range forms, 3 regex probes incl. two that match the empty string), {} sets x {{ANY,ALL,INVERT}} x {} AS_PATHs (<= {} segments, 4 types, 0..2 members of {{1,2,3}}, plus empty path and no attribute)",
        sp.pats.len(),
        sp.sets.len(),
        sp.paths.len(),
        sp.nseg
    ));
    rep.notes.push("assume: AS-path pattern semantics on paths with empty, AS_SET or confederation segments are not pinned by the statement: GoBGP's sequence-list reading, the flat-member reading and the per-segment reading are all accepted; on AS_SEQUENCE-only paths they coincide".into());
    let jobs = (sp.sets.len() * 3) as u64;
    let sink = VioSink::new();
    enumr::par_range(jobs, rep, |i, local| {
        let (si, oi) = ((i / 3) as usize, (i % 3) as usize);
        let (n, vs) = a2_eval(&sp, &bad, si, oi, None, false, Some(&dist));
        local.evaluations += n;
        sink.add_all(vs);
        if i % 37 == 0 {
            local.samples.push(format!("a2 set {:?} {:?}", sp.sets[si].iter().map(|&k| sp.pats[k].text()).collect::<Vec<_>>(), OPTS[oi]));
        }
    });
    sink.into_report(rep);
    dist.len()
}

fn a2_replay(idx: &[u64]) -> Vec<V3> {
    if idx.len() < 4 {
        return vec![];
    }
    let sp = a2_space(idx[0] as usize);
    let bad = a2_single_matrix(&sp);
    if idx[1] as usize >= sp.sets.len() || idx[2] > 2 || idx[3] as usize >= sp.paths.len() {
        return vec![];
    }
    a2_eval(&sp, &bad, idx[1] as usize, idx[2] as usize, Some(idx[3] as usize), true, None).1
}

// ===========================================================================
// A3: community / ext-community / large-community sets
// ===========================================================================

const NO_EXPORT: u32 = 0xffff_ff01;

struct A3Kind {
    name: &'static str,
    npat: usize,
    /// pattern indices -> condition
    cond: fn(&[usize], Opt) -> RCond,
    pat_text: fn(usize) -> String,
    pat_class: fn(usize) -> String,
    /// value lists: index -> route
    nlists: usize,
    route: fn(usize) -> RRoute,
}

fn comm_pats() -> Vec<CommPat> {
    vec![CommPat::Exact(1, 1), CommPat::Numeric(65538), CommPat::HighAny(2), CommPat::WellKnown("no-export", NO_EXPORT)]
}
fn ext_pats() -> Vec<ExtPat> {
    vec![ExtPat::Exact(false, 1, 1), ExtPat::Exact(true, 1, 1), ExtPat::RtAsnAny(1)]
}
fn large_pats() -> Vec<LargePat> {
    vec![LargePat::Exact(1, 1, 1), LargePat::GlobalAny(1), LargePat::Exact(2, 2, 2)]
}

/// index -> None | Some([]) | 1-lists | ordered 2-lists over `n` values
fn list_of(i: usize, n: usize) -> Option<Vec<usize>> {
    if i == 0 {
        None
    } else if i == 1 {
        Some(vec![])
    } else if i < 2 + n {
        Some(vec![i - 2])
    } else {
        let k = i - 2 - n;
        Some(vec![k / n, k % n])
    }
}
fn nlists(n: usize) -> usize {
    2 + n + n * n
}

fn a3_kinds() -> Vec<A3Kind> {
    vec![
        A3Kind {
            name: "community",
            npat: 4,
            cond: |p, o| RCond::Comm(p.iter().map(|&i| comm_pats()[i].clone()).collect(), o),
            pat_text: |i| comm_pats()[i].text(),
            pat_class: |i| comm_pats()[i].class().to_string(),
            nlists: nlists(5),
            route: |i| {
                let vals = [0x0001_0001u32, 0x0001_0002, 0x0002_0001, NO_EXPORT, 0x0000_0005];
                let mut r = RRoute::v4(10, 0, 0, 0, 8);
                r.comms = list_of(i, 5).map(|l| l.iter().map(|&k| vals[k]).collect());
                r
            },
        },
        A3Kind {
            name: "ext-community",
            npat: 3,
            cond: |p, o| RCond::Ext(p.iter().map(|&i| ext_pats()[i].clone()).collect(), o),
            pat_text: |i| ext_pats()[i].text(),
            pat_class: |i| match ext_pats()[i] {
                ExtPat::Exact(..) => "anchored-exact".to_string(),
                ExtPat::RtAsnAny(_) => "anchored-regex".to_string(),
            },
            nlists: nlists(5),
            route: |i| {
                let vals = [ext_rt(1, 1), ext_rt(1, 2), ext_soo(1, 1), ext_rt(2, 1), EXT_UNKNOWN];
                let mut r = RRoute::v4(10, 0, 0, 0, 8);
                r.ext = list_of(i, 5).map(|l| l.iter().map(|&k| vals[k]).collect());
                r
            },
        },
        A3Kind {
            name: "large-community",
            npat: 3,
            cond: |p, o| RCond::Large(p.iter().map(|&i| large_pats()[i].clone()).collect(), o),
            pat_text: |i| large_pats()[i].text(),
            pat_class: |i| match large_pats()[i] {
                LargePat::Exact(..) => "anchored-exact".to_string(),
                LargePat::GlobalAny(_) => "anchored-regex".to_string(),
            },
            nlists: nlists(3),
            route: |i| {
                let vals = [(1u32, 1u32, 1u32), (1, 2, 3), (2, 2, 2)];
                let mut r = RRoute::v4(10, 0, 0, 0, 8);
                r.large = list_of(i, 3).map(|l| l.iter().map(|&k| vals[k]).collect());
                r
            },
        },
    ]
}

fn a3_sets(npat: usize) -> Vec<Vec<usize>> {
    let mut sets: Vec<Vec<usize>> = (0..npat).map(|i| vec![i]).collect();
    for i in 0..npat {
        for j in i + 1..npat {
            sets.push(vec![i, j]);
        }
    }
    sets
}

fn a3_eval(k: &A3Kind, ki: usize, si: usize, oi: usize, only: Option<usize>, bad_pat: &[bool], verbose: bool, dist: Option<&Distinct>) -> (u64, Vec<V3>) {
    let sets = a3_sets(k.npat);
    let set = &sets[si];
    let opt = OPTS[oi];
    let texts: Vec<String> = set.iter().map(|&i| (k.pat_text)(i)).collect();
    let cond = (k.cond)(set, opt);
    let mut out = Vec::new();
    let dir = if ki % 2 == 0 { Dir::Import } else { Dir::Export };
    let inst = match install(&one_cond(cond.clone(), Disp::Reject), dir) {
        Ok(i) => i,
        Err(e) => {
            out.push((
                format!("C14/build/{}-set-rejected", k.name),
                format!("{} set {texts:?} {opt:?} was not accepted by the API: {e}", k.name),
                format!("a3#{ki},{si},{oi},0#build"),
            ));
            return (0, out);
        }
    };
    let mut n = 0;
    let mut behaviour = vec![ki as u8, oi as u8];
    for li in 0..k.nlists {
        if only.is_some_and(|x| x != li) {
            continue;
        }
        n += 1;
        let r = (k.route)(li);
        let env = Env::of(dir, &r);
        let acceptable = ref_cond(&cond, &r, &env);
        let got = eval_subject(&inst.asg, &r, &env).map(|o| o.disp == Disp::Accept);
        behaviour.push(match &got {
            Ok(true) => b'1',
            Ok(false) => b'0',
            Err(_) => b'P',
        });
        let render = || format!("a3#{ki},{si},{oi},{li}#{}-set {:?} {:?} x route {}", k.name, texts, opt, r.text());
        if verbose {
            eprintln!("  {}\n    acceptable verdicts {:?}\n    observed {:?}", render(), acceptable, got);
        }
        let member_bad = set.iter().any(|&i| bad_pat[i]);
        if member_bad && !(set.len() == 1 && opt == Opt::Any) && !verbose {
            continue;
        }
        let shape = if set.len() == 1 {
            let c = (k.pat_class)(set[0]);
            if opt == Opt::Any { format!("pattern={c}") } else { format!("pattern={c}/opt={opt:?}") }
        } else {
            format!("two-patterns/opt={opt:?}")
        };
        match got {
            Err(p) => out.push((format!("C14/no-panic/{}-set/{shape}", k.name), format!("policy evaluation panicked: {p}"), render())),
            Ok(v) if !acceptable.contains(&v) => out.push((
                format!("C14/eval/{}-set/{shape}", k.name),
                format!("{} condition {texts:?} {opt:?}: the statement gives {acceptable:?}, the engine gave {v}", k.name),
                render(),
            )),
            Ok(_) => {}
        }
    }
    if let Some(d) = dist {
        d.add(hash64(&behaviour));
    }
    (n, out)
}

fn a3_bad_pats(k: &A3Kind, ki: usize) -> Vec<bool> {
    let none = vec![false; k.npat];
    (0..k.npat).map(|p| !a3_eval(k, ki, p, 0, None, &none, false, None).1.is_empty()).collect()
}

fn a3_run(rep: &mut Report, _thorough: bool) -> u64 {
    let dist = Distinct::new();
    for (ki, k) in a3_kinds().iter().enumerate() {
        let bad = a3_bad_pats(k, ki);
        let sets = a3_sets(k.npat);
        rep.notes.push(format!(
            "a3/{}: patterns {:?}; {} sets of <=2 patterns x {{ANY,ALL,INVERT}} x {} value lists (absent, zero-length, <=2 values)",
            k.name,
            (0..k.npat).map(|i| (k.pat_text)(i)).collect::<Vec<_>>(),
            sets.len(),
            k.nlists
        ));
        for si in 0..sets.len() {
            for oi in 0..3 {
                let (n, vs) = a3_eval(k, ki, si, oi, None, &bad, false, Some(&dist));
                rep.evaluations += n;
                for (sig, what, case) in vs {
                    rep.violation(Violation { sig, what, case });
                }
            }
        }
        rep.samples.push(format!("a3 {}-set [{}] ANY x {}", k.name, (k.pat_text)(0), (k.route)(3).text()));
    }
    rep.notes.push("assume: ext-/large-community patterns are written with explicit ^...$ anchors (GoBGP anchors bare values, rustybgp treats them as unanchored regular expressions; the statement does not decide)".into());
    dist.len()
}

fn a3_replay(idx: &[u64]) -> Vec<V3> {
    if idx.len() < 4 {
        return vec![];
    }
    let kinds = a3_kinds();
    let ki = idx[0] as usize;
    if ki >= kinds.len() {
        return vec![];
    }
    let k = &kinds[ki];
    let none = vec![false; k.npat];
    if idx[1] as usize >= a3_sets(k.npat).len() || idx[2] > 2 {
        return vec![];
    }
    a3_eval(k, ki, idx[1] as usize, idx[2] as usize, Some(idx[3] as usize), &none, true, None).1
}

// ===========================================================================
// A4: scalar conditions, each at / below / above (and absent)
// ===========================================================================

struct A4Case {
    kind: &'static str,
    shape: String,
    conds: Vec<RCond>,
    route: RRoute,
    dir: Dir,
    vrps: Vec<(bool, u128, u8, u8, u32)>,
}

fn a4_cases() -> Vec<A4Case> {
    let mut v = Vec::new();
    let base = || RRoute::v4(10, 0, 0, 0, 8);
    let mut push = |kind: &'static str, shape: String, conds: Vec<RCond>, route: RRoute, dir: Dir| {
        v.push(A4Case { kind, shape, conds, route, dir, vrps: vec![] });
    };
    // AS_PATH length
    let seq = |n: usize| (SEG_SEQ, (0..n).map(|i| 100 + i as u32).collect::<Vec<u32>>());
    let paths: Vec<Option<Segs>> = vec![
        None,
        Some(vec![]),
        Some(vec![seq(1)]),
        Some(vec![seq(2)]),
        Some(vec![seq(3)]),
        Some(vec![(SEG_SET, vec![1, 2])]),
        Some(vec![seq(1), (SEG_SET, vec![2, 3])]),
        Some(vec![(SEG_CSEQ, vec![1, 2])]),
        Some(vec![seq(1), (SEG_CSEQ, vec![2])]),
        Some(vec![(SEG_SEQ, vec![])]),
        Some(vec![seq(254)]),
        Some(vec![seq(255)]),
        Some(vec![seq(128), seq(128)]),
        Some(vec![seq(255), (SEG_SET, vec![7])]),
        Some(vec![seq(255), seq(45)]),
    ];
    for p in &paths {
        for cmp in [Cmp::Eq, Cmp::Ge, Cmp::Le] {
            for val in [0u32, 1, 2, 3, 44, 255, 256, 300] {
                let mut r = base();
                r.as_path = p.clone();
                let shape = match p {
                    None => "no-aspath-attribute".to_string(),
                    Some(p) if as_path_len(p) >= 256 => "path-length>=256".to_string(),
                    Some(_) => "path-length<256".to_string(),
                };
                push("as-path-length", shape, vec![RCond::AsPathLen(cmp, val)], r, Dir::Import);
            }
        }
    }
    // next hop
    let ip = |s: &str| -> IpAddr { s.parse().unwrap() };
    for list in [vec![ip("192.0.2.1")], vec![ip("192.0.2.1"), ip("192.0.2.2")], vec![ip("2001:db8::1")]] {
        for nh in [Some(ip("192.0.2.1")), Some(ip("192.0.2.2")), Some(ip("192.0.2.3")), None, Some(ip("2001:db8::1"))] {
            for dir in [Dir::Import, Dir::Export] {
                let mut r = base();
                r.nexthop = nh;
                push("next-hop", "-".into(), vec![RCond::Nexthop(list.clone())], r, dir);
            }
        }
    }
    // neighbour sets
    let nsets: Vec<Vec<(IpAddr, u8)>> = vec![
        vec![(ip("10.0.0.1"), 32)],
        vec![(ip("10.0.0.0"), 24)],
        vec![(ip("10.0.1.0"), 24)],
        vec![(ip("10.0.0.1"), 32), (ip("10.0.0.9"), 32)],
        vec![(ip("10.0.0.8"), 31)],
    ];
    for ns in &nsets {
        for opt in [Opt::Any, Opt::Invert] {
            for src in [Src::Ebgp, Src::Ibgp] {
                for dir in [Dir::Import, Dir::Export] {
                    let mut r = base();
                    r.src = src;
                    push("neighbor-set", format!("opt={opt:?}"), vec![RCond::Neighbor(ns.clone(), opt)], r, dir);
                }
            }
        }
    }
    // LOCAL_PREF / MED / ORIGIN equality
    for x in [None, Some(99u32), Some(100), Some(101)] {
        let mut r = base();
        r.lp = x;
        push("local-pref-eq", "-".into(), vec![RCond::LocalPrefEq(100)], r, Dir::Import);
    }
    for x in [None, Some(9u32), Some(10), Some(11), Some(0)] {
        let mut r = base();
        r.med = x;
        push("med-eq", "-".into(), vec![RCond::MedEq(10)], r.clone(), Dir::Import);
        push("med-eq", "-".into(), vec![RCond::MedEq(0)], r, Dir::Export);
    }
    for x in [None, Some(0u32), Some(1), Some(2)] {
        for want in [0u8, 1, 2] {
            let mut r = base();
            r.origin = x;
            push("origin", "-".into(), vec![RCond::Origin(want)], r, Dir::Import);
        }
    }
    // route type
    for t in [RT::Internal, RT::External, RT::Local] {
        for src in [Src::Ebgp, Src::Ibgp, Src::Local] {
            for dir in [Dir::Import, Dir::Export] {
                let mut r = base();
                r.src = src;
                push("route-type", "-".into(), vec![RCond::RouteType(t)], r, dir);
            }
        }
    }
    // community count
    for comms in [None, Some(vec![]), Some(vec![1u32]), Some(vec![1, 2]), Some(vec![1, 2, 3])] {
        for cmp in [Cmp::Eq, Cmp::Ge, Cmp::Le] {
            for val in [0u32, 1, 2, 3] {
                let mut r = base();
                r.comms = comms.clone();
                push("community-count", "-".into(), vec![RCond::CommCount(cmp, val)], r, Dir::Import);
            }
        }
    }
    // address family
    for fams in [vec![false], vec![true], vec![false, true]] {
        for v6 in [false, true] {
            let r = if v6 { RRoute::bare(true, 0x2001_0db8u128 << 96, 32) } else { base() };
            push("afi-safi-in", "-".into(), vec![RCond::AfiSafiIn(fams.clone())], r, Dir::Import);
        }
    }
    // conjunction: ALL conditions of a statement must hold
    for lp in [99u32, 100] {
        for med in [9u32, 10] {
            for origin in [0u32, 1] {
                let mut r = base();
                r.lp = Some(lp);
                r.med = Some(med);
                r.origin = Some(origin);
                push(
                    "conjunction",
                    "-".into(),
                    vec![RCond::LocalPrefEq(100), RCond::MedEq(10), RCond::Origin(0)],
                    r.clone(),
                    Dir::Export,
                );
                push("conjunction", "-".into(), vec![RCond::Origin(0), RCond::LocalPrefEq(100)], r, Dir::Import);
            }
        }
    }
    // RPKI state (exact-length VRPs only; covering-VRP behaviour belongs to C12)
    let ten8 = 0x0a00_0000u128 << 96;
    let eleven8 = 0x0b00_0000u128 << 96;
    let vrp_sets: Vec<Vec<(bool, u128, u8, u8, u32)>> = vec![
        vec![],
        vec![(false, ten8, 8, 8, 65001)],
        vec![(false, ten8, 8, 8, 2)],
        vec![(false, eleven8, 8, 8, 65001)],
        vec![(false, ten8, 8, 8, 2), (false, ten8, 8, 8, 65001)],
    ];
    for vs in &vrp_sets {
        for want in [Rov::NotFound, Rov::Valid, Rov::Invalid] {
            for dir in [Dir::Import, Dir::Export] {
                v.push(A4Case { kind: "rpki", shape: format!("vrps={}", vs.len()), conds: vec![RCond::Rpki(want)], route: base(), dir, vrps: vs.clone() });
            }
        }
    }
    v
}

fn a4_eval(i: usize, c: &A4Case, verbose: bool, dist: Option<&Distinct>) -> (u64, Vec<V3>) {
    let mut out = Vec::new();
    let mut n = 0;
    for (di, default) in [Disp::Reject, Disp::Accept].into_iter().enumerate() {
        let d = if default == Disp::Accept { Disp::Reject } else { Disp::Accept };
        let prog = RAssign { policies: vec![RPolicy { stmts: vec![RStmt { conds: c.conds.clone(), disp: Some(d), acts: vec![] }] }], default };
        let render = || format!("a4#{i},{di}#{} {:?} default={default:?} {:?} x route {}", c.kind, c.conds, c.dir, c.route.text());
        let inst = match install(&prog, c.dir) {
            Ok(x) => x,
            Err(e) => {
                out.push((format!("C14/build/{}", c.kind), format!("condition not accepted by the API: {e}"), render()));
                continue;
            }
        };
        let mut env = Env::of(c.dir, &c.route);
        if !c.vrps.is_empty() || c.kind == "rpki" {
            let mut t = RpkiTable::new();
            let rtr: Arc<IpAddr> = Arc::new("192.0.2.200".parse().unwrap());
            for (v6, addr, plen, maxlen, asn) in &c.vrps {
                let net = if *v6 { IpNet::new(IpAddr::V6(Ipv6Addr::from(*addr)), *plen) } else { IpNet::new(IpAddr::V4(Ipv4Addr::from((*addr >> 96) as u32)), *plen) };
                t.insert(net, Arc::new(Roa::new(*maxlen, *asn, rtr.clone())));
            }
            env.rpki = Some(t);
            env.vrps = c.vrps.clone();
        }
        n += 1;
        let expected = ref_eval(&prog, &c.route, &env);
        let got = eval_subject(&inst.asg, &c.route, &env);
        if let Some(dd) = dist {
            let mut b = format!("{}{:?}", c.kind, c.conds).into_bytes();
            b.extend(outcome_code(&got));
            dd.add(hash64(&b));
        }
        if verbose {
            eprintln!("  {}\n    acceptable {:?}\n    observed {:?}", render(), expected.iter().map(|o| o.text()).collect::<Vec<_>>(), got.as_ref().map(|o| o.text()));
        }
        match got {
            Err(p) => out.push((format!("C14/no-panic/{}/{}", c.kind, c.shape), format!("policy evaluation panicked: {p}"), render())),
            Ok(g) if !expected.contains(&g) => out.push((
                format!("C14/eval/{}/{}", c.kind, c.shape),
                format!("the statement gives {:?}, the engine gave {}", expected.iter().map(|o| o.text()).collect::<Vec<_>>(), g.text()),
                render(),
            )),
            Ok(_) => {}
        }
    }
    (n, out)
}

fn a4_run(rep: &mut Report, _thorough: bool) -> u64 {
    let cases = a4_cases();
    let dist = Distinct::new();
    let mut kinds: BTreeMap<&str, u64> = BTreeMap::new();
    for c in &cases {
        *kinds.entry(c.kind).or_insert(0) += 1;
    }
    rep.notes.push(format!("a4: scalar conditions at/below/above/absent, x2 defaults: {kinds:?}"));
    rep.notes.push("assume: AS_PATH-length and RPKI conditions on a route without AS_PATH attribute / with an empty VRP table may either use length 0 / NotFound or not apply (both accepted)".into());
    let sink = VioSink::new();
    enumr::par_range(cases.len() as u64, rep, |i, local| {
        let (n, vs) = a4_eval(i as usize, &cases[i as usize], false, Some(&dist));
        local.evaluations += n;
        sink.add_all(vs);
    });
    sink.into_report(rep);
    rep.samples.push(format!("a4 {:?} x {}", cases[40].conds, cases[40].route.text()));
    dist.len()
}

fn a4_replay(idx: &[u64]) -> Vec<V3> {
    let cases = a4_cases();
    match idx.first() {
        Some(&i) if (i as usize) < cases.len() => a4_eval(i as usize, &cases[i as usize], true, None).1,
        _ => vec![],
    }
}

// ===========================================================================
// A5: chaining of statements, policies and the default
// ===========================================================================

struct A5Space {
    level: u8,
    stmts: Vec<RStmt>,
    /// policy = statement indices
    policies: Vec<Vec<usize>>,
}

fn a5_space(level: u8) -> A5Space {
    let ten8 = 0x0a00_0000u128 << 96;
    let cond_true = RCond::Prefix(vec![PEntry { v6: false, addr: ten8, plen: 8, min: 8, max: 8 }], Opt::Any);
    let cond_false = RCond::AfiSafiIn(vec![true]);
    // level 0: quick; 1: thorough; 2: side sweep with condition-less statements
    let conds: Vec<Vec<RCond>> = match level {
        2 => vec![vec![], vec![cond_true.clone()], vec![cond_false.clone()], vec![cond_true.clone(), cond_false.clone()]],
        _ => vec![vec![cond_true.clone()], vec![cond_false.clone()]],
    };
    let mut acts: Vec<Vec<RAct>> = vec![vec![], vec![RAct::SetLp(200)], vec![RAct::CommAdd(vec![0x0002_0002])], vec![RAct::MedMod(5)]];
    if level == 1 {
        acts.push(vec![RAct::MedMod(-20)]);
        acts.push(vec![RAct::MedSet(7)]);
        acts.push(vec![RAct::NhAddr("192.0.2.99".parse().unwrap())]);
    }
    if level == 2 {
        acts = vec![
            vec![],
            vec![RAct::SetLp(200), RAct::CommAdd(vec![0x0002_0002]), RAct::MedMod(-20)],
            vec![RAct::CommRemove(vec![0x0001_0001])],
            vec![RAct::CommReplace(vec![0x0003_0003])],
            // the API hands the MED operand through as an unvalidated 64-bit integer
            vec![RAct::MedMod(i64::MAX)],
            vec![RAct::MedMod(i64::MIN)],
            vec![RAct::MedSet(i64::MAX)],
            vec![RAct::MedSet(i64::MIN)],
            vec![RAct::NhSelf],
            vec![RAct::NhPeer],
            vec![RAct::NhUnchanged],
            vec![RAct::Origin(2), RAct::MedSet(-1)],
        ];
    }
    let mut stmts = Vec::new();
    for c in &conds {
        for d in [None, Some(Disp::Accept), Some(Disp::Reject)] {
            for a in &acts {
                stmts.push(RStmt { conds: c.clone(), disp: d, acts: a.clone() });
            }
        }
    }
    let mut policies: Vec<Vec<usize>> = vec![vec![]];
    for i in 0..stmts.len() {
        policies.push(vec![i]);
    }
    if level != 2 {
        for i in 0..stmts.len() {
            for j in 0..stmts.len() {
                policies.push(vec![i, j]);
            }
        }
    } else {
        // pairs only with a pass-through first statement (the interesting accumulation cases)
        for i in 0..stmts.len() {
            if stmts[i].disp.is_some() {
                continue;
            }
            for j in 0..stmts.len() {
                policies.push(vec![i, j]);
            }
        }
    }
    A5Space { level, stmts, policies }
}

fn a5_routes() -> Vec<RRoute> {
    let mut rich = RRoute::v4(10, 0, 0, 0, 8);
    rich.med = Some(100);
    rich.lp = Some(100);
    rich.comms = Some(vec![0x0001_0001]);
    let bare = RRoute::v4(10, 0, 0, 0, 8);
    vec![rich, bare]
}

fn a5_prog(sp: &A5Space, a: usize, b: usize, default: Disp) -> RAssign {
    // a, b: 0 = absent, k = policy k-1
    let mut policies = Vec::new();
    for x in [a, b] {
        if x > 0 {
            policies.push(RPolicy { stmts: sp.policies[x - 1].iter().map(|&i| sp.stmts[i].clone()).collect() });
        }
    }
    RAssign { policies, default }
}

fn has_nh_action(p: &RAssign) -> bool {
    p.policies.iter().any(|p| p.stmts.iter().any(|s| s.acts.iter().any(|a| matches!(a, RAct::NhAddr(_) | RAct::NhSelf | RAct::NhPeer | RAct::NhUnchanged))))
}

fn a5_eval(sp: &A5Space, a: usize, b: usize, only: Option<(usize, usize, usize)>, verbose: bool, dist: Option<&Distinct>, skipped: &mut u64) -> (u64, Vec<V3>) {
    let mut out = Vec::new();
    let mut n = 0;
    let routes = a5_routes();
    let mut behaviour = Vec::new();
    for (di, dir) in [Dir::Import, Dir::Export].into_iter().enumerate() {
        for (fi, default) in [Disp::Accept, Disp::Reject].into_iter().enumerate() {
            if only.is_some_and(|(x, y, _)| x != di || y != fi) {
                continue;
            }
            let prog = a5_prog(sp, a, b, default);
            let render = |ri: usize| {
                let pol = |p: &RPolicy| {
                    p.stmts
                        .iter()
                        .map(|s| format!("[if {} then {:?} {:?}]", s.conds.iter().map(cond_brief).collect::<Vec<_>>().join("&"), s.acts, s.disp))
                        .collect::<Vec<_>>()
                        .join(" ")
                };
                format!(
                    "a5#{},{a},{b},{di},{fi},{ri}#{dir:?} default={default:?} policies: {} x route {}",
                    sp.level,
                    prog.policies.iter().map(pol).collect::<Vec<_>>().join(" || "),
                    routes[ri].text()
                )
            };
            let inst = match install(&prog, dir) {
                Ok(x) => x,
                Err(e) => {
                    if dir == Dir::Import && has_nh_action(&prog) && e.contains("InvalidArgument") {
                        // documented restriction: import policies may not set the next hop
                        *skipped += 1;
                    } else {
                        out.push(("C14/build/chain".to_string(), format!("program not accepted by the API: {e}"), render(0)));
                    }
                    continue;
                }
            };
            for (ri, r) in routes.iter().enumerate() {
                if only.is_some_and(|(_, _, z)| z != ri) {
                    continue;
                }
                n += 1;
                let env = Env::of(dir, r);
                let expected = ref_eval(&prog, r, &env);
                let got = eval_subject(&inst.asg, r, &env);
                behaviour.extend(outcome_code(&got));
                behaviour.push(b'|');
                if verbose {
                    eprintln!("  {}\n    acceptable {:?}\n    observed {:?}", render(ri), expected.iter().map(|o| o.text()).collect::<Vec<_>>(), got.as_ref().map(|o| o.text()));
                }
                match got {
                    Err(p) => out.push((format!("C14/no-panic/chain/{}", panic_site(&p)), format!("policy evaluation panicked: {p}"), render(ri))),
                    Ok(g) if !expected.contains(&g) => {
                        let what = if expected.iter().all(|e| e.disp != g.disp) {
                            "disposition"
                        } else if expected.iter().all(|e| e.disp != g.disp || e.nh != g.nh) {
                            "next-hop"
                        } else {
                            "attributes"
                        };
                        out.push((
                            format!("C14/eval/chain/{what}"),
                            format!("the statement gives {:?}, the engine gave {}", expected.iter().map(|o| o.text()).collect::<Vec<_>>(), g.text()),
                            render(ri),
                        ));
                    }
                    Ok(_) => {}
                }
            }
        }
    }
    if let Some(d) = dist {
        d.add(hash64(&behaviour));
    }
    (n, out)
}

fn cond_brief(c: &RCond) -> String {
    match c {
        RCond::Prefix(es, o) => format!("prefix{{{}}}{o:?}", es.iter().map(|e| e.text()).collect::<Vec<_>>().join(",")),
        RCond::AfiSafiIn(f) => format!("afi-in{:?}", f.iter().map(|&x| if x { "v6" } else { "v4" }).collect::<Vec<_>>()),
        other => format!("{other:?}"),
    }
}

fn a5_run(rep: &mut Report, thorough: bool) -> u64 {
    let dist = Distinct::new();
    let levels: Vec<u8> = if thorough { vec![1, 2] } else { vec![0, 2] };
    for level in levels {
        let sp = a5_space(level);
        let np = sp.policies.len() + 1;
        let skipped = std::sync::atomic::AtomicU64::new(0);
        rep.notes.push(format!(
            "a5/level{level}: {} statement kinds (condition x disposition x actions), {} policies of <=2 statements, {} assignments of <=2 policies x {{import,export}} x {{accept,reject}} default x 2 routes",
            sp.stmts.len(),
            sp.policies.len(),
            if level == 2 { 1 + sp.policies.len() + (sp.stmts.len() + 1) * (sp.stmts.len() + 1) } else { 1 + sp.policies.len() + sp.policies.len() * sp.policies.len() }
        ));
        let sink = VioSink::new();
        enumr::par_range((np * np) as u64, rep, |i, local| {
            let (a, b) = ((i as usize) / np, (i as usize) % np);
            if a == 0 && b != 0 {
                return;
            }
            // side sweep: two-policy assignments only of single-statement policies
            if sp.level == 2 && b != 0 && (sp.policies[a - 1].len() > 1 || sp.policies[b - 1].len() > 1) {
                return;
            }
            let mut sk = 0;
            let (n, vs) = a5_eval(&sp, a, b, None, false, Some(&dist), &mut sk);
            skipped.fetch_add(sk, std::sync::atomic::Ordering::Relaxed);
            local.evaluations += n;
            sink.add_all(vs);
            if i % 250_007 == 1 {
                let p = a5_prog(&sp, a, b, Disp::Accept);
                local.samples.push(format!("a5 assignment of {} policies / {} statements", p.policies.len(), p.policies.iter().map(|p| p.stmts.len()).sum::<usize>()));
            }
        });
        sink.into_report(rep);
        let sk = skipped.load(std::sync::atomic::Ordering::Relaxed);
        if sk > 0 {
            rep.notes.push(format!("a5/level{level}: {sk} import programs with a next-hop action were refused by build_assignment (documented restriction; not evaluated)"));
        }
    }
    rep.notes.push("assume: conditions of later statements may see either the accumulated or the original attributes; an out-of-range MED +/- may clamp or leave the MED unchanged; community lists are compared as sets".into());
    dist.len()
}

fn a5_replay(idx: &[u64]) -> Vec<V3> {
    if idx.len() < 6 {
        return vec![];
    }
    let sp = a5_space(idx[0] as u8);
    let np = sp.policies.len() + 1;
    if idx[1] as usize >= np || idx[2] as usize >= np {
        return vec![];
    }
    let mut sk = 0;
    a5_eval(&sp, idx[1] as usize, idx[2] as usize, Some((idx[3] as usize, idx[4] as usize, idx[5] as usize)), true, None, &mut sk).1
}

// ===========================================================================
// A6: AS_PATH prepend action over every enumerated AS_PATH (no panic, members kept)
// ===========================================================================

fn read_segs(b: &[u8]) -> Option<Segs> {
    let mut out = Vec::new();
    let mut i = 0;
    while i < b.len() {
        if i + 2 > b.len() {
            return None;
        }
        let (t, n) = (b[i], b[i + 1] as usize);
        if !(1..=4).contains(&t) || i + 2 + 4 * n > b.len() {
            return None;
        }
        let m = (0..n).map(|k| u32::from_be_bytes([b[i + 2 + 4 * k], b[i + 3 + 4 * k], b[i + 4 + 4 * k], b[i + 5 + 4 * k]])).collect();
        out.push((t, m));
        i += 2 + 4 * n;
    }
    Some(out)
}

fn a6_eval(sp: &A2Space, variant: usize, pi: usize, verbose: bool) -> Vec<V3> {
    let (left_most, confed) = (variant & 1 == 1, variant & 2 == 2);
    let path = &sp.paths[pi];
    let render = || format!("a6#{},{variant},{pi}#as-prepend(asn=9,repeat=2,use_left_most={left_most}) confed={confed} x AS_PATH {}", sp.nseg, path.as_ref().map(segs_text).unwrap_or("<no attribute>".into()));
    let mut out = Vec::new();
    let built = report::catch(|| {
        let mut pt = PolicyTable::new();
        let actions = Actions { as_prepend: Some(rustybgp_table::AsPrependAction { asn: 9, repeat: 2, use_left_most: left_most }), ..Default::default() };
        pt.add_statement("s", vec![], Some(Disposition::Accept), actions).map_err(err_str)?;
        pt.add_policy("p", vec!["s".to_string()]).map_err(err_str)?;
        pt.add_assignment("global", PolicyDirection::Export, Disposition::Reject, vec!["p".to_string()]).map(|x| x.1).map_err(err_str)
    });
    let asg = match built {
        Ok(Ok(a)) => a,
        other => {
            out.push(("C14/build/as-prepend".to_string(), format!("as-prepend statement not accepted: {:?}", other.map(|r| r.map(|_| ()))), render()));
            return out;
        }
    };
    let r = a2_route(path);
    let (nlri, attrs, nh, src) = to_subject(&r);
    let res = report::catch(|| {
        let mut a = attrs.clone();
        let mut nh = nh;
        let d = rustybgp_table::apply_export(&asg, None, &src, &nlri, &mut a, &mut nh, None, confed, LOCAL_ADDR.parse().unwrap(), "10.0.0.9".parse().unwrap());
        (d, a)
    });
    match res {
        Err(p) => out.push((format!("C14/no-panic/as-prepend/{}", path_class(path)), format!("as-prepend action panicked: {p}"), render())),
        Ok((d, a)) => {
            let got = a.iter().find(|x| x.code() == Attribute::AS_PATH).and_then(|x| x.binary().cloned()).and_then(|b| read_segs(&b));
            let orig_flat: Vec<u32> = path.iter().flatten().flat_map(|(_, m)| m.iter().copied()).collect();
            let mut firsts: Vec<u32> = vec![9];
            if left_most {
                if let Some(x) = path.as_ref().and_then(|p| p.first()).and_then(|(_, m)| m.first()) {
                    firsts.push(*x);
                }
                if let Some(x) = orig_flat.first() {
                    firsts.push(*x);
                }
                // GoBGP: leftmost AS of the sequence list
                if let Some(x) = path.as_ref().and_then(|p| p.iter().find(|(t, _)| *t == SEG_SEQ)).and_then(|(_, m)| m.first()) {
                    firsts.push(*x);
                }
            } else {
                firsts.truncate(1);
            }
            let ok = Disp::of(d) == Disp::Accept
                && got.as_ref().is_some_and(|g| {
                    let flat: Vec<u32> = g.iter().flat_map(|(_, m)| m.iter().copied()).collect();
                    let want_t = if confed { SEG_CSEQ } else { SEG_SEQ };
                    g.first().is_some_and(|(t, _)| *t == want_t)
                        && firsts.iter().any(|x| {
                            let mut w = vec![*x, *x];
                            w.extend_from_slice(&orig_flat);
                            w == flat
                        })
                });
            if verbose {
                eprintln!("  {}\n    disposition {:?} resulting AS_PATH {:?}", render(), Disp::of(d), got.as_ref().map(segs_text));
            }
            if !ok {
                out.push((
                    format!("C14/eval/as-prepend/{}", path_class(path)),
                    format!("expected accept with 2 x (9 or the leftmost AS) prepended in a leading {} segment and all other members kept; got {:?} {:?}", if confed { "AS_CONFED_SEQUENCE" } else { "AS_SEQUENCE" }, Disp::of(d), got.as_ref().map(segs_text)),
                    render(),
                ));
            }
        }
    }
    out
}

fn a6_run(rep: &mut Report, _thorough: bool) -> u64 {
    let mut sp = a2_space(2);
    // leading segments that are (almost) full: the prepended members do not fit the one-octet count
    let long = |t: u8, n: usize| -> (u8, Vec<u32>) { (t, (0..n).map(|i| 100 + (i as u32 % 50)).collect()) };
    for segs in [
        vec![long(SEG_SEQ, 253)],
        vec![long(SEG_SEQ, 254)],
        vec![long(SEG_SEQ, 255)],
        vec![long(SEG_SEQ, 255), long(SEG_SEQ, 255)],
        vec![long(SEG_CSEQ, 254)],
        vec![long(SEG_CSEQ, 255), long(SEG_SEQ, 1)],
        vec![long(SEG_SET, 255)],
    ] {
        sp.paths.push(Some(segs));
    }
    rep.notes.push(format!("a6: as-prepend action (fixed ASN / leftmost) x (plain / confederation peer) x {} AS_PATHs (incl. leading segments of 253 / 254 / 255 members): no panic, well-formed result, members preserved", sp.paths.len()));
    let n = (sp.paths.len() * 4) as u64;
    let dist = Distinct::new();
    let sink = VioSink::new();
    enumr::par_range(n, rep, |i, local| {
        let (variant, pi) = ((i % 4) as usize, (i / 4) as usize);
        let vs = a6_eval(&sp, variant, pi, false);
        local.evaluations += 1;
        dist.add(hash64(format!("{variant}{}", path_class(&sp.paths[pi])).as_bytes()));
        sink.add_all(vs);
    });
    sink.into_report(rep);
    dist.len()
}

fn a6_replay(idx: &[u64]) -> Vec<V3> {
    if idx.len() < 3 {
        return vec![];
    }
    let sp = a2_space(idx[0] as usize);
    if idx[1] > 3 || idx[2] as usize >= sp.paths.len() {
        return vec![];
    }
    a6_eval(&sp, idx[1] as usize, idx[2] as usize, true)
}

// ===========================================================================
// Part (b): CRUD histories (vx::bfs).  The harness plays the daemon: it owns the
// PolicyTable, stores the Arc<PolicyAssignment> returned by add / set / delete
// calls in the global import / export slots (TableManager::{import,export}_policy)
// and keeps one per-peer export override built with build_assignment, guarded by
// the daemon's own `references_policy` check before add_policy / delete_policy
// (daemon/src/event/mod.rs Global::{add_policy,delete_policy,add_policy_assignment,...}).
// ===========================================================================

#[derive(Clone, Copy, Debug, PartialEq)]
enum SK {
    Prefix,
    AsPath,
    Neighbor,
    Community,
    ExtCommunity,
    LargeCommunity,
}

#[derive(Clone, Debug)]
enum CrudOp {
    SetAdd(SK, usize, usize),
    SetReplace(SK, usize, usize),
    SetDelAll(SK, usize),
    SetDelPart(SK, usize, usize),
    StmtAdd(usize, usize),
    StmtDelAll(usize),
    StmtDelPrefixCond(usize),
    PolAdd(usize, Vec<usize>),
    PolDel { name: usize, preserve: bool, all: bool, stmts: Vec<usize> },
    AsgAdd(Dir, usize),
    AsgSet(Dir, Vec<usize>),
    AsgDelAll(Dir),
    AsgDelPart(Dir, usize),
    PeerAdd(usize),
    PeerSet(usize),
    PeerDelAll,
    PeerDelPart(usize),
}

fn crud_ops() -> Vec<CrudOp> {
    use CrudOp::*;
    let mut v = Vec::new();
    // simplest first
    for n in 0..2 {
        v.push(SetAdd(SK::Prefix, n, 0));
    }
    for n in 0..2 {
        v.push(StmtAdd(n, n)); // S0: if prefix X0 accept + LP ; S1: if prefix X1 reject
    }
    for n in 0..2 {
        v.push(PolAdd(n, vec![n]));
    }
    for d in [Dir::Import, Dir::Export] {
        for p in 0..2 {
            v.push(AsgAdd(d, p));
        }
    }
    v.push(PeerAdd(0));
    v.push(PeerAdd(1));
    // deletions
    for n in 0..2 {
        v.push(SetDelAll(SK::Prefix, n));
        v.push(StmtDelAll(n));
        v.push(PolDel { name: n, preserve: true, all: true, stmts: vec![] });
        v.push(PolDel { name: n, preserve: false, all: true, stmts: vec![] });
    }
    for d in [Dir::Import, Dir::Export] {
        v.push(AsgDelAll(d));
        v.push(AsgDelPart(d, 0));
    }
    v.push(PeerDelAll);
    v.push(PeerDelPart(0));
    // replacements / merges / partial edits
    for n in 0..2 {
        v.push(SetAdd(SK::Prefix, n, 1));
        v.push(SetReplace(SK::Prefix, n, 1));
        v.push(SetDelPart(SK::Prefix, n, 0));
        v.push(StmtAdd(n, 2)); // merge: as-path condition on aspath-set X0
        v.push(StmtAdd(n, 3)); // merge: MED action only
        v.push(StmtAdd(n, 1 - n)); // other prefix set
        v.push(StmtDelPrefixCond(n));
        v.push(PolAdd(n, vec![1 - n])); // append the other statement
        v.push(PolDel { name: n, preserve: true, all: false, stmts: vec![0] });
        v.push(PolDel { name: n, preserve: false, all: false, stmts: vec![0] });
    }
    // a second kind of set sharing the name X0 (kind confusion in the in-use checks)
    v.push(SetAdd(SK::AsPath, 0, 0));
    v.push(SetReplace(SK::AsPath, 0, 1));
    v.push(SetDelAll(SK::AsPath, 0));
    for d in [Dir::Import, Dir::Export] {
        v.push(AsgSet(d, vec![1]));
        v.push(AsgSet(d, vec![0, 1]));
    }
    v.push(PeerSet(1));
    v
}

fn crud_set_cfg(k: SK, name: usize, content: usize) -> DefinedSetConfig {
    let name = format!("X{name}");
    match k {
        SK::Prefix => {
            let pc = |p: &str, lo, hi| PrefixConfig { ip_prefix: p.to_string(), mask_length_min: lo, mask_length_max: hi };
            let prefixes = if content == 0 { vec![pc("10.0.0.0/8", 8, 8)] } else { vec![pc("10.0.0.0/8", 8, 16), pc("11.0.0.0/8", 8, 8)] };
            DefinedSetConfig::Prefix { name, prefixes }
        }
        SK::AsPath => DefinedSetConfig::AsPath { name, patterns: vec![if content == 0 { "_1_".to_string() } else { "^2_".to_string() }] },
        SK::Neighbor => DefinedSetConfig::Neighbor { name, neighbors: vec![if content == 0 { "10.0.0.1/32".to_string() } else { "10.0.0.2/32".to_string() }] },
        SK::Community => DefinedSetConfig::Community { name, patterns: vec![if content == 0 { "65000:1".to_string() } else { "65000:2".to_string() }] },
        SK::ExtCommunity => DefinedSetConfig::ExtCommunity { name, patterns: vec![if content == 0 { "rt:65000:1".to_string() } else { "rt:65000:2".to_string() }] },
        SK::LargeCommunity => DefinedSetConfig::LargeCommunity { name, patterns: vec![if content == 0 { "65000:1:1".to_string() } else { "65000:2:2".to_string() }] },
    }
}

fn crud_probe_routes() -> Vec<RRoute> {
    let mk = |a: u8, len: u8, path: Vec<u32>| {
        let mut r = RRoute::v4(a, 0, 0, 0, len);
        r.as_path = Some(vec![(SEG_SEQ, path)]);
        r.med = Some(50);
        r
    };
    vec![mk(10, 8, vec![1]), mk(10, 16, vec![2]), mk(11, 8, vec![1, 2]), mk(12, 8, vec![3]), mk(10, 8, vec![3])]
}

struct CrudSys {
    pt: PolicyTable,
    /// 0 = global import, 1 = global export, 2 = per-peer export override
    slot: [Option<Arc<PolicyAssignment>>; 3],
    rec: [Vec<u8>; 3],
    stale: Vec<(Arc<PolicyAssignment>, usize, Vec<u8>)>,
    broken: bool,
    last: u8,
    /// reference content of every defined set: what the accepted add / replace / delete calls
    /// add up to (add = union, replace = exactly this, delete-part = minus these entries)
    refsets: std::collections::BTreeMap<(&'static str, usize), Vec<SetEntry>>,
}

#[derive(Clone, Debug, PartialEq, Eq, PartialOrd, Ord)]
enum SetEntry {
    P(String, u8, u8),
    S(String),
}

fn sk_name(k: SK) -> &'static str {
    match k {
        SK::Prefix => "prefix",
        SK::AsPath => "aspath",
        SK::Neighbor => "neighbor",
        SK::Community => "community",
        SK::ExtCommunity => "ext",
        SK::LargeCommunity => "large",
    }
}

fn cfg_entries(c: &DefinedSetConfig) -> Vec<SetEntry> {
    match c {
        DefinedSetConfig::Prefix { prefixes, .. } => prefixes.iter().map(|p| SetEntry::P(p.ip_prefix.clone(), p.mask_length_min, p.mask_length_max)).collect(),
        DefinedSetConfig::AsPath { patterns, .. } | DefinedSetConfig::Community { patterns, .. } | DefinedSetConfig::ExtCommunity { patterns, .. } | DefinedSetConfig::LargeCommunity { patterns, .. } => patterns.iter().map(|s| SetEntry::S(s.clone())).collect(),
        DefinedSetConfig::Neighbor { neighbors, .. } => neighbors.iter().map(|s| SetEntry::S(s.clone())).collect(),
    }
}

fn entries_cfg(k: SK, name: usize, es: &[SetEntry]) -> DefinedSetConfig {
    let name = format!("X{name}");
    let strs = || es.iter().filter_map(|e| if let SetEntry::S(s) = e { Some(s.clone()) } else { None }).collect::<Vec<_>>();
    match k {
        SK::Prefix => DefinedSetConfig::Prefix { name, prefixes: es.iter().filter_map(|e| if let SetEntry::P(p, lo, hi) = e { Some(PrefixConfig { ip_prefix: p.clone(), mask_length_min: *lo, mask_length_max: *hi }) } else { None }).collect() },
        SK::AsPath => DefinedSetConfig::AsPath { name, patterns: strs() },
        SK::Neighbor => DefinedSetConfig::Neighbor { name, neighbors: strs() },
        SK::Community => DefinedSetConfig::Community { name, patterns: strs() },
        SK::ExtCommunity => DefinedSetConfig::ExtCommunity { name, patterns: strs() },
        SK::LargeCommunity => DefinedSetConfig::LargeCommunity { name, patterns: strs() },
    }
}

const ALL_SK: [SK; 6] = [SK::Prefix, SK::AsPath, SK::Neighbor, SK::Community, SK::ExtCommunity, SK::LargeCommunity];

fn set_members(pt: &PolicyTable) -> Vec<(&'static str, String, String, usize)> {
    use std::collections::BTreeSet;
    let mut v = Vec::new();
    let join = |m: BTreeSet<String>| m.into_iter().collect::<Vec<_>>().join(" ");
    for s in pt.iter_defined_sets() {
        match s {
            DefinedSetRef::Prefix(n, s) => {
                let mut m = BTreeSet::new();
                for (a, l, p) in s.v4.iter() {
                    p.each(&mut |q| {
                        m.insert(format!("{a}/{l}[{}..{}]", q.min_length, q.max_length));
                    });
                }
                for (a, l, p) in s.v6.iter() {
                    p.each(&mut |q| {
                        m.insert(format!("{a}/{l}[{}..{}]", q.min_length, q.max_length));
                    });
                }
                for z in &s.zero {
                    m.insert(format!("0.0.0.0/0[{}..{}]", z.0, z.1));
                }
                for z in &s.zero6 {
                    m.insert(format!("::/0[{}..{}]", z.0, z.1));
                }
                v.push(("prefix", n.to_string(), join(m), 0));
            }
            DefinedSetRef::AsPath(n, s) => {
                let mut m: BTreeSet<String> = s.single_sets.iter().map(|x| format!("{x:?}")).collect();
                m.extend(s.sets.iter().map(|r| r.as_str().to_string()));
                v.push(("aspath", n.to_string(), join(m), 0));
            }
            DefinedSetRef::Neighbor(n, s) => v.push(("neighbor", n.to_string(), join(s.sets.iter().map(|x| x.to_string()).collect()), 0)),
            DefinedSetRef::Community(n, s) => v.push(("community", n.to_string(), join(s.sets.iter().map(|r| r.as_str().to_string()).collect()), 0)),
            DefinedSetRef::ExtCommunity(n, s) => v.push(("ext", n.to_string(), join(s.sets.iter().map(|r| r.as_str().to_string()).collect()), 0)),
            DefinedSetRef::LargeCommunity(n, s) => v.push(("large", n.to_string(), join(s.sets.iter().map(|r| r.as_str().to_string()).collect()), 0)),
        }
    }
    v.sort();
    v
}

/// The sets of the table against the sets of a FRESH table given the reference content in one
/// call each: a set edited incrementally must be the set its accepted edits add up to.
fn crud_set_content(sys: &CrudSys) -> Vec<(String, String)> {
    let mut out = Vec::new();
    let mut fresh = PolicyTable::new();
    for ((kind, name), es) in &sys.refsets {
        if es.is_empty() {
            continue;
        }
        let k = ALL_SK.iter().copied().find(|k| sk_name(*k) == *kind).unwrap();
        if fresh.add_defined_set(entries_cfg(k, *name, es)).is_err() {
            // content the table itself refuses in one piece: nothing to compare with
            return out;
        }
    }
    // members as a set: whether a repeated entry is stored once or twice does not change what
    // ANY / ALL / INVERT evaluate to, and the order of entries neither
    let actual = set_members(&sys.pt);
    let want = set_members(&fresh);
    for (k, n, d, _) in &want {
        match actual.iter().find(|(k2, n2, _, _)| k2 == k && n2 == n) {
            None => out.push(("set-content/set-lost".to_string(), format!("{k}-set {n}: the accepted calls add up to {d} but the table has no such set"))),
            Some((_, _, d2, _)) if d2 != d => out.push(("set-content/differs".to_string(), format!("{k}-set {n}: the accepted add / replace / delete calls add up to {d}, the table holds {d2}"))),
            _ => {}
        }
    }
    for (k, n, d, _) in &actual {
        let key_empty = sys.refsets.iter().any(|((k2, n2), es)| k2 == k && format!("X{n2}") == *n && es.is_empty());
        if !want.iter().any(|(k2, n2, _, _)| k2 == k && n2 == n) && !key_empty {
            out.push(("set-content/unexpected-set".to_string(), format!("{k}-set {n} = {d} is in the table although no accepted call created it (or it was deleted)")));
        }
    }
    out
}

fn slot_dir(i: usize) -> Dir {
    if i == 0 { Dir::Import } else { Dir::Export }
}

fn behaviour(a: &PolicyAssignment, slot: usize) -> Vec<u8> {
    let mut b = Vec::new();
    for r in crud_probe_routes() {
        let env = Env::of(slot_dir(slot), &r);
        b.extend(outcome_code(&eval_subject(a, &r, &env)));
        b.push(b'|');
    }
    b
}

// ---- canonical dumps through public fields --------------------------------

/// The value stored per prefix may be one entry or a list of entries (a repair of the
/// same-prefix defect changes it); the dump works for both.
trait PrefixVals {
    fn each(&self, f: &mut dyn FnMut(&rustybgp_table::Prefix));
}
impl PrefixVals for rustybgp_table::Prefix {
    fn each(&self, f: &mut dyn FnMut(&rustybgp_table::Prefix)) {
        f(self)
    }
}
impl PrefixVals for Vec<rustybgp_table::Prefix> {
    fn each(&self, f: &mut dyn FnMut(&rustybgp_table::Prefix)) {
        for p in self {
            f(p)
        }
    }
}

fn prefix_set_dump(s: &rustybgp_table::PrefixSet) -> String {
    let mut v: Vec<String> = Vec::new();
    for (a, m, p) in s.v4.iter() {
        p.each(&mut |q| v.push(format!("{a}/{m}[{}..{}]", q.min_length, q.max_length)));
    }
    for (a, m, p) in s.v6.iter() {
        p.each(&mut |q| v.push(format!("{a}/{m}[{}..{}]", q.min_length, q.max_length)));
    }
    v.sort();
    format!("prefix{{{} z4={:?} z6={:?}}}", v.join(","), s.zero, s.zero6)
}
fn aspath_set_dump(s: &rustybgp_table::AsPathSet) -> String {
    let r: Vec<&str> = s.sets.iter().map(|r| r.as_str()).collect();
    format!("aspath{{{:?} {:?}}}", s.single_sets, r)
}
fn regex_dump(kind: &str, v: &[impl AsRef<str>]) -> String {
    format!("{kind}{{{}}}", v.iter().map(|r| r.as_ref().to_string()).collect::<Vec<_>>().join(","))
}

/// (kind, name, dump, address) of a set referenced by a condition
fn cond_set_ref(c: &Condition) -> Option<(&'static str, String, String, usize)> {
    match c {
        Condition::Prefix(n, _, s) => Some(("prefix", n.clone(), prefix_set_dump(s), Arc::as_ptr(s) as usize)),
        Condition::AsPath(n, _, s) => Some(("aspath", n.clone(), aspath_set_dump(s), Arc::as_ptr(s) as usize)),
        Condition::Neighbor(n, _, s) => Some(("neighbor", n.clone(), format!("{}", s.sets.iter().map(|x| x.to_string()).collect::<Vec<_>>().join(",")), Arc::as_ptr(s) as usize)),
        Condition::Community(n, _, s) => Some(("community", n.clone(), regex_dump("c", &s.sets.iter().map(|r| r.as_str()).collect::<Vec<_>>()), Arc::as_ptr(s) as usize)),
        Condition::ExtCommunity(n, _, s) => Some(("ext", n.clone(), regex_dump("e", &s.sets.iter().map(|r| r.as_str()).collect::<Vec<_>>()), Arc::as_ptr(s) as usize)),
        Condition::LargeCommunity(n, _, s) => Some(("large", n.clone(), regex_dump("l", &s.sets.iter().map(|r| r.as_str()).collect::<Vec<_>>()), Arc::as_ptr(s) as usize)),
        _ => None,
    }
}

fn cond_dump(c: &Condition) -> String {
    let opt = |o: &MatchOption| i32::from(o);
    match c {
        Condition::Prefix(_, o, _) | Condition::AsPath(_, o, _) | Condition::Neighbor(_, o, _) | Condition::Community(_, o, _) | Condition::ExtCommunity(_, o, _) | Condition::LargeCommunity(_, o, _) => {
            let (k, n, d, _) = cond_set_ref(c).unwrap();
            format!("{k}:{n}:{}:{d}", opt(o))
        }
        Condition::AsPathLength(c, v) => format!("aslen:{}:{v}", i32::from(*c)),
        Condition::LocalPrefEq(v) => format!("lp:{v}"),
        Condition::MedEq(v) => format!("med:{v}"),
        Condition::Origin(v) => format!("origin:{v}"),
        Condition::Nexthop(v) => format!("nh:{v:?}"),
        _ => "other".into(),
    }
}

fn stmt_dump(s: &rustybgp_table::Statement) -> String {
    let a = &s.actions;
    format!(
        "stmt {} if[{}] disp={:?} act[{:?} {:?} {:?} {:?} {:?} {:?} {:?} {:?}]",
        s.name,
        s.conditions.iter().map(cond_dump).collect::<Vec<_>>().join(" & "),
        s.disposition,
        a.nexthop,
        a.community,
        a.local_pref,
        a.med,
        a.as_prepend,
        a.ext_community,
        a.large_community,
        a.origin
    )
}
fn policy_dump(p: &rustybgp_table::Policy) -> String {
    format!("policy {} [{}]", p.name, p.statements.iter().map(|s| stmt_dump(s)).collect::<Vec<_>>().join("; "))
}
fn asg_dump(a: &PolicyAssignment) -> String {
    format!("asg {} default={:?} [{}]", a.name, a.disposition, a.policies.iter().map(|p| policy_dump(p)).collect::<Vec<_>>().join(" || "))
}

fn table_sets(pt: &PolicyTable) -> Vec<(&'static str, String, String, usize)> {
    let mut v = Vec::new();
    for s in pt.iter_defined_sets() {
        match s {
            DefinedSetRef::Prefix(n, s) => v.push(("prefix", n.to_string(), prefix_set_dump(s), s as *const _ as usize)),
            DefinedSetRef::AsPath(n, s) => v.push(("aspath", n.to_string(), aspath_set_dump(s), s as *const _ as usize)),
            DefinedSetRef::Neighbor(n, s) => v.push(("neighbor", n.to_string(), format!("{}", s.sets.iter().map(|x| x.to_string()).collect::<Vec<_>>().join(",")), s as *const _ as usize)),
            DefinedSetRef::Community(n, s) => v.push(("community", n.to_string(), regex_dump("c", &s.sets.iter().map(|r| r.as_str()).collect::<Vec<_>>()), s as *const _ as usize)),
            DefinedSetRef::ExtCommunity(n, s) => v.push(("ext", n.to_string(), regex_dump("e", &s.sets.iter().map(|r| r.as_str()).collect::<Vec<_>>()), s as *const _ as usize)),
            DefinedSetRef::LargeCommunity(n, s) => v.push(("large", n.to_string(), regex_dump("l", &s.sets.iter().map(|r| r.as_str()).collect::<Vec<_>>()), s as *const _ as usize)),
        }
    }
    v.sort();
    v
}

/// Referential integrity: every referenced object is still present in the table under
/// its name and is the object (or an object of identical content) its user holds.
fn crud_integrity(sys: &CrudSys) -> Vec<(String, String)> {
    let mut out = Vec::new();
    let sets = table_sets(&sys.pt);
    // statement -> set
    let mut stmts: Vec<&rustybgp_table::Statement> = sys.pt.iter_statements(String::new()).collect();
    stmts.sort_by(|a, b| a.name.cmp(&b.name));
    for st in &stmts {
        for c in &st.conditions {
            if let Some((k, n, d, ptr)) = cond_set_ref(c) {
                match sets.iter().find(|(k2, n2, _, _)| *k2 == k && *n2 == n) {
                    None => out.push(("set-deleted-under-statement".to_string(), format!("{k}-set {n} is referenced by statement {} but no longer exists", st.name))),
                    Some((_, _, d2, p2)) if *p2 != ptr && *d2 != d => {
                        out.push(("set-changed-under-statement".to_string(), format!("{k}-set {n}: statement {} evaluates {d} but the table now lists {d2}", st.name)))
                    }
                    _ => {}
                }
            }
        }
    }
    // policy -> statement
    let mut pols: Vec<&rustybgp_table::Policy> = sys.pt.iter_policies(String::new()).collect();
    pols.sort_by(|a, b| a.name.cmp(&b.name));
    for p in &pols {
        for s in &p.statements {
            match stmts.iter().find(|t| t.name == s.name) {
                None => out.push(("statement-deleted-under-policy".to_string(), format!("statement {} is used by policy {} but no longer exists", s.name, p.name))),
                Some(t) if !std::ptr::eq(*t, Arc::as_ptr(s)) && stmt_dump(t) != stmt_dump(s) => {
                    out.push(("statement-changed-under-policy".to_string(), format!("policy {} evaluates `{}` but the table now lists `{}`", p.name, stmt_dump(s), stmt_dump(t))))
                }
                _ => {}
            }
        }
    }
    // assignment -> policy
    for (i, a) in sys.slot.iter().enumerate() {
        let Some(a) = a else { continue };
        let who = ["global import", "global export", "per-peer export"][i];
        for p in &a.policies {
            match pols.iter().find(|t| t.name == p.name) {
                None => out.push(("policy-deleted-under-assignment".to_string(), format!("policy {} is used by the {who} assignment but no longer exists", p.name))),
                Some(t) if !std::ptr::eq(*t, Arc::as_ptr(p)) && policy_dump(t) != policy_dump(p) => {
                    out.push(("policy-changed-under-assignment".to_string(), format!("{who} assignment evaluates `{}` but the table now lists `{}`", policy_dump(p), policy_dump(t))))
                }
                _ => {}
            }
        }
    }
    // the daemon hands the ROA table to the evaluation only when the assignment says it needs it
    // (TableManager::apply_import: `policy.needs_rpki.then(..)`): the flag must say so exactly
    // when one of the assignment's statements has an RPKI condition
    for (i, a) in sys.slot.iter().enumerate() {
        let Some(a) = a else { continue };
        let who = ["global import", "global export", "per-peer export"][i];
        let has = a.policies.iter().any(|p| p.statements.iter().any(|s| s.conditions.iter().any(|c| matches!(c, Condition::Rpki(_)))));
        if a.needs_rpki != has {
            out.push(("needs-rpki-flag-wrong".to_string(), format!("{who} assignment: needs_rpki = {} but {} of its statements has an RPKI condition: the daemon evaluates it {} the ROA table", a.needs_rpki, if has { "one" } else { "none" }, if a.needs_rpki { "with" } else { "WITHOUT" })));
        }
    }
    // the table's own view of the global assignments equals what the daemon enforces
    let listed: Vec<(i32, String)> = sys.pt.iter_assignments(0).map(|(d, a)| (d, asg_dump(a))).collect();
    for (i, d) in [(0usize, 1i32), (1, 2)] {
        let l = listed.iter().find(|(x, _)| *x == d).map(|(_, s)| s.clone());
        let h = sys.slot[i].as_ref().map(|a| asg_dump(a));
        if l != h {
            out.push(("assignment-slot-diverged".to_string(), format!("direction {d}: table lists {l:?}, the installed assignment is {h:?}")));
        }
    }
    out
}

struct CrudModel {
    name: &'static str,
    prefix: Vec<usize>,
    ops: Vec<CrudOp>,
}

fn pname(i: usize) -> String {
    format!("P{i}")
}
fn sname(i: usize) -> String {
    format!("S{i}")
}

impl CrudModel {
    fn apply(&self, sys: &mut CrudSys, op: &CrudOp) -> (Result<(), TableError>, [bool; 3]) {
        let mut replaced = [false; 3];
        let pd = |d: Dir| if d == Dir::Import { PolicyDirection::Import } else { PolicyDirection::Export };
        let di = |d: Dir| if d == Dir::Import { 0 } else { 1 };
        let store = |sys: &mut CrudSys, i: usize, new: Option<Arc<PolicyAssignment>>, replaced: &mut [bool; 3]| {
            let same = match (&sys.slot[i], &new) {
                (Some(a), Some(b)) => Arc::ptr_eq(a, b),
                (None, None) => true,
                _ => false,
            };
            if !same {
                if let Some(old) = sys.slot[i].take() {
                    let rec = std::mem::take(&mut sys.rec[i]);
                    sys.stale.push((old, i, rec));
                    if sys.stale.len() > 4 {
                        sys.stale.remove(0);
                    }
                }
                sys.rec[i] = new.as_ref().map(|a| behaviour(a, i)).unwrap_or_default();
                sys.slot[i] = new;
                replaced[i] = true;
            }
        };
        let peer_refs = |sys: &CrudSys, name: &str| sys.slot[2].as_ref().is_some_and(|a| a.policies.iter().any(|p| p.name.as_ref() == name));
        let r: Result<(), TableError> = match op {
            CrudOp::SetAdd(k, n, c) => sys.pt.add_defined_set(crud_set_cfg(*k, *n, *c)),
            CrudOp::SetReplace(k, n, c) => sys.pt.replace_defined_set(crud_set_cfg(*k, *n, *c)),
            CrudOp::SetDelAll(k, n) => sys.pt.delete_defined_set(crud_set_cfg(*k, *n, 0), true),
            CrudOp::SetDelPart(k, n, c) => sys.pt.delete_defined_set(crud_set_cfg(*k, *n, *c), false),
            CrudOp::StmtAdd(n, variant) => {
                let (conds, disp, acts) = match variant {
                    0 => (vec![ConditionConfig::PrefixSet("X0".into(), MatchOption::Any)], Some(Disposition::Accept), Actions { local_pref: Some(LocalPrefAction { value: 200 }), ..Default::default() }),
                    1 => (vec![ConditionConfig::PrefixSet("X1".into(), MatchOption::Any)], Some(Disposition::Reject), Actions::default()),
                    2 => (vec![ConditionConfig::AsPathSet("X0".into(), MatchOption::Any)], None, Actions::default()),
                    4 => (vec![ConditionConfig::NeighborSet("X0".into(), MatchOption::Any)], Some(Disposition::Accept), Actions::default()),
                    5 => (vec![ConditionConfig::CommunitySet("X0".into(), MatchOption::Any)], Some(Disposition::Accept), Actions::default()),
                    6 => (vec![ConditionConfig::ExtCommunitySet("X0".into(), MatchOption::Any)], Some(Disposition::Accept), Actions::default()),
                    7 => (vec![ConditionConfig::LargeCommunitySet("X0".into(), MatchOption::Any)], Some(Disposition::Accept), Actions::default()),
                    8 => (vec![ConditionConfig::Rpki(RpkiValidationState::Invalid)], Some(Disposition::Reject), Actions::default()),
                    _ => (vec![], None, Actions { med: Some(MedAction { action_type: MedActionType::Replace, value: 7 }), ..Default::default() }),
                };
                sys.pt.add_statement(&sname(*n), conds, disp, acts)
            }
            CrudOp::StmtDelAll(n) => sys.pt.delete_statement(&sname(*n), true, vec![], None, Actions::default()),
            CrudOp::StmtDelPrefixCond(n) => sys.pt.delete_statement(&sname(*n), false, vec![ConditionConfig::PrefixSet(String::new(), MatchOption::Any)], None, Actions::default()),
            CrudOp::PolAdd(n, ss) => {
                if peer_refs(sys, &pname(*n)) {
                    Err(TableError::StillInUse(pname(*n)))
                } else {
                    sys.pt.add_policy(&pname(*n), ss.iter().map(|s| sname(*s)).collect())
                }
            }
            CrudOp::PolDel { name, preserve, all, stmts } => {
                if peer_refs(sys, &pname(*name)) {
                    Err(TableError::StillInUse(pname(*name)))
                } else {
                    match sys.pt.delete_policy(&pname(*name), *preserve, *all, stmts.iter().map(|s| sname(*s)).collect()) {
                        Ok((i, e)) => {
                            store(sys, 0, i, &mut replaced);
                            store(sys, 1, e, &mut replaced);
                            Ok(())
                        }
                        Err(e) => Err(e),
                    }
                }
            }
            CrudOp::AsgAdd(d, p) => {
                let default = if *p == 0 { Disposition::Accept } else { Disposition::Reject };
                match sys.pt.add_assignment("global", pd(*d), default, vec![pname(*p)]) {
                    Ok((dir, a)) => {
                        store(sys, if dir == PolicyDirection::Import { 0 } else { 1 }, Some(a), &mut replaced);
                        Ok(())
                    }
                    Err(e) => Err(e),
                }
            }
            CrudOp::AsgSet(d, ps) => match sys.pt.set_policy_assignment("global", pd(*d), Disposition::Accept, ps.iter().map(|p| pname(*p)).collect()) {
                Ok(a) => {
                    store(sys, di(*d), Some(a), &mut replaced);
                    Ok(())
                }
                Err(e) => Err(e),
            },
            CrudOp::AsgDelAll(d) => match sys.pt.delete_policy_assignment(pd(*d), &[], true) {
                Ok(a) => {
                    store(sys, di(*d), a, &mut replaced);
                    Ok(())
                }
                Err(e) => Err(e),
            },
            CrudOp::AsgDelPart(d, p) => match sys.pt.delete_policy_assignment(pd(*d), &[pname(*p)], false) {
                Ok(a) => {
                    store(sys, di(*d), a, &mut replaced);
                    Ok(())
                }
                Err(e) => Err(e),
            },
            CrudOp::PeerAdd(p) => {
                let existing = sys.slot[2].clone();
                match sys.pt.build_assignment(existing.as_deref(), "10.0.0.9", PolicyDirection::Export, Disposition::Reject, vec![pname(*p)]) {
                    Ok(a) => {
                        store(sys, 2, Some(a), &mut replaced);
                        Ok(())
                    }
                    Err(e) => Err(e),
                }
            }
            CrudOp::PeerSet(p) => match sys.pt.build_assignment(None, "10.0.0.9", PolicyDirection::Export, Disposition::Accept, vec![pname(*p)]) {
                Ok(a) => {
                    store(sys, 2, Some(a), &mut replaced);
                    Ok(())
                }
                Err(e) => Err(e),
            },
            CrudOp::PeerDelAll => {
                store(sys, 2, None, &mut replaced);
                Ok(())
            }
            CrudOp::PeerDelPart(p) => match sys.slot[2].clone() {
                None => Err(TableError::NotFound),
                Some(old) => {
                    let n = old.without_policies(&[pname(*p)]);
                    store(sys, 2, Some(n), &mut replaced);
                    Ok(())
                }
            },
        };
        (r, replaced)
    }

    fn do_step(&self, sys: &mut CrudSys, op: &CrudOp, out: &mut Vec<(String, String)>) {
        let held_before: Vec<Option<Arc<PolicyAssignment>>> = sys.slot.iter().cloned().collect();
        let (r, replaced) = self.apply(sys, op);
        if r.is_ok() {
            match op {
                CrudOp::SetAdd(k, n, c) => {
                    let e = sys.refsets.entry((sk_name(*k), *n)).or_default();
                    for x in cfg_entries(&crud_set_cfg(*k, *n, *c)) {
                        if !e.contains(&x) {
                            e.push(x);
                        }
                    }
                }
                CrudOp::SetReplace(k, n, c) => {
                    sys.refsets.insert((sk_name(*k), *n), cfg_entries(&crud_set_cfg(*k, *n, *c)));
                }
                CrudOp::SetDelAll(k, n) => {
                    sys.refsets.remove(&(sk_name(*k), *n));
                }
                CrudOp::SetDelPart(k, n, c) => {
                    let gone = cfg_entries(&crud_set_cfg(*k, *n, *c));
                    if let Some(e) = sys.refsets.get_mut(&(sk_name(*k), *n)) {
                        e.retain(|x| !gone.contains(x));
                    }
                }
                _ => {}
            }
        }
        sys.last = match &r {
            Ok(()) => 0,
            Err(TableError::StillInUse(_)) => 1,
            Err(TableError::NotFound) => 2,
            Err(TableError::InvalidArgument(_)) => 3,
            Err(TableError::AlreadyExists(_)) => 4,
        };
        CRUD_RESULTS[sys.last as usize].fetch_add(1, std::sync::atomic::Ordering::Relaxed);
        let opk = format!("{op:?}");
        let opk = opk.split(|c: char| c == '(' || c == ' ' || c == '{').next().unwrap_or("").to_string();
        let res = if r.is_ok() { "ok".to_string() } else { format!("{:?}", r.as_ref().err().unwrap()) };
        // 1. every held assignment evaluates as before unless this op replaced it
        for i in 0..3 {
            if replaced[i] {
                continue;
            }
            if let Some(a) = &sys.slot[i] {
                debug_assert!(held_before[i].as_ref().is_some_and(|b| Arc::ptr_eq(a, b)));
                if behaviour(a, i) != sys.rec[i] {
                    out.push((format!("C14/in-use/held-assignment-changed/op={opk}"), format!("after {op:?} -> {res} the installed {} assignment evaluates differently on the probe routes although it was not replaced", ["import", "export", "per-peer"][i])));
                }
            }
        }
        for (a, i, rec) in &sys.stale {
            if behaviour(a, *i) != *rec {
                out.push((format!("C14/in-use/stale-held-assignment-changed/op={opk}"), format!("after {op:?} -> {res} an earlier-obtained Arc<PolicyAssignment> (as held by an in-flight reader) evaluates differently")));
            }
        }
        // 2. nothing that is still referenced was deleted or changed underneath its user
        for (clause, detail) in crud_integrity(sys) {
            out.push((format!("C14/in-use/{clause}/op={opk}"), format!("after {op:?} -> {res}: {detail}")));
        }
        // 3. a set edited step by step is the set its accepted edits add up to
        if matches!(op, CrudOp::SetAdd(..) | CrudOp::SetReplace(..) | CrudOp::SetDelAll(..) | CrudOp::SetDelPart(..)) {
            for (clause, detail) in crud_set_content(sys) {
                out.push((format!("C14/crud/{clause}/op={opk}"), format!("after {op:?} -> {res}: {detail}")));
            }
        }
        if !out.is_empty() {
            sys.broken = true;
        }
    }
}

static CRUD_RESULTS: [std::sync::atomic::AtomicU64; 5] = [
    std::sync::atomic::AtomicU64::new(0),
    std::sync::atomic::AtomicU64::new(0),
    std::sync::atomic::AtomicU64::new(0),
    std::sync::atomic::AtomicU64::new(0),
    std::sync::atomic::AtomicU64::new(0),
];

impl bfs::Model for CrudModel {
    type Sys = CrudSys;
    fn name(&self) -> String {
        self.name.to_string()
    }
    fn n_ops(&self) -> usize {
        self.ops.len()
    }
    fn op_name(&self, op: usize) -> String {
        format!("{:?}", self.ops[op])
    }
    fn init(&self) -> CrudSys {
        let mut sys = CrudSys { pt: PolicyTable::new(), slot: [None, None, None], rec: [vec![], vec![], vec![]], stale: vec![], broken: false, last: 0, refsets: Default::default() };
        let mut sink = Vec::new();
        for &o in &self.prefix {
            self.do_step(&mut sys, &self.ops[o], &mut sink);
        }
        assert!(sink.is_empty(), "crud init must be clean: {sink:?}");
        sys
    }
    fn step(&self, sys: &mut CrudSys, op: usize, out: &mut Vec<(String, String)>) -> bool {
        if sys.broken {
            return false;
        }
        self.do_step(sys, &self.ops[op], out);
        true
    }
    fn fingerprint(&self, sys: &CrudSys) -> Vec<u8> {
        let mut s = String::new();
        for (k, n, d, _) in table_sets(&sys.pt) {
            s += &format!("{k}:{n}:{d}\n");
        }
        let mut v: Vec<String> = sys.pt.iter_statements(String::new()).map(stmt_dump).collect();
        v.sort();
        s += &v.join("\n");
        let mut v: Vec<String> = sys.pt.iter_policies(String::new()).map(policy_dump).collect();
        v.sort();
        s += &v.join("\n");
        for (d, a) in sys.pt.iter_assignments(0) {
            s += &format!("\nlisted {d} {}", asg_dump(a));
        }
        for (i, a) in sys.slot.iter().enumerate() {
            s += &format!("\nslot {i} {:?}", a.as_ref().map(|a| asg_dump(a)));
        }
        s += &format!("\nbroken={}", sys.broken);
        s.into_bytes()
    }
    fn observe(&self, sys: &CrudSys) -> u64 {
        let n = (sys.pt.iter_defined_sets().count(), sys.pt.iter_statements(String::new()).count(), sys.pt.iter_policies(String::new()).count());
        hash64(format!("{} {:?} {:?}", sys.last, n, sys.slot.iter().map(|s| s.as_ref().map(|a| a.policies.len())).collect::<Vec<_>>()).as_bytes())
    }
    fn panic_sig(&self, msg: &str) -> Option<(String, String)> {
        Some((format!("C14/no-panic/crud/{}", bfs::panic_loc(msg)), format!("PolicyTable CRUD or evaluation panicked: {msg}")))
    }
}

fn crud_models() -> Vec<CrudModel> {
    let ops = crud_ops();
    let find = |want: &str| ops.iter().position(|o| format!("{o:?}") == want).unwrap_or_else(|| panic!("crud op {want} missing"));
    // populated start: X0, X1, aspath X0, S0(X0), S1(X1), P0=[S0], P1=[S1], import=[P0], peer=[P1]
    let prefix = vec![
        find("SetAdd(Prefix, 0, 0)"),
        find("SetAdd(Prefix, 1, 0)"),
        find("SetAdd(AsPath, 0, 0)"),
        find("StmtAdd(0, 0)"),
        find("StmtAdd(1, 1)"),
        find("PolAdd(0, [0])"),
        find("PolAdd(1, [1])"),
        find("AsgAdd(Import, 0)"),
        find("PeerAdd(1)"),
    ];
    // the other four kinds of defined set, all under the one name X0 (kind confusion in the in-use
    // checks), each referenced by its own statement: every add / replace / delete of every kind
    let mut kops: Vec<CrudOp> = Vec::new();
    let kinds = [SK::Neighbor, SK::Community, SK::ExtCommunity, SK::LargeCommunity];
    for k in kinds {
        kops.push(CrudOp::SetAdd(k, 0, 0));
    }
    for (i, _) in kinds.iter().enumerate() {
        kops.push(CrudOp::StmtAdd(i, 4 + i));
    }
    for k in kinds {
        kops.push(CrudOp::SetReplace(k, 0, 1));
        kops.push(CrudOp::SetDelAll(k, 0));
        kops.push(CrudOp::SetDelPart(k, 0, 0));
        kops.push(CrudOp::SetAdd(k, 0, 1));
    }
    for i in 0..kinds.len() {
        kops.push(CrudOp::StmtDelAll(i));
    }
    // assignments built up in several steps from policies with and without an RPKI condition
    let rops: Vec<CrudOp> = vec![
        CrudOp::StmtAdd(0, 8),
        CrudOp::StmtAdd(1, 3),
        CrudOp::PolAdd(0, vec![0]),
        CrudOp::PolAdd(1, vec![1]),
        CrudOp::AsgAdd(Dir::Import, 0),
        CrudOp::AsgAdd(Dir::Import, 1),
        CrudOp::AsgAdd(Dir::Export, 1),
        CrudOp::AsgAdd(Dir::Export, 0),
        CrudOp::AsgSet(Dir::Import, vec![1]),
        CrudOp::AsgSet(Dir::Import, vec![0, 1]),
        CrudOp::AsgDelPart(Dir::Import, 0),
        CrudOp::AsgDelPart(Dir::Import, 1),
        CrudOp::PeerAdd(0),
        CrudOp::PeerAdd(1),
        CrudOp::PeerDelPart(0),
        CrudOp::PolDel { name: 0, preserve: true, all: true, stmts: vec![] },
        CrudOp::StmtAdd(1, 8),
    ];
    vec![
        CrudModel { name: "crud-empty", prefix: vec![], ops: ops.clone() },
        CrudModel { name: "crud-full", prefix, ops },
        CrudModel { name: "crud-set-kinds", prefix: vec![], ops: kops },
        CrudModel { name: "crud-rpki-flag", prefix: vec![0, 1, 2, 3], ops: rops },
    ]
}

fn crud_run(rep: &mut Report, thorough: bool) {
    let depth = if thorough { 6 } else { 5 };
    for m in crud_models() {
        let cfg = BfsCfg { max_depth: depth, max_secs: if thorough { 900 } else { 30 }, ..Default::default() };
        rep.notes.push(format!("{}: {} ops over names X0,X1 / S0,S1 / P0,P1, global import+export slots and one per-peer export override; depth {}", m.name, m.ops.len(), depth));
        bfs::bfs(&m, &cfg, rep);
    }
    let c: Vec<u64> = CRUD_RESULTS.iter().map(|a| a.load(std::sync::atomic::Ordering::Relaxed)).collect();
    rep.notes.push(format!("crud: op results over all (re-)executions: ok={} StillInUse={} NotFound={} InvalidArgument={} AlreadyExists={}", c[0], c[1], c[2], c[3], c[4]));
    rep.add("crud_still_in_use_results", c[1]);
}

fn crud_replay(mut rep: Report, case: &str) -> Report {
    let Some((name, hist)) = bfs::decode_case(case) else {
        rep.machinery_error = Some("bad replay case".into());
        return rep;
    };
    let models = crud_models();
    let Some(m) = models.iter().find(|m| m.name == name) else {
        rep.machinery_error = Some(format!("unknown model {name}"));
        return rep;
    };
    eprintln!("replay {}", bfs::render(m, &hist));
    let vs = bfs::replay(m, &hist, true);
    rep.evaluations = 1;
    rep.violations_from(vs);
    rep
}
