// wire -- INDEPENDENT structural readers for BGP, BMP, MRT and RTR bytes.
//
// Written from the RFCs (section numbers at each reader), std only, no types of
// the packet crate: compiles as `mod wire` of hx and inside the daemon crate.
// Every reader takes arbitrary bytes, returns Result<_, String> with a precise
// message and never panics (all access goes through the bounds-checked `Rd`).
// All offsets (`off`, `Span.off`, `FieldRef.off`) are relative to the start of
// the buffer handed to the reader unless stated otherwise.
//
// ---------------------------------------------------------------------------
// PUBLIC API (summary)
// ---------------------------------------------------------------------------
// Common
//   struct Span { off, len }   .end()  .of(buf) -> &[u8]
//   struct FieldRef { off, width, kind: FieldKind }   a length / type / flag field
//   enum FieldKind { .. }      what the field is (C03 mutation menu)
// BGP (RFC 4271 §4, RFC 4760 §3-4, RFC 5492 §4, RFC 9072 §2, RFC 2918 §3, RFC 7313)
//   split_stream(buf) -> Result<Vec<Span>, String>           frames by header length
//   read_frame(buf, max_len) -> Result<Frame, String>        one frame at buf[0..]
//       Frame { len, msg_type, body: Body, fields: Vec<FieldRef> }
//       Body::Open(OpenBody{version, my_as, hold, id, opt_len, extended, params, caps})
//       Body::Update(UpdateBody{withdrawn, attr_block, nlri, attrs, mp_reach, mp_unreach})
//       Body::Notification{code, subcode, data}  Body::Keepalive
//       Body::RouteRefresh{afi, subtype, safi}
//   walk_attrs(buf, block: Span) -> Result<(Vec<Attr>, Vec<FieldRef>), String>
//   parse_mp_reach / parse_mp_unreach(buf, &Attr)            MP attribute bodies
//   enum NlriKind { Ipv4, Ipv6, LabeledV4, LabeledV6, VpnV4, VpnV6, Evpn, Rtc }
//   nlri_kind(afi, safi) -> Option<NlriKind>
//   enum LabelMode { BosTerminated, Fixed3 };  struct NlriOpts { addpath, labels }
//       NlriOpts::reach(addpath) / NlriOpts::withdraw(addpath)
//   walk_nlri(kind, opts, buf, span) -> Result<Vec<NlriItem>, String>
//       NlriItem { span, path_id, len_field, labels, rd, prefix_bits, prefix, evpn_type, fields }
//   update_nlri_fields(buf, &Frame, addpath) -> Result<Vec<FieldRef>, String>
//   walk_tlvs(buf, span, type_width, len_width, &mut fields) -> Result<Vec<Tlv>, String>
//       generic TLV stream (LS: 2/2, prefix-SID: 1/2, tunnel-encap outer: 2/2);
//       appends TlvType / TlvLen FieldRefs; Tlv { off, typ, value: Span }
// BMP (RFC 7854 §4, RFC 8671 §4, RFC 9069 §4)
//   read_bmp(buf) -> Result<BmpMsg, String>                  one message at buf[0..]
//       BmpMsg { version, length, msg_type, per_peer: Option<BmpPerPeer>, body, fields }
//       BmpBody::{RouteMonitoring{pdus}, StatsReport, PeerDown{reason,..}, PeerUp{..,
//       sent_open, recv_open, info}, Initiation, Termination, RouteMirroring}
//       RouteMonitoring lists EVERY BGP frame found after the per-peer header so the
//       caller can assert "exactly one" (RFC 7854 §4.6)
// MRT (RFC 6396 §2-4, RFC 8050 §3-4)
//   read_mrt(buf) -> Result<MrtRecord, String>               one record at buf[0..]
//       MrtBody::{Bgp4mpMessage{as4, local, addpath, .., pdu}, Bgp4mpStateChange,
//       PeerIndexTable{peers}, Rib{afi, safi, addpath, prefix, entries}, Other}
//       BGP4MP subtypes per RFC 6396 §4.4 / RFC 8050 §3: 1 MESSAGE, 4 MESSAGE_AS4,
//       6 LOCAL, 7 AS4_LOCAL, 8 MESSAGE_ADDPATH (2-byte AS), 9 MESSAGE_AS4_ADDPATH, 10, 11
//   mrt_mp_reach_nexthop(buf, &Attr) -> Result<Span, String>  RFC 6396 §4.3.4 short form
// RTR (RFC 6810 §5, RFC 8210 §5, draft-ietf-sidrops-8210bis for version 2)
//   read_rtr(buf) -> Result<RtrPdu, String>                  one PDU at buf[0..]
//   rtr_fixed_len(version, pdu_type) -> Option<u32>
// ---------------------------------------------------------------------------

#[derive(Clone, Copy, Debug, PartialEq, Eq, Hash, Default)]
pub struct Span {
    pub off: usize,
    pub len: usize,
}

impl Span {
    pub fn new(off: usize, len: usize) -> Span {
        Span { off, len }
    }
    pub fn end(&self) -> usize {
        self.off.saturating_add(self.len)
    }
    /// the bytes of this span, or an empty slice if it does not fit `buf`
    pub fn of<'a>(&self, buf: &'a [u8]) -> &'a [u8] {
        buf.get(self.off..self.end()).unwrap_or(&[])
    }
}

#[derive(Clone, Copy, Debug, PartialEq, Eq, Hash, PartialOrd, Ord)]
pub enum FieldKind {
    // header
    Marker,
    HeaderLen,
    MsgType,
    // OPEN
    OpenVersion,
    OpenAs,
    OpenHold,
    OpenId,
    OpenOptLen,
    /// RFC 9072: the 255 "non-ext OP type" byte
    OpenExtMarker,
    OpenExtOptLen,
    OptParamType,
    OptParamLen,
    CapCode,
    CapLen,
    /// a length byte inside a capability value (FQDN host / domain length)
    CapInnerLen,
    // UPDATE
    WithdrawnLen,
    TotalAttrLen,
    AttrFlags,
    AttrType,
    AttrLen,
    AttrExtLen,
    MpAfi,
    MpSafi,
    MpNhLen,
    MpReserved,
    // NLRI
    NlriPathId,
    /// the prefix / NLRI bit-length byte
    NlriLen,
    /// third byte of a label (carries the bottom-of-stack bit)
    LabelBos,
    EvpnRouteType,
    EvpnRouteLen,
    // NOTIFICATION / ROUTE-REFRESH
    NotifCode,
    NotifSubcode,
    RrAfi,
    RrSubtype,
    RrSafi,
    // generic TLV streams
    TlvType,
    TlvLen,
    // BMP
    BmpVersion,
    BmpLen,
    BmpType,
    BmpPeerType,
    BmpPeerFlags,
    BmpReason,
    BmpTlvType,
    BmpTlvLen,
    // MRT
    MrtType,
    MrtSubtype,
    MrtLen,
    MrtAfi,
    MrtCount,
    MrtPeerType,
    MrtAttrLen,
    MrtPrefixLen,
    MrtViewNameLen,
    // RTR
    RtrVersion,
    RtrType,
    RtrLen,
    RtrInnerLen,
}

#[derive(Clone, Copy, Debug, PartialEq, Eq, Hash)]
pub struct FieldRef {
    pub off: usize,
    pub width: usize,
    pub kind: FieldKind,
}

fn fr(off: usize, width: usize, kind: FieldKind) -> FieldRef {
    FieldRef { off, width, kind }
}

/// Bounds-checked big-endian reader over `buf[..end]`.
struct Rd<'a> {
    buf: &'a [u8],
    pos: usize,
    end: usize,
    what: &'static str,
}

impl<'a> Rd<'a> {
    fn new(buf: &'a [u8], span: Span, what: &'static str) -> Result<Rd<'a>, String> {
        if span.end() > buf.len() || span.off > buf.len() {
            return Err(format!("{what}: span {}+{} exceeds buffer of {}", span.off, span.len, buf.len()));
        }
        Ok(Rd { buf, pos: span.off, end: span.end(), what })
    }
    fn left(&self) -> usize {
        self.end - self.pos
    }
    fn need(&self, n: usize, field: &str) -> Result<(), String> {
        if self.left() < n {
            Err(format!("{}: truncated at offset {}: need {} byte(s) for {}, {} left", self.what, self.pos, n, field, self.left()))
        } else {
            Ok(())
        }
    }
    fn u8(&mut self, field: &str) -> Result<u8, String> {
        self.need(1, field)?;
        let v = self.buf[self.pos];
        self.pos += 1;
        Ok(v)
    }
    fn u16(&mut self, field: &str) -> Result<u16, String> {
        self.need(2, field)?;
        let v = u16::from_be_bytes([self.buf[self.pos], self.buf[self.pos + 1]]);
        self.pos += 2;
        Ok(v)
    }
    fn u32(&mut self, field: &str) -> Result<u32, String> {
        self.need(4, field)?;
        let b = &self.buf[self.pos..self.pos + 4];
        self.pos += 4;
        Ok(u32::from_be_bytes([b[0], b[1], b[2], b[3]]))
    }
    fn u64(&mut self, field: &str) -> Result<u64, String> {
        let hi = self.u32(field)? as u64;
        let lo = self.u32(field)? as u64;
        Ok(hi << 32 | lo)
    }
    fn take(&mut self, n: usize, field: &str) -> Result<Span, String> {
        self.need(n, field)?;
        let s = Span::new(self.pos, n);
        self.pos += n;
        Ok(s)
    }
    fn bytes(&mut self, n: usize, field: &str) -> Result<&'a [u8], String> {
        let s = self.take(n, field)?;
        Ok(&self.buf[s.off..s.end()])
    }
    fn rest(&mut self) -> Span {
        let s = Span::new(self.pos, self.end - self.pos);
        self.pos = self.end;
        s
    }
}

// ===========================================================================
// BGP
// ===========================================================================

pub const BGP_HEADER_LEN: usize = 19;
pub const MSG_OPEN: u8 = 1;
pub const MSG_UPDATE: u8 = 2;
pub const MSG_NOTIFICATION: u8 = 3;
pub const MSG_KEEPALIVE: u8 = 4;
pub const MSG_ROUTE_REFRESH: u8 = 5;

pub const ATTR_FLAG_OPTIONAL: u8 = 0x80;
pub const ATTR_FLAG_TRANSITIVE: u8 = 0x40;
pub const ATTR_FLAG_PARTIAL: u8 = 0x20;
pub const ATTR_FLAG_EXTENDED: u8 = 0x10;
pub const ATTR_MP_REACH: u8 = 14;
pub const ATTR_MP_UNREACH: u8 = 15;

/// RFC 4271 §4.1: split a byte stream into frames by the length field.  Only
/// the length is looked at (19..=65535, must fit); use `read_frame` per frame.
pub fn split_stream(buf: &[u8]) -> Result<Vec<Span>, String> {
    let mut out = Vec::new();
    let mut pos = 0usize;
    while pos < buf.len() {
        if buf.len() - pos < BGP_HEADER_LEN {
            return Err(format!("stream: {} trailing byte(s) at offset {pos}, shorter than a BGP header", buf.len() - pos));
        }
        let len = u16::from_be_bytes([buf[pos + 16], buf[pos + 17]]) as usize;
        if len < BGP_HEADER_LEN {
            return Err(format!("stream: frame at offset {pos} has length field {len} < 19"));
        }
        if len > buf.len() - pos {
            return Err(format!("stream: frame at offset {pos} has length field {len} but only {} byte(s) follow", buf.len() - pos));
        }
        out.push(Span::new(pos, len));
        pos += len;
    }
    Ok(out)
}

#[derive(Clone, Debug)]
pub struct Frame {
    /// value of the header length field = size of the frame
    pub len: usize,
    pub msg_type: u8,
    pub body: Body,
    /// every length field and type / flag byte of the frame (NLRI-level fields:
    /// see `update_nlri_fields`, they depend on the add-path setting)
    pub fields: Vec<FieldRef>,
}

#[derive(Clone, Debug)]
pub enum Body {
    Open(OpenBody),
    Update(UpdateBody),
    Notification { code: u8, subcode: u8, data: Span },
    Keepalive,
    /// RFC 2918 §3 / RFC 7313 §3.2: AFI(2), message subtype (was "reserved")(1), SAFI(1)
    RouteRefresh { afi: u16, subtype: u8, safi: u8 },
}

#[derive(Clone, Debug)]
pub struct OpenBody {
    pub version: u8,
    pub my_as: u16,
    pub hold: u16,
    pub id: u32,
    /// the one-byte Opt Parm Len field as found (255 when RFC 9072 is in use)
    pub opt_len: u8,
    /// RFC 9072 extended optional parameters length / format in use
    pub extended: bool,
    pub params: Vec<OptParam>,
    /// capabilities of all type-2 parameters, in order
    pub caps: Vec<Cap>,
}

#[derive(Clone, Debug)]
pub struct OptParam {
    pub off: usize,
    pub typ: u8,
    pub value: Span,
}

#[derive(Clone, Debug)]
pub struct Cap {
    pub off: usize,
    pub code: u8,
    pub value: Span,
}

#[derive(Clone, Debug)]
pub struct UpdateBody {
    pub withdrawn: Span,
    pub attr_block: Span,
    pub nlri: Span,
    pub attrs: Vec<Attr>,
    pub mp_reach: Option<MpReach>,
    pub mp_unreach: Option<MpUnreach>,
}

#[derive(Clone, Debug)]
pub struct Attr {
    /// offset of the flags byte
    pub off: usize,
    pub flags: u8,
    pub code: u8,
    /// extended-length bit set (2-byte length)
    pub ext: bool,
    pub value: Span,
}

impl Attr {
    /// whole attribute including its header
    pub fn span(&self) -> Span {
        Span::new(self.off, self.value.end() - self.off)
    }
}

#[derive(Clone, Debug)]
pub struct MpReach {
    /// index into UpdateBody.attrs
    pub attr_index: usize,
    pub afi: u16,
    pub safi: u8,
    pub nh_len: u8,
    pub nexthop: Span,
    pub reserved: u8,
    pub nlri: Span,
}

#[derive(Clone, Debug)]
pub struct MpUnreach {
    pub attr_index: usize,
    pub afi: u16,
    pub safi: u8,
    pub nlri: Span,
}

/// RFC 4271 §4.1: read the frame that starts at buf[0].  `max_len` is the
/// negotiated maximum message size (4096, or 65535 with RFC 8654).  Bytes after
/// the frame are ignored.  Strict: any inconsistency between length fields, an
/// unknown message type, or a body that is too short / long for its type is an
/// error.
pub fn read_frame(buf: &[u8], max_len: usize) -> Result<Frame, String> {
    if buf.len() < BGP_HEADER_LEN {
        return Err(format!("header: {} byte(s), need 19", buf.len()));
    }
    if let Some(i) = buf[..16].iter().position(|b| *b != 0xff) {
        return Err(format!("header: marker byte {i} is {:#04x}, not 0xff", buf[i]));
    }
    let len = u16::from_be_bytes([buf[16], buf[17]]) as usize;
    let msg_type = buf[18];
    if len < BGP_HEADER_LEN {
        return Err(format!("header: length {len} < 19"));
    }
    if len > max_len {
        return Err(format!("header: length {len} exceeds the negotiated maximum {max_len}"));
    }
    if len > buf.len() {
        return Err(format!("header: length {len} but only {} byte(s) present", buf.len()));
    }
    let mut fields = vec![fr(0, 16, FieldKind::Marker), fr(16, 2, FieldKind::HeaderLen), fr(18, 1, FieldKind::MsgType)];
    let frame = &buf[..len];
    let body_span = Span::new(BGP_HEADER_LEN, len - BGP_HEADER_LEN);
    let body = match msg_type {
        MSG_OPEN => Body::Open(read_open(frame, body_span, &mut fields)?),
        MSG_UPDATE => Body::Update(read_update(frame, body_span, &mut fields)?),
        MSG_NOTIFICATION => {
            // RFC 4271 §4.5: code(1) subcode(1) data(*)
            let mut r = Rd::new(frame, body_span, "NOTIFICATION")?;
            fields.push(fr(r.pos, 1, FieldKind::NotifCode));
            let code = r.u8("error code")?;
            fields.push(fr(r.pos, 1, FieldKind::NotifSubcode));
            let subcode = r.u8("error subcode")?;
            Body::Notification { code, subcode, data: r.rest() }
        }
        MSG_KEEPALIVE => {
            // RFC 4271 §4.4: header only
            if len != BGP_HEADER_LEN {
                return Err(format!("KEEPALIVE: length {len}, must be 19"));
            }
            Body::Keepalive
        }
        MSG_ROUTE_REFRESH => {
            // RFC 2918 §3: exactly 4 bytes (RFC 7313 §5: otherwise NOTIFICATION 7/1)
            if len != BGP_HEADER_LEN + 4 {
                return Err(format!("ROUTE-REFRESH: length {len}, must be 23"));
            }
            let mut r = Rd::new(frame, body_span, "ROUTE-REFRESH")?;
            fields.push(fr(r.pos, 2, FieldKind::RrAfi));
            let afi = r.u16("AFI")?;
            fields.push(fr(r.pos, 1, FieldKind::RrSubtype));
            let subtype = r.u8("subtype")?;
            fields.push(fr(r.pos, 1, FieldKind::RrSafi));
            let safi = r.u8("SAFI")?;
            Body::RouteRefresh { afi, subtype, safi }
        }
        t => return Err(format!("header: unknown message type {t}")),
    };
    Ok(Frame { len, msg_type, body, fields })
}

/// RFC 4271 §4.2 + RFC 5492 §4 + RFC 9072 §2.
fn read_open(frame: &[u8], body: Span, fields: &mut Vec<FieldRef>) -> Result<OpenBody, String> {
    let mut r = Rd::new(frame, body, "OPEN")?;
    if r.left() < 10 {
        return Err(format!("OPEN: body of {} byte(s), need at least 10", r.left()));
    }
    fields.push(fr(r.pos, 1, FieldKind::OpenVersion));
    let version = r.u8("version")?;
    fields.push(fr(r.pos, 2, FieldKind::OpenAs));
    let my_as = r.u16("my AS")?;
    fields.push(fr(r.pos, 2, FieldKind::OpenHold));
    let hold = r.u16("hold time")?;
    fields.push(fr(r.pos, 4, FieldKind::OpenId));
    let id = r.u32("BGP identifier")?;
    fields.push(fr(r.pos, 1, FieldKind::OpenOptLen));
    let opt_len = r.u8("opt parm len")?;
    // RFC 9072 §2: opt_len == 255 and the next byte == 255 switch to the extended
    // format: ext length (2) follows, parameters then use 2-byte lengths.
    let mut extended = false;
    let mut total = opt_len as usize;
    if opt_len == 255 && r.left() >= 1 && frame[r.pos] == 255 {
        extended = true;
        fields.push(fr(r.pos, 1, FieldKind::OpenExtMarker));
        r.u8("non-ext OP type")?;
        fields.push(fr(r.pos, 2, FieldKind::OpenExtOptLen));
        total = r.u16("extended opt parm length")? as usize;
    }
    if total != r.left() {
        return Err(format!("OPEN: optional parameters length {total} but {} byte(s) follow", r.left()));
    }
    let mut params = Vec::new();
    let mut caps = Vec::new();
    while r.left() > 0 {
        let off = r.pos;
        fields.push(fr(r.pos, 1, FieldKind::OptParamType));
        let typ = r.u8("parameter type")?;
        let plen = if extended {
            fields.push(fr(r.pos, 2, FieldKind::OptParamLen));
            r.u16("parameter length")? as usize
        } else {
            fields.push(fr(r.pos, 1, FieldKind::OptParamLen));
            r.u8("parameter length")? as usize
        };
        let value = r.take(plen, "parameter value")?;
        if typ == 2 {
            // RFC 5492 §4: one or more <code(1), length(1), value>
            let mut c = Rd::new(frame, value, "OPEN capabilities")?;
            while c.left() > 0 {
                let coff = c.pos;
                fields.push(fr(c.pos, 1, FieldKind::CapCode));
                let code = c.u8("capability code")?;
                fields.push(fr(c.pos, 1, FieldKind::CapLen));
                let clen = c.u8("capability length")? as usize;
                let cval = c.take(clen, "capability value")?;
                if code == 73 && clen >= 1 {
                    // FQDN: hostlen(1) host domainlen(1) domain
                    fields.push(fr(cval.off, 1, FieldKind::CapInnerLen));
                    let hl = frame[cval.off] as usize;
                    if 1 + hl < clen {
                        fields.push(fr(cval.off + 1 + hl, 1, FieldKind::CapInnerLen));
                    }
                }
                caps.push(Cap { off: coff, code, value: cval });
            }
        }
        params.push(OptParam { off, typ, value });
    }
    Ok(OpenBody { version, my_as, hold, id, opt_len, extended, params, caps })
}

/// RFC 4271 §4.3.
fn read_update(frame: &[u8], body: Span, fields: &mut Vec<FieldRef>) -> Result<UpdateBody, String> {
    let mut r = Rd::new(frame, body, "UPDATE")?;
    fields.push(fr(r.pos, 2, FieldKind::WithdrawnLen));
    let wlen = r.u16("withdrawn routes length")? as usize;
    if wlen + 2 > r.left() {
        return Err(format!("UPDATE: withdrawn routes length {wlen} + 2 exceeds the {} byte(s) left", r.left()));
    }
    let withdrawn = r.take(wlen, "withdrawn routes")?;
    fields.push(fr(r.pos, 2, FieldKind::TotalAttrLen));
    let alen = r.u16("total path attribute length")? as usize;
    if alen > r.left() {
        return Err(format!("UPDATE: total path attribute length {alen} exceeds the {} byte(s) left (withdrawn {wlen})", r.left()));
    }
    let attr_block = r.take(alen, "path attributes")?;
    let nlri = r.rest();
    let (attrs, afields) = walk_attrs(frame, attr_block)?;
    fields.extend(afields);
    let mut mp_reach = None;
    let mut mp_unreach = None;
    for (i, a) in attrs.iter().enumerate() {
        if a.code == ATTR_MP_REACH {
            if mp_reach.is_some() {
                return Err("UPDATE: more than one MP_REACH_NLRI".into());
            }
            let mut m = parse_mp_reach(frame, a, fields)?;
            m.attr_index = i;
            mp_reach = Some(m);
        } else if a.code == ATTR_MP_UNREACH {
            if mp_unreach.is_some() {
                return Err("UPDATE: more than one MP_UNREACH_NLRI".into());
            }
            let mut m = parse_mp_unreach(frame, a, fields)?;
            m.attr_index = i;
            mp_unreach = Some(m);
        }
    }
    Ok(UpdateBody { withdrawn, attr_block, nlri, attrs, mp_reach, mp_unreach })
}

/// RFC 4271 §4.3 path attributes: flags(1) type(1) length(1, or 2 if the
/// extended-length bit 0x10 is set) value.  The block must be consumed exactly.
pub fn walk_attrs(buf: &[u8], block: Span) -> Result<(Vec<Attr>, Vec<FieldRef>), String> {
    let mut r = Rd::new(buf, block, "path attributes")?;
    let mut attrs = Vec::new();
    let mut fields = Vec::new();
    while r.left() > 0 {
        let off = r.pos;
        fields.push(fr(r.pos, 1, FieldKind::AttrFlags));
        let flags = r.u8("attribute flags")?;
        fields.push(fr(r.pos, 1, FieldKind::AttrType));
        let code = r.u8("attribute type")?;
        let ext = flags & ATTR_FLAG_EXTENDED != 0;
        let len = if ext {
            fields.push(fr(r.pos, 2, FieldKind::AttrExtLen));
            r.u16("attribute extended length")? as usize
        } else {
            fields.push(fr(r.pos, 1, FieldKind::AttrLen));
            r.u8("attribute length")? as usize
        };
        if len > r.left() {
            return Err(format!("path attributes: attribute type {code} at offset {off} has length {len} but {} byte(s) remain in the block", r.left()));
        }
        let value = r.take(len, "attribute value")?;
        attrs.push(Attr { off, flags, code, ext, value });
    }
    Ok((attrs, fields))
}

/// RFC 4760 §3: AFI(2) SAFI(1) nh-len(1) next hop, reserved(1), NLRI.
pub fn parse_mp_reach(buf: &[u8], a: &Attr, fields: &mut Vec<FieldRef>) -> Result<MpReach, String> {
    let mut r = Rd::new(buf, a.value, "MP_REACH_NLRI")?;
    fields.push(fr(r.pos, 2, FieldKind::MpAfi));
    let afi = r.u16("AFI")?;
    fields.push(fr(r.pos, 1, FieldKind::MpSafi));
    let safi = r.u8("SAFI")?;
    fields.push(fr(r.pos, 1, FieldKind::MpNhLen));
    let nh_len = r.u8("next hop length")?;
    let nexthop = r.take(nh_len as usize, "next hop")?;
    fields.push(fr(r.pos, 1, FieldKind::MpReserved));
    let reserved = r.u8("reserved (SNPA count)")?;
    Ok(MpReach { attr_index: 0, afi, safi, nh_len, nexthop, reserved, nlri: r.rest() })
}

/// RFC 4760 §4: AFI(2) SAFI(1) withdrawn NLRI.
pub fn parse_mp_unreach(buf: &[u8], a: &Attr, fields: &mut Vec<FieldRef>) -> Result<MpUnreach, String> {
    let mut r = Rd::new(buf, a.value, "MP_UNREACH_NLRI")?;
    fields.push(fr(r.pos, 2, FieldKind::MpAfi));
    let afi = r.u16("AFI")?;
    fields.push(fr(r.pos, 1, FieldKind::MpSafi));
    let safi = r.u8("SAFI")?;
    Ok(MpUnreach { attr_index: 0, afi, safi, nlri: r.rest() })
}

// ---------------------------------------------------------------------------
// NLRI walkers
// ---------------------------------------------------------------------------

#[derive(Clone, Copy, Debug, PartialEq, Eq, Hash)]
pub enum NlriKind {
    /// RFC 4271 §4.3 (SAFI 1, 2)
    Ipv4,
    /// RFC 4760 §5 / RFC 2545 (SAFI 1, 2)
    Ipv6,
    /// RFC 8277 §2 (SAFI 4)
    LabeledV4,
    LabeledV6,
    /// RFC 4364 §4.3.4 (SAFI 128)
    VpnV4,
    /// RFC 4659 §3.2 (SAFI 128)
    VpnV6,
    /// RFC 7432 §7 (AFI 25 SAFI 70)
    Evpn,
    /// RFC 4684 §4 (AFI 1 SAFI 132)
    Rtc,
}

pub fn nlri_kind(afi: u16, safi: u8) -> Option<NlriKind> {
    match (afi, safi) {
        (1, 1) | (1, 2) => Some(NlriKind::Ipv4),
        (2, 1) | (2, 2) => Some(NlriKind::Ipv6),
        (1, 4) => Some(NlriKind::LabeledV4),
        (2, 4) => Some(NlriKind::LabeledV6),
        (1, 128) => Some(NlriKind::VpnV4),
        (2, 128) => Some(NlriKind::VpnV6),
        (25, 70) => Some(NlriKind::Evpn),
        (1, 132) => Some(NlriKind::Rtc),
        _ => None,
    }
}

#[derive(Clone, Copy, Debug, PartialEq, Eq, Hash)]
pub enum LabelMode {
    /// labels are read until one has the bottom-of-stack bit (RFC 3107 §3,
    /// RFC 8277 §2.3; with a single label this is RFC 8277 §2.2)
    BosTerminated,
    /// exactly 3 bytes, content ignored: the "compatibility" field of a
    /// withdrawal (RFC 8277 §2.4, typically 0x800000 or 0x000000)
    Fixed3,
}

#[derive(Clone, Copy, Debug, PartialEq, Eq, Hash)]
pub struct NlriOpts {
    /// RFC 7911 §3: a 4-byte path identifier precedes every NLRI
    pub addpath: bool,
    pub labels: LabelMode,
}

impl NlriOpts {
    pub fn reach(addpath: bool) -> NlriOpts {
        NlriOpts { addpath, labels: LabelMode::BosTerminated }
    }
    /// RFC 8277 §2.4 reading of a withdrawal.  NOTE: a sender that repeats the
    /// advertised label stack in a withdrawal is only read correctly by this mode
    /// when the stack has one label; use `reach` opts to read "labels as sent".
    pub fn withdraw(addpath: bool) -> NlriOpts {
        NlriOpts { addpath, labels: LabelMode::Fixed3 }
    }
}

#[derive(Clone, Debug, PartialEq, Eq)]
pub struct NlriItem {
    /// the whole entry including the path id
    pub span: Span,
    pub path_id: Option<u32>,
    /// value of the length byte (bits; EVPN: route length in bytes)
    pub len_field: u16,
    /// 20-bit label values (Fixed3: the raw 24-bit field >> 4)
    pub labels: Vec<u32>,
    pub rd: Option<[u8; 8]>,
    /// prefix length in bits (after removing labels / RD); RTC: the whole length
    pub prefix_bits: u16,
    /// prefix bytes as on the wire: ceil(prefix_bits / 8)
    pub prefix: Vec<u8>,
    pub evpn_type: Option<u8>,
    pub fields: Vec<FieldRef>,
}

/// Walk the NLRI list in `buf[span]`; the list must be consumed exactly.
pub fn walk_nlri(kind: NlriKind, opts: NlriOpts, buf: &[u8], span: Span) -> Result<Vec<NlriItem>, String> {
    let mut r = Rd::new(buf, span, "NLRI")?;
    let mut out = Vec::new();
    while r.left() > 0 {
        let start = r.pos;
        let mut fields = Vec::new();
        let path_id = if opts.addpath {
            fields.push(fr(r.pos, 4, FieldKind::NlriPathId));
            Some(r.u32("path identifier")?)
        } else {
            None
        };
        let mut item = NlriItem {
            span: Span::default(), path_id, len_field: 0, labels: vec![], rd: None,
            prefix_bits: 0, prefix: vec![], evpn_type: None, fields: vec![],
        };
        match kind {
            NlriKind::Evpn => {
                // RFC 7432 §7: route type(1) length(1) value
                fields.push(fr(r.pos, 1, FieldKind::EvpnRouteType));
                let t = r.u8("EVPN route type")?;
                fields.push(fr(r.pos, 1, FieldKind::EvpnRouteLen));
                let l = r.u8("EVPN route length")? as usize;
                let body = r.bytes(l, "EVPN route")?;
                // RFC 7432 §7.1-7.4, RFC 9136 §3.1: sizes of the defined route types
                let ok: &[usize] = match t {
                    1 => &[25],
                    2 => &[33, 36, 37, 40, 49, 52],
                    3 => &[17, 29],
                    4 => &[23, 35],
                    5 => &[34, 58],
                    _ => &[],
                };
                if !ok.is_empty() && !ok.contains(&l) {
                    return Err(format!("NLRI: EVPN route type {t} at offset {start} has length {l}, allowed {ok:?}"));
                }
                if (1..=5).contains(&t) {
                    let mut rd = [0u8; 8];
                    rd.copy_from_slice(&body[..8]);
                    item.rd = Some(rd);
                    // inner length bytes must agree with the route length
                    let inner = match t {
                        2 => {
                            let mac_len = body[22];
                            let ip_len = body[29] as usize;
                            if mac_len != 48 {
                                return Err(format!("NLRI: EVPN type 2 MAC length {mac_len}"));
                            }
                            if ![0, 32, 128].contains(&ip_len) || ![33 + ip_len / 8, 36 + ip_len / 8].contains(&l) {
                                return Err(format!("NLRI: EVPN type 2 IP length {ip_len} does not fit route length {l}"));
                            }
                            None
                        }
                        3 => Some((body[12] as usize, 13usize)),
                        4 => Some((body[18] as usize, 19usize)),
                        5 => {
                            let pl = body[22] as usize;
                            if pl > if l == 34 { 32 } else { 128 } {
                                return Err(format!("NLRI: EVPN type 5 prefix length {pl} with route length {l}"));
                            }
                            None
                        }
                        _ => None,
                    };
                    if let Some((bits, fixed)) = inner {
                        if ![32, 128].contains(&bits) || fixed + bits / 8 != l {
                            return Err(format!("NLRI: EVPN type {t} IP length {bits} does not fit route length {l}"));
                        }
                    }
                }
                item.evpn_type = Some(t);
                item.len_field = l as u16;
                item.prefix = body.to_vec();
            }
            NlriKind::Rtc => {
                fields.push(fr(r.pos, 1, FieldKind::NlriLen));
                let bits = r.u8("RTC prefix length")? as usize;
                // RFC 4684 §4: 0, or 32..=96
                if bits != 0 && !(32..=96).contains(&bits) {
                    return Err(format!("NLRI: RTC prefix length {bits} at offset {start} (must be 0 or 32..96)"));
                }
                item.len_field = bits as u16;
                item.prefix_bits = bits as u16;
                item.prefix = r.bytes(bits.div_ceil(8), "RTC prefix")?.to_vec();
            }
            _ => {
                fields.push(fr(r.pos, 1, FieldKind::NlriLen));
                let total_bits = r.u8("NLRI length")? as usize;
                item.len_field = total_bits as u16;
                let labeled = !matches!(kind, NlriKind::Ipv4 | NlriKind::Ipv6);
                let has_rd = matches!(kind, NlriKind::VpnV4 | NlriKind::VpnV6);
                let max_prefix = if matches!(kind, NlriKind::Ipv4 | NlriKind::LabeledV4 | NlriKind::VpnV4) { 32 } else { 128 };
                let mut used = 0usize;
                if labeled {
                    loop {
                        if total_bits < used + 24 {
                            return Err(format!("NLRI: length {total_bits} at offset {start} leaves no room for a label after {used} bits"));
                        }
                        let b = r.bytes(3, "label")?;
                        fields.push(fr(r.pos - 1, 1, FieldKind::LabelBos));
                        item.labels.push(((b[0] as u32) << 16 | (b[1] as u32) << 8 | b[2] as u32) >> 4);
                        used += 24;
                        if opts.labels == LabelMode::Fixed3 || b[2] & 1 == 1 {
                            break;
                        }
                    }
                }
                if has_rd {
                    if total_bits < used + 64 {
                        return Err(format!("NLRI: length {total_bits} at offset {start} leaves no room for the RD after {used} bits"));
                    }
                    let b = r.bytes(8, "route distinguisher")?;
                    let mut rd = [0u8; 8];
                    rd.copy_from_slice(b);
                    item.rd = Some(rd);
                    used += 64;
                }
                let pbits = total_bits - used;
                if pbits > max_prefix {
                    return Err(format!("NLRI: prefix length {pbits} at offset {start} exceeds {max_prefix}"));
                }
                item.prefix_bits = pbits as u16;
                item.prefix = r.bytes(pbits.div_ceil(8), "prefix")?.to_vec();
            }
        }
        item.span = Span::new(start, r.pos - start);
        item.fields = fields;
        out.push(item);
    }
    Ok(out)
}

/// NLRI-level fields (path ids, length bytes, BoS bytes, EVPN type / length) of
/// an UPDATE frame for the families `nlri_kind` knows; other families yield
/// nothing.  Withdrawn / MP_UNREACH lists are read "labels as sent"
/// (BoS-terminated), which is how this code base writes them.
pub fn update_nlri_fields(buf: &[u8], frame: &Frame, addpath: bool) -> Result<Vec<FieldRef>, String> {
    let mut out = Vec::new();
    if let Body::Update(u) = &frame.body {
        let o = NlriOpts::reach(addpath);
        for sp in [u.withdrawn, u.nlri] {
            for it in walk_nlri(NlriKind::Ipv4, o, buf, sp)? {
                out.extend(it.fields);
            }
        }
        if let Some(m) = &u.mp_reach {
            if let Some(k) = nlri_kind(m.afi, m.safi) {
                for it in walk_nlri(k, o, buf, m.nlri)? {
                    out.extend(it.fields);
                }
            }
        }
        if let Some(m) = &u.mp_unreach {
            if let Some(k) = nlri_kind(m.afi, m.safi) {
                for it in walk_nlri(k, o, buf, m.nlri)? {
                    out.extend(it.fields);
                }
            }
        }
    }
    Ok(out)
}

// ---------------------------------------------------------------------------
// generic TLV streams
// ---------------------------------------------------------------------------

#[derive(Clone, Debug, PartialEq, Eq)]
pub struct Tlv {
    pub off: usize,
    pub typ: u32,
    pub value: Span,
}

/// Walk a TLV stream with `tw`-byte types and `lw`-byte lengths (1 or 2 each):
/// BGP-LS NLRI / attribute (RFC 9552 §5.1: 2/2), Prefix-SID (RFC 8669 §3: 1/2),
/// Tunnel Encapsulation outer TLVs (RFC 9012 §2: 2/2), BMP information TLVs
/// (RFC 7854 §4.4: 2/2).  The stream must be consumed exactly.
pub fn walk_tlvs(buf: &[u8], span: Span, tw: usize, lw: usize, fields: &mut Vec<FieldRef>) -> Result<Vec<Tlv>, String> {
    walk_tlvs_k(buf, span, tw, lw, FieldKind::TlvType, FieldKind::TlvLen, fields)
}

fn walk_tlvs_k(buf: &[u8], span: Span, tw: usize, lw: usize, kt: FieldKind, kl: FieldKind, fields: &mut Vec<FieldRef>) -> Result<Vec<Tlv>, String> {
    if !(1..=2).contains(&tw) || !(1..=2).contains(&lw) {
        return Err("TLV: widths must be 1 or 2".into());
    }
    let mut r = Rd::new(buf, span, "TLV")?;
    let mut out = Vec::new();
    while r.left() > 0 {
        let off = r.pos;
        fields.push(fr(r.pos, tw, kt));
        let typ = if tw == 1 { r.u8("type")? as u32 } else { r.u16("type")? as u32 };
        fields.push(fr(r.pos, lw, kl));
        let len = if lw == 1 { r.u8("length")? as usize } else { r.u16("length")? as usize };
        if len > r.left() {
            return Err(format!("TLV: type {typ} at offset {off} has length {len} but {} byte(s) remain", r.left()));
        }
        let value = r.take(len, "value")?;
        out.push(Tlv { off, typ, value });
    }
    Ok(out)
}

// ===========================================================================
// BMP (RFC 7854, RFC 8671, RFC 9069)
// ===========================================================================

pub const BMP_ROUTE_MONITORING: u8 = 0;
pub const BMP_STATS_REPORT: u8 = 1;
pub const BMP_PEER_DOWN: u8 = 2;
pub const BMP_PEER_UP: u8 = 3;
pub const BMP_INITIATION: u8 = 4;
pub const BMP_TERMINATION: u8 = 5;
pub const BMP_ROUTE_MIRRORING: u8 = 6;

/// RFC 7854 §4.2 per-peer header (42 bytes).
#[derive(Clone, Debug, PartialEq, Eq)]
pub struct BmpPerPeer {
    /// 0 global, 1 RD, 2 local, 3 Loc-RIB (RFC 9069 §4.1)
    pub peer_type: u8,
    pub flags: u8,
    pub distinguisher: u64,
    /// 16 bytes; IPv4 in the last 4 with 12 leading zero bytes
    pub address: [u8; 16],
    pub asn: u32,
    pub bgp_id: u32,
    pub ts_sec: u32,
    pub ts_usec: u32,
}

impl BmpPerPeer {
    /// V flag (0x80): the peer address is IPv6.  (Peer type 3 redefines bit 0x80
    /// as F "filtered", RFC 9069 §4.2, and has no address.)
    pub fn v_flag(&self) -> bool {
        self.peer_type != 3 && self.flags & 0x80 != 0
    }
    /// L flag (0x40): post-policy Adj-RIB-In
    pub fn l_flag(&self) -> bool {
        self.peer_type != 3 && self.flags & 0x40 != 0
    }
    /// A flag (0x20): legacy 2-byte AS_PATH format
    pub fn a_flag(&self) -> bool {
        self.peer_type != 3 && self.flags & 0x20 != 0
    }
    /// O flag (0x10): Adj-RIB-Out (RFC 8671 §4)
    pub fn o_flag(&self) -> bool {
        self.peer_type != 3 && self.flags & 0x10 != 0
    }
    pub fn address_is_v4_form(&self) -> bool {
        self.address[..12].iter().all(|b| *b == 0)
    }
}

#[derive(Clone, Debug)]
pub enum BmpBody {
    /// RFC 7854 §4.6: per-peer header + ONE BGP UPDATE PDU.  `pdus` lists every
    /// BGP frame found in the remainder so that the caller can check "exactly one".
    RouteMonitoring { pdus: Vec<Span> },
    /// RFC 7854 §4.8: count(4) then count x <type(2) len(2) value>
    StatsReport { count: u32, stats: Vec<Tlv> },
    /// RFC 7854 §4.9; reason 1/3: NOTIFICATION PDU, 2: FSM event code(2), 4/5: none,
    /// 6 (RFC 9069 §5.3): information TLVs
    PeerDown { reason: u8, notification: Option<Span>, fsm_code: Option<u16>, tlvs: Vec<Tlv> },
    /// RFC 7854 §4.10
    PeerUp { local_addr: [u8; 16], local_port: u16, remote_port: u16, sent_open: Span, recv_open: Span, info: Vec<Tlv> },
    /// RFC 7854 §4.3 / §4.5 / §4.7: information TLVs
    Initiation { tlvs: Vec<Tlv> },
    Termination { tlvs: Vec<Tlv> },
    RouteMirroring { tlvs: Vec<Tlv> },
}

#[derive(Clone, Debug)]
pub struct BmpMsg {
    pub version: u8,
    /// common-header length = size of the whole message
    pub length: usize,
    pub msg_type: u8,
    pub per_peer: Option<BmpPerPeer>,
    pub body: BmpBody,
    pub fields: Vec<FieldRef>,
}

fn bgp_frame_at(buf: &[u8], r: &mut Rd, what: &str, want_type: Option<u8>) -> Result<Span, String> {
    if r.left() < BGP_HEADER_LEN {
        return Err(format!("{}: {what}: {} byte(s) left, shorter than a BGP header", r.what, r.left()));
    }
    let p = r.pos;
    if buf[p..p + 16].iter().any(|b| *b != 0xff) {
        return Err(format!("{}: {what} at offset {p}: BGP marker is not all ones", r.what));
    }
    let len = u16::from_be_bytes([buf[p + 16], buf[p + 17]]) as usize;
    if len < BGP_HEADER_LEN || len > r.left() {
        return Err(format!("{}: {what} at offset {p}: BGP length {len} does not fit the {} byte(s) left", r.what, r.left()));
    }
    if let Some(t) = want_type {
        if buf[p + 18] != t {
            return Err(format!("{}: {what} at offset {p}: BGP message type {} where {t} is required", r.what, buf[p + 18]));
        }
    }
    r.take(len, what)
}

/// Read the BMP message that starts at buf[0] (bytes after it are ignored).
pub fn read_bmp(buf: &[u8]) -> Result<BmpMsg, String> {
    // RFC 7854 §4.1 common header: version(1) length(4) type(1)
    if buf.len() < 6 {
        return Err(format!("BMP: {} byte(s), common header needs 6", buf.len()));
    }
    let mut fields = vec![fr(0, 1, FieldKind::BmpVersion), fr(1, 4, FieldKind::BmpLen), fr(5, 1, FieldKind::BmpType)];
    let version = buf[0];
    if version != 3 {
        return Err(format!("BMP: version {version}, expected 3"));
    }
    let length = u32::from_be_bytes([buf[1], buf[2], buf[3], buf[4]]) as usize;
    let msg_type = buf[5];
    if length < 6 {
        return Err(format!("BMP: message length {length} < 6"));
    }
    if length > buf.len() {
        return Err(format!("BMP: message length {length} but only {} byte(s) present", buf.len()));
    }
    let mut r = Rd::new(buf, Span::new(6, length - 6), "BMP")?;
    let has_peer = matches!(msg_type, BMP_ROUTE_MONITORING | BMP_STATS_REPORT | BMP_PEER_DOWN | BMP_PEER_UP | BMP_ROUTE_MIRRORING);
    let per_peer = if has_peer {
        if r.left() < 42 {
            return Err(format!("BMP: type {msg_type} needs a 42-byte per-peer header, {} byte(s) follow the common header", r.left()));
        }
        fields.push(fr(r.pos, 1, FieldKind::BmpPeerType));
        let peer_type = r.u8("peer type")?;
        fields.push(fr(r.pos, 1, FieldKind::BmpPeerFlags));
        let flags = r.u8("peer flags")?;
        let distinguisher = r.u64("peer distinguisher")?;
        let mut address = [0u8; 16];
        address.copy_from_slice(r.bytes(16, "peer address")?);
        let p = BmpPerPeer {
            peer_type, flags, distinguisher, address,
            asn: r.u32("peer AS")?, bgp_id: r.u32("peer BGP ID")?,
            ts_sec: r.u32("timestamp seconds")?, ts_usec: r.u32("timestamp microseconds")?,
        };
        if peer_type > 3 {
            return Err(format!("BMP: per-peer header: unknown peer type {peer_type}"));
        }
        // RFC 7854 §4.2: an IPv4 address is stored in the last 4 bytes, the rest zero
        if peer_type != 3 && !p.v_flag() && !p.address_is_v4_form() {
            return Err("BMP: per-peer header: V flag clear but the first 12 address bytes are not zero".into());
        }
        if peer_type == 3 && address != [0u8; 16] {
            return Err("BMP: per-peer header: Loc-RIB peer with a non-zero peer address (RFC 9069 §4.1)".into());
        }
        Some(p)
    } else {
        None
    };
    let body = match msg_type {
        BMP_ROUTE_MONITORING => {
            let mut pdus = Vec::new();
            if r.left() == 0 {
                return Err("BMP: Route Monitoring without a BGP PDU".into());
            }
            while r.left() > 0 {
                pdus.push(bgp_frame_at(buf, &mut r, "Route Monitoring PDU", Some(MSG_UPDATE))?);
            }
            BmpBody::RouteMonitoring { pdus }
        }
        BMP_STATS_REPORT => {
            fields.push(fr(r.pos, 4, FieldKind::MrtCount));
            let count = r.u32("stats count")?;
            let rest = r.rest();
            let stats = walk_tlvs_k(buf, rest, 2, 2, FieldKind::BmpTlvType, FieldKind::BmpTlvLen, &mut fields)?;
            if stats.len() != count as usize {
                return Err(format!("BMP: Stats Report count {count} but {} TLV(s) present", stats.len()));
            }
            BmpBody::StatsReport { count, stats }
        }
        BMP_PEER_DOWN => {
            fields.push(fr(r.pos, 1, FieldKind::BmpReason));
            let reason = r.u8("peer down reason")?;
            let (mut notification, mut fsm_code, mut tlvs) = (None, None, Vec::new());
            match reason {
                1 | 3 => {
                    notification = Some(bgp_frame_at(buf, &mut r, "Peer Down NOTIFICATION", Some(MSG_NOTIFICATION))?);
                }
                2 => fsm_code = Some(r.u16("FSM event code")?),
                4 | 5 => {}
                6 => {
                    let rest = r.rest();
                    tlvs = walk_tlvs_k(buf, rest, 2, 2, FieldKind::BmpTlvType, FieldKind::BmpTlvLen, &mut fields)?;
                }
                x => return Err(format!("BMP: Peer Down reason {x} is not defined")),
            }
            if r.left() != 0 {
                return Err(format!("BMP: Peer Down reason {reason}: {} unexpected trailing byte(s)", r.left()));
            }
            BmpBody::PeerDown { reason, notification, fsm_code, tlvs }
        }
        BMP_PEER_UP => {
            let mut local_addr = [0u8; 16];
            local_addr.copy_from_slice(r.bytes(16, "local address")?);
            let local_port = r.u16("local port")?;
            let remote_port = r.u16("remote port")?;
            let sent_open = bgp_frame_at(buf, &mut r, "Peer Up sent OPEN", Some(MSG_OPEN))?;
            let recv_open = bgp_frame_at(buf, &mut r, "Peer Up received OPEN", Some(MSG_OPEN))?;
            let rest = r.rest();
            let info = walk_tlvs_k(buf, rest, 2, 2, FieldKind::BmpTlvType, FieldKind::BmpTlvLen, &mut fields)?;
            BmpBody::PeerUp { local_addr, local_port, remote_port, sent_open, recv_open, info }
        }
        BMP_INITIATION | BMP_TERMINATION | BMP_ROUTE_MIRRORING => {
            let rest = r.rest();
            let tlvs = walk_tlvs_k(buf, rest, 2, 2, FieldKind::BmpTlvType, FieldKind::BmpTlvLen, &mut fields)?;
            match msg_type {
                BMP_INITIATION => BmpBody::Initiation { tlvs },
                BMP_TERMINATION => BmpBody::Termination { tlvs },
                _ => BmpBody::RouteMirroring { tlvs },
            }
        }
        t => return Err(format!("BMP: unknown message type {t}")),
    };
    Ok(BmpMsg { version, length, msg_type, per_peer, body, fields })
}

// ===========================================================================
// MRT (RFC 6396, RFC 8050)
// ===========================================================================

pub const MRT_TABLE_DUMP_V2: u16 = 13;
pub const MRT_BGP4MP: u16 = 16;
pub const MRT_BGP4MP_ET: u16 = 17;

#[derive(Clone, Debug)]
pub struct MrtPeerEntry {
    /// bit 0: IPv6 address, bit 1: 4-byte AS (RFC 6396 §4.3.1)
    pub peer_type: u8,
    pub bgp_id: u32,
    pub addr: Vec<u8>,
    pub asn: u32,
}

#[derive(Clone, Debug)]
pub struct MrtRibEntry {
    pub peer_index: u16,
    pub originated: u32,
    /// RFC 8050 §4.1 (ADDPATH subtypes only)
    pub path_id: Option<u32>,
    pub attr_block: Span,
    pub attrs: Vec<Attr>,
}

#[derive(Clone, Debug)]
pub enum MrtBody {
    /// RFC 6396 §4.4.2 / §4.4.3 (+ _LOCAL §4.4.5/6, + _ADDPATH RFC 8050 §3)
    Bgp4mpMessage {
        as4: bool,
        local: bool,
        addpath: bool,
        peer_as: u32,
        local_as: u32,
        ifindex: u16,
        afi: u16,
        peer_ip: Vec<u8>,
        local_ip: Vec<u8>,
        /// the BGP message (exactly one frame filling the rest of the record)
        pdu: Span,
    },
    /// RFC 6396 §4.4.1 / §4.4.4
    Bgp4mpStateChange { as4: bool, peer_as: u32, local_as: u32, ifindex: u16, afi: u16, peer_ip: Vec<u8>, local_ip: Vec<u8>, old_state: u16, new_state: u16 },
    /// RFC 6396 §4.3.1
    PeerIndexTable { collector_id: u32, view_name: Span, peers: Vec<MrtPeerEntry> },
    /// RFC 6396 §4.3.2 (subtypes 2-5), RFC 8050 §4.1 (subtypes 8-11)
    Rib { afi: u16, safi: u8, addpath: bool, seq: u32, prefix_bits: u8, prefix: Vec<u8>, entries: Vec<MrtRibEntry> },
    /// any other type / subtype: body not interpreted
    Other,
}

#[derive(Clone, Debug)]
pub struct MrtRecord {
    pub timestamp: u32,
    pub mrt_type: u16,
    pub subtype: u16,
    /// header length field = bytes after the 12-byte common header
    pub length: usize,
    /// RFC 6396 §3: extended timestamp types carry 4 more bytes (inside `length`)
    pub microseconds: Option<u32>,
    pub body: MrtBody,
    pub fields: Vec<FieldRef>,
}

impl MrtRecord {
    pub fn total_len(&self) -> usize {
        12 + self.length
    }
}

/// Read the MRT record that starts at buf[0] (bytes after it are ignored).
pub fn read_mrt(buf: &[u8]) -> Result<MrtRecord, String> {
    // RFC 6396 §2: timestamp(4) type(2) subtype(2) length(4)
    if buf.len() < 12 {
        return Err(format!("MRT: {} byte(s), common header needs 12", buf.len()));
    }
    let mut fields = vec![fr(4, 2, FieldKind::MrtType), fr(6, 2, FieldKind::MrtSubtype), fr(8, 4, FieldKind::MrtLen)];
    let timestamp = u32::from_be_bytes([buf[0], buf[1], buf[2], buf[3]]);
    let mrt_type = u16::from_be_bytes([buf[4], buf[5]]);
    let subtype = u16::from_be_bytes([buf[6], buf[7]]);
    let length = u32::from_be_bytes([buf[8], buf[9], buf[10], buf[11]]) as usize;
    if length > buf.len() - 12 {
        return Err(format!("MRT: record length {length} but only {} byte(s) follow the header", buf.len() - 12));
    }
    let mut r = Rd::new(buf, Span::new(12, length), "MRT")?;
    let microseconds = if mrt_type == MRT_BGP4MP_ET { Some(r.u32("microsecond timestamp")?) } else { None };
    let body = match (mrt_type, subtype) {
        (MRT_BGP4MP | MRT_BGP4MP_ET, 0 | 1 | 4..=11) => {
            let as4 = matches!(subtype, 4 | 5 | 7 | 9 | 11);
            let local = matches!(subtype, 6 | 7 | 10 | 11);
            let addpath = matches!(subtype, 8..=11);
            let (peer_as, local_as) = if as4 {
                (r.u32("peer AS")?, r.u32("local AS")?)
            } else {
                (r.u16("peer AS")? as u32, r.u16("local AS")? as u32)
            };
            let ifindex = r.u16("interface index")?;
            fields.push(fr(r.pos, 2, FieldKind::MrtAfi));
            let afi = r.u16("address family")?;
            let alen = match afi {
                1 => 4,
                2 => 16,
                x => return Err(format!("MRT: BGP4MP address family {x} (must be 1 or 2)")),
            };
            let peer_ip = r.bytes(alen, "peer IP address")?.to_vec();
            let local_ip = r.bytes(alen, "local IP address")?.to_vec();
            if matches!(subtype, 0 | 5) {
                let old_state = r.u16("old state")?;
                let new_state = r.u16("new state")?;
                if r.left() != 0 {
                    return Err(format!("MRT: BGP4MP_STATE_CHANGE: {} trailing byte(s)", r.left()));
                }
                MrtBody::Bgp4mpStateChange { as4, peer_as, local_as, ifindex, afi, peer_ip, local_ip, old_state, new_state }
            } else {
                let pdu = bgp_frame_at(buf, &mut r, "BGP4MP message", None)?;
                if r.left() != 0 {
                    return Err(format!("MRT: BGP4MP message: {} byte(s) after the BGP message (a record carries exactly one)", r.left()));
                }
                MrtBody::Bgp4mpMessage { as4, local, addpath, peer_as, local_as, ifindex, afi, peer_ip, local_ip, pdu }
            }
        }
        (MRT_TABLE_DUMP_V2, 1) => {
            let collector_id = r.u32("collector BGP ID")?;
            fields.push(fr(r.pos, 2, FieldKind::MrtViewNameLen));
            let vlen = r.u16("view name length")? as usize;
            let view_name = r.take(vlen, "view name")?;
            fields.push(fr(r.pos, 2, FieldKind::MrtCount));
            let count = r.u16("peer count")?;
            let mut peers = Vec::new();
            for i in 0..count {
                fields.push(fr(r.pos, 1, FieldKind::MrtPeerType));
                let peer_type = r.u8("peer type")?;
                if peer_type & !3 != 0 {
                    return Err(format!("MRT: PEER_INDEX_TABLE entry {i}: peer type {peer_type:#x} has undefined bits"));
                }
                let bgp_id = r.u32("peer BGP ID")?;
                let addr = r.bytes(if peer_type & 1 != 0 { 16 } else { 4 }, "peer IP address")?.to_vec();
                let asn = if peer_type & 2 != 0 { r.u32("peer AS")? } else { r.u16("peer AS")? as u32 };
                peers.push(MrtPeerEntry { peer_type, bgp_id, addr, asn });
            }
            if r.left() != 0 {
                return Err(format!("MRT: PEER_INDEX_TABLE: {} byte(s) after {count} peer entries", r.left()));
            }
            MrtBody::PeerIndexTable { collector_id, view_name, peers }
        }
        (MRT_TABLE_DUMP_V2, 2..=5 | 8..=11) => {
            let addpath = subtype >= 8;
            let (afi, safi) = match subtype {
                2 | 8 => (1u16, 1u8),
                3 | 9 => (1, 2),
                4 | 10 => (2, 1),
                _ => (2, 2),
            };
            let seq = r.u32("sequence number")?;
            fields.push(fr(r.pos, 1, FieldKind::MrtPrefixLen));
            let prefix_bits = r.u8("prefix length")?;
            if prefix_bits as usize > if afi == 1 { 32 } else { 128 } {
                return Err(format!("MRT: RIB prefix length {prefix_bits} too long for AFI {afi}"));
            }
            let prefix = r.bytes((prefix_bits as usize).div_ceil(8), "prefix")?.to_vec();
            fields.push(fr(r.pos, 2, FieldKind::MrtCount));
            let count = r.u16("entry count")?;
            let mut entries = Vec::new();
            for i in 0..count {
                let peer_index = r.u16("peer index")?;
                let originated = r.u32("originated time")?;
                let path_id = if addpath { Some(r.u32("path identifier")?) } else { None };
                fields.push(fr(r.pos, 2, FieldKind::MrtAttrLen));
                let alen = r.u16("attribute length")? as usize;
                if alen > r.left() {
                    return Err(format!("MRT: RIB entry {i}: attribute length {alen} but {} byte(s) remain", r.left()));
                }
                let attr_block = r.take(alen, "attributes")?;
                let (attrs, af) = walk_attrs(buf, attr_block).map_err(|e| format!("MRT: RIB entry {i}: {e}"))?;
                fields.extend(af);
                entries.push(MrtRibEntry { peer_index, originated, path_id, attr_block, attrs });
            }
            if r.left() != 0 {
                return Err(format!("MRT: RIB record: {} byte(s) after {count} entries", r.left()));
            }
            MrtBody::Rib { afi, safi, addpath, seq, prefix_bits, prefix, entries }
        }
        _ => MrtBody::Other,
    };
    Ok(MrtRecord { timestamp, mrt_type, subtype, length, microseconds, body, fields })
}

/// RFC 6396 §4.3.4: inside TABLE_DUMP_V2 RIB entries MP_REACH_NLRI is
/// abbreviated to <next hop length(1), next hop>.  Returns the next hop bytes.
pub fn mrt_mp_reach_nexthop(buf: &[u8], a: &Attr) -> Result<Span, String> {
    let mut r = Rd::new(buf, a.value, "MRT MP_REACH_NLRI")?;
    let n = r.u8("next hop length")? as usize;
    let nh = r.take(n, "next hop")?;
    if r.left() != 0 {
        return Err(format!("MRT MP_REACH_NLRI: {} byte(s) after the next hop (the abbreviated form has none)", r.left()));
    }
    Ok(nh)
}

// ===========================================================================
// RTR (RFC 6810 version 0, RFC 8210 version 1, 8210bis version 2)
// ===========================================================================

#[derive(Clone, Debug, PartialEq, Eq)]
pub enum RtrBody {
    SerialNotify { session_id: u16, serial: u32 },
    SerialQuery { session_id: u16, serial: u32 },
    ResetQuery,
    CacheResponse { session_id: u16 },
    Ipv4Prefix { flags: u8, prefix_len: u8, max_len: u8, prefix: [u8; 4], asn: u32 },
    Ipv6Prefix { flags: u8, prefix_len: u8, max_len: u8, prefix: [u8; 16], asn: u32 },
    /// version 0: no intervals
    EndOfData { session_id: u16, serial: u32, intervals: Option<(u32, u32, u32)> },
    CacheReset,
    RouterKey { flags: u8, ski: [u8; 20], asn: u32, spki: Span },
    ErrorReport { code: u16, pdu: Span, text: Span },
    Aspa { flags: u8, customer: u32, providers: Vec<u32> },
}

#[derive(Clone, Debug)]
pub struct RtrPdu {
    pub version: u8,
    pub pdu_type: u8,
    /// bytes 2..4 of the header as found (session id / error code / flags+zero)
    pub hdr16: u16,
    /// header length field = size of the whole PDU
    pub length: usize,
    pub body: RtrBody,
    pub fields: Vec<FieldRef>,
}

/// Fixed total PDU length per type (RFC 8210 §5.2-5.9), None for variable ones.
pub fn rtr_fixed_len(version: u8, pdu_type: u8) -> Option<u32> {
    match pdu_type {
        0 | 1 => Some(12),
        2 | 3 | 8 => Some(8),
        4 => Some(20),
        6 => Some(32),
        7 => Some(if version == 0 { 12 } else { 24 }),
        _ => None,
    }
}

/// Read the RTR PDU that starts at buf[0] (bytes after it are ignored).
pub fn read_rtr(buf: &[u8]) -> Result<RtrPdu, String> {
    // RFC 8210 §5.1: version(1) type(1) session/error/zero(2) length(4)
    if buf.len() < 8 {
        return Err(format!("RTR: {} byte(s), header needs 8", buf.len()));
    }
    let mut fields = vec![fr(0, 1, FieldKind::RtrVersion), fr(1, 1, FieldKind::RtrType), fr(4, 4, FieldKind::RtrLen)];
    let version = buf[0];
    let pdu_type = buf[1];
    let hdr16 = u16::from_be_bytes([buf[2], buf[3]]);
    let length = u32::from_be_bytes([buf[4], buf[5], buf[6], buf[7]]) as usize;
    if version > 2 {
        return Err(format!("RTR: version {version} (defined: 0, 1, 2)"));
    }
    if length < 8 {
        return Err(format!("RTR: length {length} < 8"));
    }
    if length > buf.len() {
        return Err(format!("RTR: length {length} but only {} byte(s) present", buf.len()));
    }
    if let Some(want) = rtr_fixed_len(version, pdu_type) {
        if length != want as usize {
            return Err(format!("RTR: PDU type {pdu_type} version {version} has length {length}, must be {want}"));
        }
    }
    let zero_hdr = |name: &str| -> Result<(), String> {
        if hdr16 != 0 { Err(format!("RTR: {name}: header bytes 2-3 are {hdr16:#06x}, must be zero")) } else { Ok(()) }
    };
    let mut r = Rd::new(buf, Span::new(8, length - 8), "RTR")?;
    let body = match pdu_type {
        0 => RtrBody::SerialNotify { session_id: hdr16, serial: r.u32("serial number")? },
        1 => RtrBody::SerialQuery { session_id: hdr16, serial: r.u32("serial number")? },
        2 => {
            zero_hdr("Reset Query")?;
            RtrBody::ResetQuery
        }
        3 => RtrBody::CacheResponse { session_id: hdr16 },
        4 | 6 => {
            zero_hdr("IP Prefix")?;
            let flags = r.u8("flags")?;
            let prefix_len = r.u8("prefix length")?;
            let max_len = r.u8("max length")?;
            let z = r.u8("zero")?;
            let top = if pdu_type == 4 { 32 } else { 128 };
            if z != 0 {
                return Err(format!("RTR: IP Prefix: zero byte is {z:#04x}"));
            }
            if flags & !1 != 0 {
                return Err(format!("RTR: IP Prefix: flags {flags:#04x} has undefined bits"));
            }
            // RFC 8210 §5.6: prefix length <= max length <= 32 / 128
            if prefix_len > max_len || max_len > top {
                return Err(format!("RTR: IP Prefix: prefix length {prefix_len}, max length {max_len}, address size {top}"));
            }
            if pdu_type == 4 {
                let mut prefix = [0u8; 4];
                prefix.copy_from_slice(r.bytes(4, "IPv4 prefix")?);
                RtrBody::Ipv4Prefix { flags, prefix_len, max_len, prefix, asn: r.u32("AS number")? }
            } else {
                let mut prefix = [0u8; 16];
                prefix.copy_from_slice(r.bytes(16, "IPv6 prefix")?);
                RtrBody::Ipv6Prefix { flags, prefix_len, max_len, prefix, asn: r.u32("AS number")? }
            }
        }
        7 => {
            let serial = r.u32("serial number")?;
            let intervals = if version == 0 {
                None
            } else {
                Some((r.u32("refresh interval")?, r.u32("retry interval")?, r.u32("expire interval")?))
            };
            RtrBody::EndOfData { session_id: hdr16, serial, intervals }
        }
        8 => {
            zero_hdr("Cache Reset")?;
            RtrBody::CacheReset
        }
        9 => {
            // RFC 8210 §5.10: flags(1) zero(1) | SKI(20) AS(4) SPKI(*)
            if version == 0 {
                return Err("RTR: Router Key PDU in version 0".into());
            }
            let mut ski = [0u8; 20];
            ski.copy_from_slice(r.bytes(20, "subject key identifier")?);
            let asn = r.u32("AS number")?;
            RtrBody::RouterKey { flags: (hdr16 >> 8) as u8, ski, asn, spki: r.rest() }
        }
        10 => {
            // RFC 8210 §5.11: len(4) erroneous PDU, len(4) text
            fields.push(fr(r.pos, 4, FieldKind::RtrInnerLen));
            let plen = r.u32("length of encapsulated PDU")? as usize;
            if plen > r.left() {
                return Err(format!("RTR: Error Report: encapsulated PDU length {plen} but {} byte(s) remain", r.left()));
            }
            let pdu = r.take(plen, "encapsulated PDU")?;
            fields.push(fr(r.pos, 4, FieldKind::RtrInnerLen));
            let tlen = r.u32("length of error text")? as usize;
            if tlen != r.left() {
                return Err(format!("RTR: Error Report: error text length {tlen} but {} byte(s) remain", r.left()));
            }
            RtrBody::ErrorReport { code: hdr16, pdu, text: r.rest() }
        }
        11 => {
            // 8210bis §5.12: flags(1) zero(1) | customer AS(4) provider AS(4)*
            if version < 2 {
                return Err(format!("RTR: ASPA PDU in version {version}"));
            }
            let customer = r.u32("customer AS")?;
            if r.left() % 4 != 0 {
                return Err(format!("RTR: ASPA: {} byte(s) of provider ASes is not a multiple of 4", r.left()));
            }
            let mut providers = Vec::new();
            while r.left() > 0 {
                providers.push(r.u32("provider AS")?);
            }
            RtrBody::Aspa { flags: (hdr16 >> 8) as u8, customer, providers }
        }
        t => return Err(format!("RTR: unknown PDU type {t}")),
    };
    if r.left() != 0 {
        return Err(format!("RTR: PDU type {pdu_type}: {} unread byte(s) inside the PDU", r.left()));
    }
    Ok(RtrPdu { version, pdu_type, hdr16, length, body, fields })
}
