// C12 — RPKI origin validation = RFC 6811, and VRP maintenance = set semantics.
//
// Part (a): bounded-exhaustive validation sweep.  A small w-bit address space is
//   embedded at a bit offset inside real IPv4 / IPv6 addresses so that the prefix
//   lengths straddle byte boundaries (the trie keys of the subject are
//   `address bytes ++ [length]`).  ALL VRP sets up to a size bound x ALL routes of
//   the space x ALL origin derivations are validated by the real
//   `RpkiTable::validate` and compared with a linear-scan RFC 6811 oracle.
// Part (b): explicit-state BFS over maintenance histories (insert / remove /
//   per-cache reset / session restart) against a BTreeSet reference model.
//
// The oracle never calls the subject: covering is computed on (u128 address,
// length) pairs by shifting, the origin AS is a constant attached to each
// hand-built AS_PATH shape.

use crate::vx::bfs::{self, BfsCfg, Model};
use crate::vx::enumr;
use crate::vx::report::{catch, Report, Violation};
use rustybgp_packet::bgp::{IpNet, Ipv4Net, Ipv6Net};
use rustybgp_packet::{Attribute, Family, Nlri};
use rustybgp_table::{PeerRole, Roa, RpkiTable, RpkiValidation, RpkiValidationState, Source};
use std::collections::{BTreeMap, BTreeSet};
use std::net::{IpAddr, Ipv4Addr, Ipv6Addr};
use std::sync::atomic::{AtomicU64, Ordering};
use std::sync::Arc;

/// AS of the validating speaker (`Source::local_asn`).  Deliberately one of the
/// VRP ASes so that "own AS" derivations can be Valid and a wrong fallback to
/// the own AS (AS_SET tail) is observable.
const OWN_AS: u32 = 65002;
const VRP_ASES: [u32; 3] = [0, 65001, 65002];

// ---------------------------------------------------------------------------
// prefixes

#[derive(Clone, Copy, PartialEq, Eq, PartialOrd, Ord, Hash, Debug)]
struct Pfx {
    v6: bool,
    /// the address as an integer (IPv4: low 32 bits), host bits zero
    addr: u128,
    len: u8,
}

impl Pfx {
    fn width(&self) -> u32 {
        if self.v6 { 128 } else { 32 }
    }
    fn ip(&self) -> IpAddr {
        if self.v6 {
            IpAddr::V6(Ipv6Addr::from(self.addr))
        } else {
            IpAddr::V4(Ipv4Addr::from(self.addr as u32))
        }
    }
    fn nlri(&self) -> Nlri {
        match self.ip() {
            IpAddr::V4(addr) => Nlri::V4(Ipv4Net { addr, mask: self.len }),
            IpAddr::V6(addr) => Nlri::V6(Ipv6Net { addr, mask: self.len }),
        }
    }
    fn ipnet(&self) -> IpNet {
        IpNet::new(self.ip(), self.len)
    }
    fn from_ipnet(n: &IpNet) -> Pfx {
        match n {
            IpNet::V4(n) => Pfx { v6: false, addr: u32::from(n.addr) as u128, len: n.mask },
            IpNet::V6(n) => Pfx { v6: true, addr: u128::from(n.addr), len: n.mask },
        }
    }
    fn show(&self) -> String {
        format!("{}/{}", self.ip(), self.len)
    }
    fn parse(s: &str) -> Option<Pfx> {
        let (a, l) = s.split_once('/')?;
        let len: u8 = l.parse().ok()?;
        match a.parse::<IpAddr>().ok()? {
            IpAddr::V4(a) => Some(Pfx { v6: false, addr: u32::from(a) as u128, len }),
            IpAddr::V6(a) => Some(Pfx { v6: true, addr: u128::from(a), len }),
        }
    }
    /// number of address octets that carry prefix bits
    fn octets(&self) -> u8 {
        self.len.div_ceil(8)
    }
}

/// RFC 6811 "covers": `p` is equal to or shorter than `r` and the leading
/// `p.len` bits of both are equal.
fn covers(p: &Pfx, r: &Pfx) -> bool {
    if p.v6 != r.v6 || p.len > r.len {
        return false;
    }
    if p.len == 0 {
        return true;
    }
    let shift = p.width() - p.len as u32;
    (p.addr >> shift) == (r.addr >> shift)
}

// ---------------------------------------------------------------------------
// VRPs

#[derive(Clone, Copy, PartialEq, Eq, PartialOrd, Ord, Hash, Debug)]
struct Vrp {
    pfx: Pfx,
    maxlen: u8,
    asn: u32,
    cache: u8,
}

/// (prefix, max-length, AS) — what the validation lists are compared on.
type Key = (Pfx, u8, u32);

impl Vrp {
    fn key(&self) -> Key {
        (self.pfx, self.maxlen, self.asn)
    }
    fn show(&self) -> String {
        format!("{}-{}:{}@c{}", self.pfx.show(), self.maxlen, self.asn, self.cache + 1)
    }
    fn parse(s: &str) -> Option<Vrp> {
        let (rest, cache) = s.rsplit_once("@c")?;
        let (rest, asn) = rest.rsplit_once(':')?;
        let (pfx, maxlen) = rest.rsplit_once('-')?;
        Some(Vrp {
            pfx: Pfx::parse(pfx)?,
            maxlen: maxlen.parse().ok()?,
            asn: asn.parse().ok()?,
            cache: cache.parse::<u8>().ok()?.checked_sub(1)?,
        })
    }
}

fn show_key(k: &Key) -> String {
    format!("{}-{}:{}", k.0.show(), k.1, k.2)
}

fn cache_addr(c: u8) -> IpAddr {
    IpAddr::V4(Ipv4Addr::new(192, 0, 2, 1 + c))
}

// ---------------------------------------------------------------------------
// embedded address spaces

#[derive(Clone, Copy, Debug)]
struct Space {
    v6: bool,
    offset: u8,
    w: u8,
    /// fixed leading `offset` bits (as a full address, other bits zero)
    base: u128,
}

impl Space {
    fn width(&self) -> u8 {
        if self.v6 { 128 } else { 32 }
    }
    fn name(&self) -> String {
        format!("{}+{}w{}", if self.v6 { "v6" } else { "v4" }, self.offset, self.w)
    }
    /// every prefix of the space: length offset+k, k in 0..=w, every value of the k free bits
    fn prefixes(&self) -> Vec<Pfx> {
        let mut v = Vec::new();
        for k in 0..=self.w {
            let len = self.offset + k;
            for val in 0..(1u128 << k) {
                let addr = if k == 0 { self.base } else { self.base | (val << (self.width() as u32 - len as u32)) };
                v.push(Pfx { v6: self.v6, addr, len });
            }
        }
        v
    }
    fn vrps(&self) -> Vec<Vrp> {
        let top = self.offset + self.w;
        let mut v = Vec::new();
        for pfx in self.prefixes() {
            let mut maxlens: Vec<u8> = (pfx.len..=top).collect();
            if top < self.width() {
                maxlens.push(self.width());
            }
            for ml in maxlens {
                for asn in VRP_ASES {
                    for cache in 0..2u8 {
                        v.push(Vrp { pfx, maxlen: ml, asn, cache });
                    }
                }
            }
        }
        v
    }
}

fn v4base(a: u8, b: u8, c: u8, d: u8) -> u128 {
    u32::from(Ipv4Addr::new(a, b, c, d)) as u128
}

fn spaces_all(w: u8) -> Vec<Space> {
    let v6 = |s: &str| u128::from(s.parse::<Ipv6Addr>().unwrap());
    vec![
        // lengths 6..10 straddle the /8 octet boundary
        Space { v6: false, offset: 6, w, base: v4base(8, 0, 0, 0) },
        // lengths 62..66 straddle the /64 boundary
        Space { v6: true, offset: 62, w, base: v6("2001:db8:0:4::") },
        // lengths 14..18 straddle /16
        Space { v6: false, offset: 14, w, base: v4base(10, 4, 0, 0) },
        // up to host routes: 124..128 (DESIGN.md says offset 126 with w = 4, which would exceed /128)
        Space { v6: true, offset: 128 - w, w, base: v6("2001:db8::10") & !((1u128 << w) - 1) },
        // up to host routes: 28..32
        Space { v6: false, offset: 32 - w, w, base: v4base(192, 0, 2, 16) & !((1u128 << w) - 1) },
        // from the default route: 0..4
        Space { v6: false, offset: 0, w, base: 0 },
        Space { v6: true, offset: 0, w, base: 0 },
        // lengths 118..122 straddle /120 (last octet boundary of IPv6)
        Space { v6: true, offset: 118, w, base: v6("2001:db8::400") },
    ]
}

// ---------------------------------------------------------------------------
// origin derivations

#[derive(Clone, Copy, PartialEq, Eq, Debug)]
enum Reading {
    /// the route origin AS is this value; `None` = RFC 6811 "NONE" (matches no VRP)
    Origin(Option<u32>),
    /// GoBGP's reading of an AS_SET tail: the route is not validated at all
    /// (NotFound, empty lists)
    NotValidated,
}

struct Deriv {
    name: &'static str,
    /// shape class used in signatures
    class: &'static str,
    attrs: Arc<Vec<Attribute>>,
    /// acceptable readings, the first one is the primary (RFC 6811 §2)
    readings: Vec<Reading>,
}

fn as_path(segs: &[(u8, &[u32])]) -> Attribute {
    let mut b = Vec::new();
    for (t, asns) in segs {
        b.push(*t);
        b.push(asns.len() as u8);
        for a in asns.iter() {
            b.extend_from_slice(&a.to_be_bytes());
        }
    }
    Attribute::new_with_bin(Attribute::AS_PATH, b).unwrap()
}

fn derivations() -> Vec<Deriv> {
    const SET: u8 = Attribute::AS_PATH_TYPE_SET;
    const SEQ: u8 = Attribute::AS_PATH_TYPE_SEQ;
    const CSEQ: u8 = Attribute::AS_PATH_TYPE_CONFED_SEQ;
    const CSET: u8 = Attribute::AS_PATH_TYPE_CONFED_SET;
    let origin = || Attribute::new_with_value(Attribute::ORIGIN, 0).unwrap();
    let med = || Attribute::new_with_value(Attribute::MULTI_EXIT_DESC, 7).unwrap();
    let mk = |name, class, path: Option<Attribute>, readings: Vec<Reading>| {
        let mut attrs = vec![origin()];
        if let Some(p) = path {
            attrs.push(p);
        }
        attrs.push(med());
        Deriv { name, class, attrs: Arc::new(attrs), readings }
    };
    let asn = |a: u32| vec![Reading::Origin(Some(a))];
    vec![
        mk("seq-65001", "as-sequence-tail", Some(as_path(&[(SEQ, &[65100, 65001])])), asn(65001)),
        // first AS 65001, origin 65002: catches "first AS" / "any AS in path"
        mk("seq-65002", "as-sequence-tail", Some(as_path(&[(SEQ, &[65001, 65002])])), asn(65002)),
        // origin AS for which no VRP exists
        mk("seq-65003", "as-sequence-tail", Some(as_path(&[(SEQ, &[65001, 65003])])), asn(65003)),
        // several AS_SEQUENCE segments: rightmost AS of the final one
        mk("seq-seq-65001", "as-sequence-tail", Some(as_path(&[(SEQ, &[65002]), (SEQ, &[65001])])), asn(65001)),
        mk("confed-seq-65001", "as-sequence-tail", Some(as_path(&[(CSEQ, &[65002]), (SEQ, &[65100, 65001])])), asn(65001)),
        // AS 0 as the origin never matches anything (the statement: "matching origin AS (not AS 0)")
        mk("seq-tail-as0", "as-sequence-tail-as0", Some(as_path(&[(SEQ, &[65001, 0])])), asn(0)),
        // RFC 6811 §2: final segment of any other type (AS_SET) => origin "NONE".
        // GoBGP does not validate such routes (NotFound); both are accepted, Valid never is.
        mk(
            "as-set-tail",
            "as-set-tail",
            Some(as_path(&[(SEQ, &[65001]), (SET, &[65001, 65002])])),
            vec![Reading::Origin(None), Reading::NotValidated],
        ),
        mk("as-set-only", "as-set-tail", Some(as_path(&[(SET, &[65002])])), vec![Reading::Origin(None), Reading::NotValidated]),
        // RFC 6811 §2: empty AS_PATH => the speaker's own AS
        mk("empty-path", "empty-as-path", Some(as_path(&[])), asn(OWN_AS)),
        // no AS_PATH attribute at all (locally originated): own AS like the empty path;
        // RFC 6811 does not speak about it, so "NONE" is accepted as well
        mk("no-as-path", "no-as-path", None, vec![Reading::Origin(Some(OWN_AS)), Reading::Origin(None)]),
        // RFC 6811 §2: final segment AS_CONFED_SEQUENCE / AS_CONFED_SET => own AS
        mk("confed-seq-only", "confed-only", Some(as_path(&[(CSEQ, &[65001])])), asn(OWN_AS)),
        mk("confed-set-only", "confed-only", Some(as_path(&[(CSET, &[65001])])), asn(OWN_AS)),
    ]
}

fn speaker() -> Arc<Source> {
    Arc::new(Source::new(
        IpAddr::V4(Ipv4Addr::new(10, 0, 0, 1)),
        IpAddr::V4(Ipv4Addr::new(10, 0, 0, 254)),
        65100,
        OWN_AS,
        Ipv4Addr::new(1, 1, 1, 1),
        PeerRole::Ebgp,
    ))
}

// ---------------------------------------------------------------------------
// observation of the subject

#[derive(Clone, Copy, PartialEq, Eq, PartialOrd, Ord, Debug)]
enum St {
    NotFound,
    Valid,
    Invalid,
}

#[derive(Debug, Clone, PartialEq, Eq)]
struct Obs {
    state: St,
    matched: Vec<Key>,
    unmatched_asn: Vec<Key>,
    unmatched_length: Vec<Key>,
}

fn observe(v: Option<RpkiValidation>) -> Obs {
    match v {
        // `None` (empty trie for the family) counts as NotFound
        None => Obs { state: St::NotFound, matched: vec![], unmatched_asn: vec![], unmatched_length: vec![] },
        Some(v) => {
            let conv = |l: &Vec<(IpNet, Roa)>| {
                let mut k: Vec<Key> = l.iter().map(|(n, r)| (Pfx::from_ipnet(n), r.max_length, r.as_number)).collect();
                k.sort();
                k
            };
            Obs {
                state: if v.state == RpkiValidationState::Valid {
                    St::Valid
                } else if v.state == RpkiValidationState::Invalid {
                    St::Invalid
                } else {
                    St::NotFound
                },
                matched: conv(&v.matched),
                unmatched_asn: conv(&v.unmatched_asn),
                unmatched_length: conv(&v.unmatched_length),
            }
        }
    }
}

fn build_table(vrps: &[Vrp], caches: &[Arc<IpAddr>; 2]) -> RpkiTable {
    let mut t = RpkiTable::new();
    for v in vrps {
        t.insert(v.pfx.ipnet(), Arc::new(Roa::new(v.maxlen, v.asn, caches[v.cache as usize].clone())));
    }
    t
}

// ---------------------------------------------------------------------------
// oracle (RFC 6811 §2, linear scan)

/// multiset difference a - b on sorted vectors
fn msub(a: &[Key], b: &[Key]) -> Vec<Key> {
    let mut b: Vec<Key> = b.to_vec();
    let mut out = Vec::new();
    for x in a {
        if let Some(i) = b.iter().position(|y| y == x) {
            b.remove(i);
        } else {
            out.push(*x);
        }
    }
    out
}

struct Expect {
    covering: Vec<Key>,
    matched: Vec<Key>,
    state: St,
}

fn expect(vrps: &[Vrp], route: &Pfx, origin: Option<u32>) -> Expect {
    let mut covering = Vec::new();
    let mut matched = Vec::new();
    for v in vrps {
        if covers(&v.pfx, route) {
            covering.push(v.key());
            if v.maxlen >= route.len && v.asn != 0 && Some(v.asn) == origin {
                matched.push(v.key());
            }
        }
    }
    covering.sort();
    matched.sort();
    let state = if !matched.is_empty() {
        St::Valid
    } else if !covering.is_empty() {
        St::Invalid
    } else {
        St::NotFound
    };
    Expect { covering, matched, state }
}

/// Compare one observation with one reading.  Returns (state is wrong, causes).
/// Causes are root-cause shape classes; an empty list with a wrong state means
/// the state is inconsistent with (correct) lists.
fn diagnose(vrps: &[Vrp], route: &Pfx, d: &Deriv, reading: Reading, obs: &Obs) -> (bool, St, BTreeSet<String>) {
    let mut causes = BTreeSet::new();
    let origin = match reading {
        Reading::NotValidated => {
            let ok = obs.state == St::NotFound && obs.matched.is_empty() && obs.unmatched_asn.is_empty() && obs.unmatched_length.is_empty();
            if !ok {
                causes.insert(format!("origin-as/{}", d.class));
            }
            return (obs.state != St::NotFound, St::NotFound, causes);
        }
        Reading::Origin(o) => o,
    };
    let exp = expect(vrps, route, origin);
    let mut considered: Vec<Key> = Vec::new();
    considered.extend(&obs.matched);
    considered.extend(&obs.unmatched_asn);
    considered.extend(&obs.unmatched_length);
    considered.sort();
    // 1. which VRPs were looked at: must be exactly the covering ones
    for k in msub(&exp.covering, &considered) {
        if k.0.len == route.len {
            causes.insert("exact-vrp-ignored".into());
        } else {
            causes.insert("shorter-vrp-ignored".into());
        }
    }
    for k in msub(&considered, &exp.covering) {
        let known = vrps.iter().any(|v| v.key() == k);
        if !known {
            causes.insert("unknown-vrp-reported".into());
        } else if exp.covering.contains(&k) {
            causes.insert("vrp-reported-twice".into());
        } else if covers(route, &k.0) {
            causes.insert("more-specific-vrp-considered".into());
        } else {
            causes.insert("sibling-vrp-considered".into());
        }
    }
    // 2. classification of the covering VRPs that were looked at.  A VRP that
    // fails both on length and on AS may be listed under either "unmatched".
    let as_ok = |k: &Key| k.2 != 0 && Some(k.2) == origin;
    let len_ok = |k: &Key| k.1 >= route.len;
    for k in obs.matched.iter().filter(|k| exp.covering.contains(k)) {
        if k.2 == 0 {
            causes.insert("as0-vrp-matched".into());
        } else if !as_ok(k) {
            causes.insert(format!("origin-as/{}", d.class));
        }
        if !len_ok(k) {
            causes.insert("maxlen/longer-than-maxlen-matched".into());
        }
    }
    for k in obs.unmatched_asn.iter().filter(|k| exp.covering.contains(k)) {
        if as_ok(k) {
            if len_ok(k) {
                causes.insert(format!("origin-as/{}", d.class));
            } else {
                causes.insert("maxlen/length-failure-listed-as-asn".into());
            }
        }
    }
    for k in obs.unmatched_length.iter().filter(|k| exp.covering.contains(k)) {
        if len_ok(k) {
            causes.insert("maxlen/within-maxlen-rejected".into());
        }
    }
    (obs.state != exp.state, exp.state, causes)
}

/// Full check of one validation; returns (signature, what) pairs (empty = holds).
/// `describe == false` leaves `what` empty (the sweep renders it only for the witnesses it keeps).
fn check_validation(vrps: &[Vrp], route: &Pfx, d: &Deriv, obs: &Obs, describe: bool) -> Vec<(String, String)> {
    let mut first: Option<(bool, St, BTreeSet<String>)> = None;
    for r in &d.readings {
        let (bad_state, exp_state, causes) = diagnose(vrps, route, d, *r, obs);
        if !bad_state && causes.is_empty() {
            return vec![];
        }
        if first.is_none() {
            first = Some((bad_state, exp_state, causes));
        }
    }
    let (bad_state, exp_state, causes) = first.unwrap();
    let clause = if bad_state { "state" } else { "lists" };
    let what = if !describe { String::new() } else { format!(
        "route {} ({}) against {{{}}}: expected {:?}, observed {:?} matched=[{}] unmatched_asn=[{}] unmatched_length=[{}]",
        route.show(),
        d.name,
        vrps.iter().map(|v| v.show()).collect::<Vec<_>>().join(", "),
        exp_state,
        obs.state,
        obs.matched.iter().map(show_key).collect::<Vec<_>>().join(","),
        obs.unmatched_asn.iter().map(show_key).collect::<Vec<_>>().join(","),
        obs.unmatched_length.iter().map(show_key).collect::<Vec<_>>().join(","),
    ) };
    if causes.is_empty() {
        return vec![(format!("C12/state/inconsistent-with-lists/exp={:?},got={:?}", exp_state, obs.state), what)];
    }
    causes.into_iter().map(|c| (format!("C12/{clause}/{c}"), what.clone())).collect()
}

fn val_case(vrps: &[Vrp], route: &Pfx, d: &Deriv) -> String {
    format!(
        "val#{}#{}#{}",
        vrps.iter().map(|v| v.show()).collect::<Vec<_>>().join(","),
        route.show(),
        d.name
    )
}

/// Run the subject on one (VRP set, route, derivation) and evaluate the oracle.
fn eval_one(t: &RpkiTable, src: &Arc<Source>, vrps: &[Vrp], route: &Pfx, d: &Deriv, describe: bool) -> Vec<(String, String)> {
    let nlri = route.nlri();
    match catch(|| observe(t.validate(src, &nlri, &d.attrs))) {
        Ok(obs) => check_validation(vrps, route, d, &obs, describe),
        Err(msg) => vec![(
            format!("C12/panic/{}", bfs::panic_loc(&msg)),
            format!("validate panicked ({msg}) for route {} ({})", route.show(), d.name),
        )],
    }
}

// ---------------------------------------------------------------------------
// part (a): the sweep

/// relation of a VRP prefix to a route, for outcome classes
fn relation(v: &Pfx, r: &Pfx) -> u32 {
    if v.len == r.len && v.addr == r.addr {
        0 // exact
    } else if covers(v, r) {
        if v.octets() == r.octets() { 1 } else { 2 } // shorter, same / fewer key octets
    } else if covers(r, v) {
        if v.octets() == r.octets() { 3 } else { 4 } // more specific
    } else {
        5 // disjoint
    }
}

fn for_sets(n: usize, first: usize, max: usize, cur: &mut Vec<usize>, f: &mut dyn FnMut(&[usize])) {
    // all strictly increasing index tuples that start with `first`, size <= max
    cur.push(first);
    f(cur);
    if cur.len() < max {
        for nxt in first + 1..n {
            for_sets(n, nxt, max, cur, f);
        }
    }
    cur.pop();
}

fn n_sets(n: u64, max: usize) -> u64 {
    let mut total = 0u64;
    let mut c = 1u64; // C(n, k)
    for k in 0..=max as u64 {
        if k > 0 {
            c = c * (n - k + 1) / k;
        }
        total += c;
    }
    total
}

fn sweep(space: &Space, min_set: usize, max_set: usize, rep: &mut Report) {
    let t0 = std::time::Instant::now();
    let universe = space.vrps();
    let routes = space.prefixes();
    let derivs = derivations();
    // the enumeration is duplicate-free by construction; make that a checked fact
    let uniq: BTreeSet<Vrp> = universe.iter().copied().collect();
    let uniq_r: BTreeSet<Pfx> = routes.iter().copied().collect();
    if uniq.len() != universe.len() || uniq_r.len() != routes.len() {
        rep.machinery_error = Some(format!("{}: universe contains duplicates", space.name()));
        return;
    }
    let n = universe.len();
    let sets_total = AtomicU64::new(0);
    // per signature: count and the least witness in the order (set size, VRP indices, route, derivation)
    type Wit = (usize, Vec<usize>, usize, usize);
    let found: std::sync::Mutex<BTreeMap<String, (Wit, u64)>> = std::sync::Mutex::new(BTreeMap::new());
    fn keep_wit(m: &mut BTreeMap<String, (Wit, u64)>, sig: String, w: Wit, n: u64) {
        match m.get_mut(&sig) {
            Some((old, c)) => {
                *c += n;
                if w < *old {
                    *old = w;
                }
            }
            None => {
                m.insert(sig, (w, n));
            }
        }
    }
    let mut local = Report::new(&rep.property, &rep.part);
    // work item i < n: all sets whose smallest element is i; item n: the empty set
    enumr::par_range(n as u64 + 1, &mut local, |i, lr| {
        let src = speaker();
        let caches = [Arc::new(cache_addr(0)), Arc::new(cache_addr(1))];
        let mut classes: BTreeMap<u32, u64> = BTreeMap::new();
        let mut evals = 0u64;
        let mut nontrivial = 0u64;
        let mut nsets = 0u64;
        let mut viols: BTreeMap<String, (Wit, u64)> = BTreeMap::new();
        let mut body = |idx: &[usize]| {
            if idx.len() < min_set {
                return; // smaller sets are covered by another sweep
            }
            nsets += 1;
            let vrps: Vec<Vrp> = idx.iter().map(|&j| universe[j]).collect();
            let t = build_table(&vrps, &caches);
            for (ri, route) in routes.iter().enumerate() {
                let mut rel: Vec<u32> = vrps.iter().map(|v| relation(&v.pfx, route)).collect();
                rel.sort();
                let related = rel.iter().any(|&r| r != 5);
                let relbits = rel.iter().fold(1u32, |a, r| a * 8 + r);
                for (di, d) in derivs.iter().enumerate() {
                    evals += 1;
                    if related {
                        nontrivial += 1;
                    }
                    let out = eval_one(&t, &src, &vrps, route, d, false);
                    // outcome class: relations x derivation x primary expected state
                    let exp = match d.readings[0] {
                        Reading::Origin(o) => expect(&vrps, route, o),
                        Reading::NotValidated => unreachable!(),
                    };
                    let cls = (relbits << 8) | ((di as u32) << 4) | ((exp.state as u32) << 2) | (exp.matched.len().min(3) as u32);
                    *classes.entry(cls).or_insert(0) += 1;
                    for (sig, _) in out {
                        match viols.get_mut(&sig) {
                            // within one work item the cases come in increasing witness order
                            // except for the set size: compare properly
                            Some((w, c)) => {
                                *c += 1;
                                if (idx.len(), idx, ri, di) < (w.0, w.1.as_slice(), w.2, w.3) {
                                    *w = (idx.len(), idx.to_vec(), ri, di);
                                }
                            }
                            None => {
                                viols.insert(sig, ((idx.len(), idx.to_vec(), ri, di), 1));
                            }
                        }
                    }
                }
            }
        };
        if (i as usize) < n {
            let mut cur = Vec::new();
            for_sets(n, i as usize, max_set, &mut cur, &mut body);
        } else {
            body(&[]);
        }
        sets_total.fetch_add(nsets, Ordering::Relaxed);
        lr.evaluations += evals;
        lr.distinct_nontrivial += nontrivial;
        for (c, k) in classes {
            lr.add(&format!("oc:{c:x}"), k);
        }
        let mut g = found.lock().unwrap();
        for (sig, (w, k)) in viols {
            keep_wit(&mut g, sig, w, k);
        }
    });
    // render the kept witnesses
    {
        let src = speaker();
        let caches = [Arc::new(cache_addr(0)), Arc::new(cache_addr(1))];
        for (sig, ((_, idx, ri, di), count)) in found.into_inner().unwrap() {
            let vrps: Vec<Vrp> = idx.iter().map(|&j| universe[j]).collect();
            let t = build_table(&vrps, &caches);
            let out = eval_one(&t, &src, &vrps, &routes[ri], &derivs[di], true);
            let what = out.into_iter().find(|(s, _)| *s == sig).map(|(_, w)| w).unwrap_or_else(|| "witness did not reproduce".into());
            if what == "witness did not reproduce" {
                local.machinery_error = Some(format!("{}: witness of {sig} did not reproduce", space.name()));
            }
            let v = Violation { sig: sig.clone(), what, case: val_case(&vrps, &routes[ri], &derivs[di]) };
            local.violations.insert(sig, (v, count));
        }
    }
    // fold the outcome classes into counts
    let mut n_classes = 0u64;
    let mut by_state = [0u64; 3];
    let keys: Vec<String> = local.extra.keys().filter(|k| k.starts_with("oc:")).cloned().collect();
    for k in keys {
        let cnt = local.extra.remove(&k).unwrap();
        let c = u32::from_str_radix(&k[3..], 16).unwrap();
        n_classes += 1;
        by_state[((c >> 2) & 3) as usize] += cnt;
    }
    let sets = sets_total.load(Ordering::Relaxed);
    let expected_sets = n_sets(n as u64, max_set) - if min_set > 0 { n_sets(n as u64, min_set - 1) } else { 0 };
    if sets != expected_sets {
        rep.machinery_error = Some(format!("{}: enumerated {} sets, expected {}", space.name(), sets, expected_sets));
    }
    local.add("validation_outcome_classes", n_classes);
    local.add("expected_notfound", by_state[St::NotFound as usize]);
    local.add("expected_valid", by_state[St::Valid as usize]);
    local.add("expected_invalid", by_state[St::Invalid as usize]);
    let line = format!(
        "sweep {}: vrp universe={} routes={} derivations={} sets({}<=size<={})={} validations={} related={} outcome-classes={} expected NotFound/Valid/Invalid={}/{}/{} violations(sigs)={} wall={:.1}s",
        space.name(),
        n,
        routes.len(),
        derivs.len(),
        min_set,
        max_set,
        sets,
        local.evaluations,
        local.distinct_nontrivial,
        n_classes,
        by_state[0],
        by_state[1],
        by_state[2],
        local.violations.len(),
        t0.elapsed().as_secs_f64()
    );
    local.notes.push(line);
    rep.merge(local);
}

// ---------------------------------------------------------------------------
// part (b): maintenance BFS

#[derive(Clone, Copy, Debug)]
enum Op {
    Insert(u8, usize),
    Remove(u8, usize),
    /// per-cache reset inside a session: `drop_source` with the session's handle
    Reset(u8),
    /// session end + reconnect: `drop_source`, then a fresh `Arc<IpAddr>` for the cache
    Restart(u8),
}

struct Maint {
    ops: Vec<Op>,
    vrps: Vec<(Pfx, u8, u32)>,
    routes: Vec<Pfx>,
    derivs: Vec<Deriv>,
    src: Arc<Source>,
    /// states (transitions into them) in which state() deviates from GoBGP's counts — observation only
    count_deviation: AtomicU64,
    count_checked: AtomicU64,
    /// check results per (table content in trie/entry order, reference set, op kind).
    /// The check is a pure function of that key, so sharing results between the
    /// histories that pass through the same state changes nothing but the cost.
    memo: std::sync::RwLock<std::collections::HashMap<u128, Arc<Vec<(String, String)>>>>,
}

struct MSys {
    t: RpkiTable,
    arcs: [Arc<IpAddr>; 2],
    /// reference: set keyed by (cache, prefix, max-length, AS)
    model: BTreeSet<(u8, Pfx, u8, u32)>,
    broken: BTreeSet<String>,
}

fn maint_model() -> Maint {
    let p = |s: &str| Pfx::parse(s).unwrap();
    let vrps = vec![
        // A, B and E share the trie key; every pair of them differs in exactly one
        // or in both of (max-length, AS), so a comparison that ignores a key field shows
        (p("10.0.0.0/8"), 16, 65001),
        (p("10.0.0.0/8"), 24, 65002),
        // C: more specific of A/B/E
        (p("10.1.0.0/16"), 16, 65001),
        // D: the other family
        (p("2001:db8::/32"), 48, 65001),
        // E: max-length of A, AS of B
        (p("10.0.0.0/8"), 16, 65002),
    ];
    // every VRP can be announced by both caches (duplicates across caches)
    let mut pairs: Vec<(u8, usize)> = Vec::new();
    for c in 0..2u8 {
        for v in 0..vrps.len() {
            pairs.push((c, v));
        }
    }
    let mut ops = Vec::new();
    for &(c, v) in &pairs {
        ops.push(Op::Insert(c, v));
    }
    for &(c, v) in &pairs {
        ops.push(Op::Remove(c, v));
    }
    for c in 0..2u8 {
        ops.push(Op::Reset(c));
        ops.push(Op::Restart(c));
    }
    let keep = ["seq-65001", "seq-65002", "as-set-tail", "empty-path"];
    Maint {
        ops,
        vrps,
        routes: vec![
            p("10.0.0.0/8"),
            p("10.1.0.0/16"),
            p("10.1.0.0/24"),
            p("10.1.2.0/24"),
            p("10.1.2.0/25"),
            p("10.128.0.0/9"),
            p("11.0.0.0/8"),
            p("10.0.0.0/7"),
            p("2001:db8::/32"),
            p("2001:db8:1::/48"),
            p("2001:db8:1::/49"),
            p("2001:db8::/31"),
        ],
        derivs: derivations().into_iter().filter(|d| keep.contains(&d.name)).collect(),
        src: speaker(),
        count_deviation: AtomicU64::new(0),
        count_checked: AtomicU64::new(0),
        memo: Default::default(),
    }
}

impl Maint {
    /// iter() of both families as (family, cache, held by the live session handle, prefix, maxlen, as), trie order
    fn dump(&self, sys: &MSys) -> Vec<(u8, u8, bool, Pfx, u8, u32)> {
        let mut out = Vec::new();
        for (fi, fam) in [Family::IPV4, Family::IPV6].into_iter().enumerate() {
            for (net, roa) in sys.t.iter(fam) {
                let cache = (0..2u8).find(|c| cache_addr(*c) == *roa.source).unwrap_or(9);
                let live = cache < 2 && Arc::ptr_eq(&roa.source, &sys.arcs[cache as usize]);
                out.push((fi as u8, cache, live, Pfx::from_ipnet(&net), roa.max_length, roa.as_number));
            }
        }
        out
    }

    /// Returns (state() observations, of which deviating from GoBGP's counts).
    fn check(&self, sys: &MSys, kind: &str, cur: &mut Vec<(String, String)>) -> (u64, u64) {
        let (mut n_obs, mut n_dev) = (0u64, 0u64);
        // --- set semantics of iter()
        let dump = self.dump(sys);
        let mut seen: Vec<(u8, Pfx, u8, u32)> = dump.iter().map(|d| (d.1, d.3, d.4, d.5)).collect();
        seen.sort();
        let want: Vec<(u8, Pfx, u8, u32)> = sys.model.iter().copied().collect();
        let show = |v: &[(u8, Pfx, u8, u32)]| {
            v.iter().map(|x| format!("{}-{}:{}@c{}", x.1.show(), x.2, x.3, x.0 + 1)).collect::<Vec<_>>().join(", ")
        };
        let mut effects = BTreeSet::new();
        let mut dedup = seen.clone();
        dedup.dedup();
        if dedup.len() != seen.len() {
            effects.insert("vrp-duplicated");
        }
        if want.iter().any(|w| !dedup.contains(w)) {
            effects.insert("vrp-missing");
        }
        if dedup.iter().any(|s| !want.contains(s)) {
            effects.insert("vrp-extra");
        }
        if dump.iter().any(|d| !d.2) {
            effects.insert("vrp-of-ended-session-left");
        }
        for (fi, _) in [Family::IPV4, Family::IPV6].iter().enumerate() {
            // iter(family) must only yield prefixes of that family
            if dump.iter().any(|d| d.0 == fi as u8 && d.3.v6 != (fi == 1)) {
                effects.insert("vrp-in-wrong-family");
            }
        }
        for e in &effects {
            cur.push((
                format!("C12/set/{kind}/{e}"),
                format!("after {kind}: iter() = {{{}}}, reference set = {{{}}}", show(&seen), show(&want)),
            ));
        }
        if !effects.is_empty() {
            return (n_obs, n_dev); // everything below would only inherit the damage
        }
        // --- state(addr): the per-cache VRP count must be reported by one of the two counters
        for c in 0..2u8 {
            let st = sys.t.state(&cache_addr(c));
            for v6 in [false, true] {
                let mine: Vec<&(u8, Pfx, u8, u32)> = sys.model.iter().filter(|m| m.0 == c && m.1.v6 == v6).collect();
                let n_vrps = mine.len() as u32;
                let n_pfx = mine.iter().map(|m| m.1).collect::<BTreeSet<_>>().len() as u32;
                let (rec, pfx) = if v6 { (st.num_records_v6, st.num_prefixes_v6) } else { (st.num_records_v4, st.num_prefixes_v4) };
                if rec != n_vrps && pfx != n_vrps {
                    cur.push((
                        format!("C12/counts/{}", if v6 { "v6" } else { "v4" }),
                        format!(
                            "state(c{}) reports records={rec} prefixes={pfx}; the cache holds {n_vrps} VRPs on {n_pfx} prefixes — neither counter is the VRP count",
                            c + 1
                        ),
                    ));
                }
                n_obs += 1;
                // GoBGP: records = VRPs, prefixes = distinct prefixes (either naming accepted here)
                if !((rec == n_vrps && pfx == n_pfx) || (rec == n_pfx && pfx == n_vrps)) {
                    n_dev += 1;
                }
            }
        }
        // --- validation of a handful of routes against the reference set
        let vrps: Vec<Vrp> = sys.model.iter().map(|m| Vrp { cache: m.0, pfx: m.1, maxlen: m.2, asn: m.3 }).collect();
        // one report per signature and state (the first route/derivation showing it)
        let mut seen_sigs: BTreeSet<String> = cur.iter().map(|c| c.0.clone()).collect();
        for route in &self.routes {
            for d in &self.derivs {
                for (sig, what) in eval_one(&sys.t, &self.src, &vrps, route, d, false) {
                    if seen_sigs.insert(sig.clone()) {
                        let what = eval_one(&sys.t, &self.src, &vrps, route, d, true)
                            .into_iter()
                            .find(|x| x.0 == sig)
                            .map(|x| x.1)
                            .unwrap_or(what);
                        cur.push((sig, what));
                    }
                }
            }
        }
        (n_obs, n_dev)
    }
}

impl Model for Maint {
    type Sys = MSys;
    fn name(&self) -> String {
        "c12-maint".into()
    }
    fn n_ops(&self) -> usize {
        self.ops.len()
    }
    fn op_name(&self, op: usize) -> String {
        let v = |i: usize| format!("{}-{}:{}", self.vrps[i].0.show(), self.vrps[i].1, self.vrps[i].2);
        match self.ops[op] {
            Op::Insert(c, i) => format!("insert(c{},{})", c + 1, v(i)),
            Op::Remove(c, i) => format!("remove(c{},{})", c + 1, v(i)),
            Op::Reset(c) => format!("reset(c{})", c + 1),
            Op::Restart(c) => format!("restart(c{})", c + 1),
        }
    }
    fn init(&self) -> MSys {
        MSys {
            t: RpkiTable::new(),
            arcs: [Arc::new(cache_addr(0)), Arc::new(cache_addr(1))],
            model: BTreeSet::new(),
            broken: BTreeSet::new(),
        }
    }
    fn step(&self, sys: &mut MSys, op: usize, out: &mut Vec<(String, String)>) -> bool {
        if sys.broken.contains("set") {
            // table and reference have diverged (reported on the step that did it):
            // nothing meaningful can be checked behind this state
            return false;
        }
        let kind;
        match self.ops[op] {
            Op::Insert(c, i) => {
                let (p, ml, asn) = self.vrps[i];
                kind = if sys.model.contains(&(c, p, ml, asn)) { "insert-present" } else { "insert-new" };
                sys.t.insert(p.ipnet(), Arc::new(Roa::new(ml, asn, sys.arcs[c as usize].clone())));
                sys.model.insert((c, p, ml, asn));
            }
            Op::Remove(c, i) => {
                let (p, ml, asn) = self.vrps[i];
                kind = if sys.model.contains(&(c, p, ml, asn)) { "remove-present" } else { "remove-absent" };
                sys.t.remove(p.ipnet(), &Roa::new(ml, asn, sys.arcs[c as usize].clone()));
                sys.model.remove(&(c, p, ml, asn));
            }
            Op::Reset(c) => {
                kind = "reset";
                sys.t.drop_source(sys.arcs[c as usize].clone());
                sys.model.retain(|m| m.0 != c);
            }
            Op::Restart(c) => {
                kind = "restart";
                sys.t.drop_source(sys.arcs[c as usize].clone());
                sys.arcs[c as usize] = Arc::new(cache_addr(c));
                sys.model.retain(|m| m.0 != c);
            }
        }
        let key = bfs::hash128(format!("{:?}|{:?}|{kind}", self.dump(sys), sys.model).as_bytes());
        let cached = self.memo.read().unwrap().get(&key).cloned();
        let cur: Arc<Vec<(String, String)>> = match cached {
            Some(c) => c,
            None => {
                let mut cur = Vec::new();
                let (n_obs, n_dev) = self.check(sys, kind, &mut cur);
                let cur = Arc::new(cur);
                match self.memo.write().unwrap().entry(key) {
                    std::collections::hash_map::Entry::Occupied(e) => e.get().clone(),
                    std::collections::hash_map::Entry::Vacant(e) => {
                        // tallies are per distinct key, whichever thread gets here first
                        self.count_checked.fetch_add(n_obs, Ordering::Relaxed);
                        self.count_deviation.fetch_add(n_dev, Ordering::Relaxed);
                        e.insert(cur).clone()
                    }
                }
            }
        };
        // A clause is reported on the step that breaks it, not on later states that
        // inherit the damage.  Validation clauses are stateless (a function of the
        // table content): they are reported on the step after which they first show
        // and again only after they have disappeared in between.
        let mut now = BTreeSet::new();
        for (sig, what) in cur.iter() {
            let clause = sig.split('/').nth(1).unwrap_or("");
            let tag = if clause == "set" || clause == "counts" { clause.to_string() } else { sig.clone() };
            if !sys.broken.contains(&tag) && !now.contains(&tag) {
                out.push((sig.clone(), what.clone()));
            }
            now.insert(tag);
        }
        sys.broken = now;
        true
    }
    fn fingerprint(&self, sys: &MSys) -> Vec<u8> {
        // trie order and the order inside each entry are kept: they are real state
        format!("{:?}|{:?}|{:?}", self.dump(sys), sys.model, sys.broken).into_bytes()
    }
    fn observe(&self, sys: &MSys) -> u64 {
        let mut d = self.dump(sys);
        d.sort();
        bfs::hash128(format!("{d:?}").as_bytes()) as u64
    }
    fn panic_sig(&self, msg: &str) -> Option<(String, String)> {
        Some((format!("C12/panic/{}", bfs::panic_loc(msg)), format!("RPKI table maintenance panicked: {msg}")))
    }
}

// ---------------------------------------------------------------------------
// entry

fn replay_val(case: &str, rep: &mut Report) {
    let parts: Vec<&str> = case.split('#').collect();
    if parts.len() != 4 {
        rep.machinery_error = Some(format!("bad val case {case:?}"));
        return;
    }
    let vrps: Option<Vec<Vrp>> = if parts[1].is_empty() { Some(vec![]) } else { parts[1].split(',').map(Vrp::parse).collect() };
    let route = Pfx::parse(parts[2]);
    let derivs = derivations();
    let d = derivs.iter().find(|d| d.name == parts[3]);
    let (Some(vrps), Some(route), Some(d)) = (vrps, route, d) else {
        rep.machinery_error = Some(format!("cannot parse val case {case:?}"));
        return;
    };
    let caches = [Arc::new(cache_addr(0)), Arc::new(cache_addr(1))];
    let t = build_table(&vrps, &caches);
    let src = speaker();
    eprintln!("replay validation: VRPs {{{}}}", vrps.iter().map(|v| v.show()).collect::<Vec<_>>().join(", "));
    eprintln!("  route {} derivation {} (own AS {OWN_AS}) readings {:?}", route.show(), d.name, d.readings);
    match catch(|| observe(t.validate(&src, &route.nlri(), &d.attrs))) {
        Ok(obs) => {
            eprintln!("  observed: {obs:?}");
            for r in &d.readings {
                if let Reading::Origin(o) = r {
                    let e = expect(&vrps, &route, *o);
                    eprintln!(
                        "  oracle (origin {:?}): state {:?}, covering [{}], matched [{}]",
                        o,
                        e.state,
                        e.covering.iter().map(show_key).collect::<Vec<_>>().join(","),
                        e.matched.iter().map(show_key).collect::<Vec<_>>().join(",")
                    );
                } else {
                    eprintln!("  oracle (not validated): NotFound, empty lists");
                }
            }
        }
        Err(m) => eprintln!("  subject panicked: {m}"),
    }
    rep.evaluations = 1;
    for (sig, what) in eval_one(&t, &src, &vrps, &route, d, true) {
        eprintln!("  VIOLATION {sig}: {what}");
        rep.violation(Violation { sig, what, case: val_case(&vrps, &route, d) });
    }
}

pub fn run(replay: Option<&str>) -> Report {
    let mut rep = Report::new("C12", "hx-c12");
    let maint = maint_model();
    if let Some(case) = replay {
        if case.starts_with("val#") {
            replay_val(case, &mut rep);
            return rep;
        }
        let Some((name, hist)) = bfs::decode_case(case) else {
            rep.machinery_error = Some("bad replay case".into());
            return rep;
        };
        if name != maint.name() || hist.iter().any(|&o| o as usize >= maint.n_ops()) {
            rep.machinery_error = Some(format!("unknown model / op in {case:?}"));
            return rep;
        }
        eprintln!("replay {}", bfs::render(&maint, &hist));
        // only the violations of the last step belong to this case
        let vs: Vec<Violation> = bfs::replay(&maint, &hist, true);
        let full = bfs::encode_case(&maint, &hist);
        rep.evaluations = 1;
        rep.violations_from(vs.into_iter().filter(|v| v.case == full).collect());
        return rep;
    }

    let thorough = rep.thorough();
    let all = spaces_all(4);
    let spaces: Vec<Space> = if thorough { all } else { all.into_iter().take(2).collect() };
    rep.rule = format!(
        "(a) per embedded space (w=4 free bits at a bit offset of a real address): every VRP set of size <= 2 over \
         {{prefix of length offset..offset+w, every value}} x {{max-len in len..offset+w and the family maximum}} x AS {{0,65001,65002}} x 2 caches, \
         crossed with every route prefix of the space and {} origin derivations; {}every case is a distinct input by construction \
         (strictly increasing index tuples over a duplicate-free universe, checked); non-trivial = at least one VRP of the set covers, equals or is more specific than the route. \
         (b) BFS to fixpoint over insert/remove/reset/restart of 5 VRPs (three on one trie key) x 2 caches on a real RpkiTable; state = history, \
         fingerprint = iter() in trie/entry order + reference set; non-trivial = distinct canonical table state other than the empty one",
        derivations().len(),
        if thorough { "thorough adds all sets of size exactly 3 over w=3 spaces; " } else { "" },
    );
    for s in &spaces {
        sweep(s, 0, 2, &mut rep);
        if rep.machinery_error.is_some() {
            return rep;
        }
    }
    if thorough {
        for s in spaces_all(3).into_iter().take(2) {
            sweep(&s, 3, 3, &mut rep);
            if rep.machinery_error.is_some() {
                return rep;
            }
        }
    }
    // a few concrete cases written out
    {
        let s = &spaces[0];
        let u = s.vrps();
        let r = s.prefixes();
        let d = derivations();
        for (a, b, ri, di) in [(0usize, 7usize, 1usize, 0usize), (40, 300, 9, 6), (100, 527, 30, 8), (250, 251, 17, 1)] {
            if a < u.len() && b < u.len() && ri < r.len() && di < d.len() {
                rep.samples.push(val_case(&[u[a], u[b]], &r[ri], &d[di]));
            }
        }
    }

    // part (b)
    let cfg = BfsCfg { max_depth: 40, max_secs: if thorough { 1800 } else { 300 }, ..Default::default() };
    let st = bfs::bfs(&maint, &cfg, &mut rep);
    if !st.fixpoint {
        rep.exhaustive = false;
        rep.caps_hit.push("c12-maint: BFS did not reach the fixpoint".into());
    }
    rep.notes.push(format!(
        "c12-maint: state(addr) compared with GoBGP's (records = VRPs of the cache, prefixes = distinct prefixes, either naming) on {} (distinct table state, op kind, cache, family) observations: {} deviate — observation only, the statement does not fix these counters; asserted is only that one counter equals the cache's VRP count",
        maint.count_checked.load(Ordering::Relaxed),
        maint.count_deviation.load(Ordering::Relaxed)
    ));
    rep.add("state_count_observations", maint.count_checked.load(Ordering::Relaxed));
    rep.add("state_count_deviations_from_gobgp", maint.count_deviation.load(Ordering::Relaxed));
    rep.notes.push(format!(
        "assume: the validating speaker's own AS is Source::local_asn ({OWN_AS} here); routes of Source::local()/kernel() (local_asn 0) are not covered"
    ));
    rep.notes.push(
        "assume: AS_SET-terminated paths: RFC 6811 origin NONE (Invalid when covered) and GoBGP's NotFound are both accepted, Valid never; a route without AS_PATH attribute may be validated with the own AS or with NONE".into(),
    );
    rep.notes.push("assume: VRP and route prefixes are canonical (host bits zero) and VRP max-length >= prefix length".into());
    rep
}
