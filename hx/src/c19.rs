// C19 (packet level): every BMP message / MRT record produced by
// rustybgp_packet::bmp::BmpCodec, rustybgp_packet::mrt::MrtCodec and
// rustybgp_packet::mrt::encode_table_dump is well-formed and carries the
// intended BGP data.
//
// Bounded-exhaustive enumeration.  One case = one record: the harness builds the
// message value the daemon would hand to the codec (same constructors the daemon
// uses: PerPeerHeader::new / with_post_policy / with_peer_type, MpHeader::new with
// is_asn4 = true, TableDumpRecord), encodes it with a FRESH codec, and hands the
// bytes plus the intent to the shared oracle (c19_oracle.rs): independent
// structural reader (wire.rs, from the RFCs) + the repository's BGP parser for the
// embedded PDUs, configured from what the record states.
//
// Case descriptors (replayable, `hx c19 --replay <case>`):
//   bmp:rm:<fam>:<r|u|e>:<n>:<big>:<ap>:<attr>:<nh>:<peer 4|6>:<hdr>
//        fam = index into mkmsg::families(); n NLRI from mkmsg::nlri_bulk(fam,n,big);
//        ap = add-path 0|1; attr = s<bytes> (mkmsg::attr_block_of_size) | a<idx>
//        (mkmsg::attribute_sets); nh = index into mkmsg::nexthops(fam);
//        hdr = pre|post|out|outpost|loc
//   bmp:val:<fam>:<nlri idx>:<r|u>:<ap>      one named NLRI value (mkmsg::nlris_named)
//   bmp:peerup:<remote 4|6>:<local 4|6>:<sent open idx>:<received open idx>
//   bmp:peerdown:<peer 4|6>:<ln|rn>:<notification idx> | fsm:<code> | ru | dc
//   bmp:init:<idx>   bmp:term   bmp:obs:<stats|mirror>
//   mrt:mp:<remote 4|6>:<local 4|6>:<as idx>:<fam>:<r|u|e>:<n>:<big>:<ap>:<attr>:<nh>
//   mrt:msg:<remote>:<local>:<open|notif|keepalive>:<idx>
//   mrt:pit:<peer kinds, one char each of 4,6,w(v4 wide AS),x(v6 wide AS)>   ("-" = none)
//   mrt:rib:<4|6>:<prefix idx>:<entries, ','-separated <nh idx>.<attr>>       ("-" = none)

use crate::mkmsg;
use crate::vx::enumr;
use crate::vx::report::{catch, Report, Violation};
use crate::wire;
use bytes::BytesMut;
use rustybgp_packet::bgp::{Family, Message, Nexthop, Nlri, PathNlri};
use rustybgp_packet::{bmp, mrt};
use std::collections::BTreeSet;
use std::net::{IpAddr, Ipv4Addr};
use std::sync::{Arc, Mutex};
use tokio_util::codec::Encoder;

mod oracle {
    include!("c19_oracle.rs");
}
use oracle::{DownIntent, Finding, Kind, MpIntent, PeerHdrIntent, PeerIntent, RibEntryIntent, UpdateIntent};

fn v4peer() -> IpAddr {
    "192.0.2.2".parse().unwrap()
}
fn v6peer() -> IpAddr {
    "2001:db8::2".parse().unwrap()
}
fn v4local() -> IpAddr {
    "192.0.2.1".parse().unwrap()
}
fn v6local() -> IpAddr {
    "2001:db8::1".parse().unwrap()
}
fn addr(kind: &str, remote: bool) -> Result<IpAddr, String> {
    match (kind, remote) {
        ("4", true) => Ok(v4peer()),
        ("6", true) => Ok(v6peer()),
        ("4", false) => Ok(v4local()),
        ("6", false) => Ok(v6local()),
        _ => Err(format!("bad address kind {kind}")),
    }
}

const PEER_AS: u32 = 65002;
const PEER_ID: u32 = 0xc000_0202;
const LOCAL_AS: u32 = 65001;
const LOCAL_ID: u32 = 0xc000_0201;

fn to_violation(domain: &str, f: Finding, case: &str) -> Violation {
    let sig = if f.shape.is_empty() { format!("C19/{domain}/{}", f.clause) } else { format!("C19/{domain}/{}/{}", f.clause, f.shape) };
    Violation { sig, what: f.what, case: case.to_string() }
}

// ---------------------------------------------------------------------------
// intents from descriptors
// ---------------------------------------------------------------------------

fn attr_spec(spec: &str) -> Result<(Vec<rustybgp_packet::bgp::Attribute>, String), String> {
    if let Some(n) = spec.strip_prefix('s') {
        let n: usize = n.parse().map_err(|_| format!("bad attr spec {spec}"))?;
        let (a, got) = mkmsg::attr_block_of_size(n);
        let class = if got > 4096 { "size>4096" } else if got > 255 { "size<=4096" } else { "size<=255" };
        Ok((a, class.to_string()))
    } else if let Some(i) = spec.strip_prefix('a') {
        let i: usize = i.parse().map_err(|_| format!("bad attr spec {spec}"))?;
        let (name, set) = mkmsg::attribute_sets().get(i).cloned().ok_or("attr set index")?;
        Ok((set, name.split('#').next().unwrap_or("").to_string()))
    } else {
        Err(format!("bad attr spec {spec}"))
    }
}

fn kind_of(s: &str) -> Result<Kind, String> {
    match s {
        "r" => Ok(Kind::Reach),
        "u" => Ok(Kind::Unreach),
        "e" => Ok(Kind::Eor),
        _ => Err(format!("bad kind {s}")),
    }
}

#[allow(clippy::too_many_arguments)]
fn update_intent(fam: usize, kind: &str, n: usize, big: bool, ap: bool, attr: &str, nh: usize) -> Result<UpdateIntent, String> {
    let family = *mkmsg::families().get(fam).ok_or("family index")?;
    let kind = kind_of(kind)?;
    let (attrs, attr_class) = attr_spec(attr)?;
    let nexthop = mkmsg::nexthops(family).get(nh).ok_or("nexthop index")?.nexthop;
    let entries = if kind == Kind::Eor { vec![] } else { mkmsg::path_entries(&mkmsg::nlri_bulk(family, n, big), ap) };
    Ok(UpdateIntent { family, kind, entries, nexthop, attrs, addpath: ap, attr_class })
}

fn hdr_of(peer: &str, hdr: &str) -> Result<(bmp::PerPeerHeader, PeerHdrIntent), String> {
    let a = addr(peer, true)?;
    let id = Ipv4Addr::from(PEER_ID);
    let (h, it) = match hdr {
        "pre" => (bmp::PerPeerHeader::new(0, PEER_AS, id, 0, a, 7), PeerHdrIntent { peer_type: 0, flags: 0, addr: a, asn: PEER_AS, bgp_id: PEER_ID }),
        "post" => (
            bmp::PerPeerHeader::new(bmp::Message::PEER_FLAG_POST_POLICY, PEER_AS, id, 0, a, 7),
            PeerHdrIntent { peer_type: 0, flags: 0x40, addr: a, asn: PEER_AS, bgp_id: PEER_ID },
        ),
        // the snapshot path builds post-policy headers with with_post_policy()
        "post2" => (bmp::PerPeerHeader::new(0, PEER_AS, id, 0, a, 7).with_post_policy(), PeerHdrIntent { peer_type: 0, flags: 0x40, addr: a, asn: PEER_AS, bgp_id: PEER_ID }),
        "out" => (
            bmp::PerPeerHeader::new(bmp::Message::PEER_FLAG_ADJ_RIB_OUT, PEER_AS, id, 0, a, 7),
            PeerHdrIntent { peer_type: 0, flags: 0x10, addr: a, asn: PEER_AS, bgp_id: PEER_ID },
        ),
        "outpost" => (
            bmp::PerPeerHeader::new(bmp::Message::PEER_FLAG_ADJ_RIB_OUT | bmp::Message::PEER_FLAG_POST_POLICY, PEER_AS, id, 0, a, 7),
            PeerHdrIntent { peer_type: 0, flags: 0x50, addr: a, asn: PEER_AS, bgp_id: PEER_ID },
        ),
        // RFC 9069: Loc-RIB instance peer, address zero, local AS / id (daemon: loc_rib_to_bmp)
        "loc" => (
            bmp::PerPeerHeader::new(0, LOCAL_AS, Ipv4Addr::from(LOCAL_ID), 0, IpAddr::V4(Ipv4Addr::UNSPECIFIED), 7).with_peer_type(bmp::Message::PEER_TYPE_LOC_RIB),
            PeerHdrIntent { peer_type: 3, flags: 0, addr: IpAddr::V4(Ipv4Addr::UNSPECIFIED), asn: LOCAL_AS, bgp_id: LOCAL_ID },
        ),
        _ => return Err(format!("bad header kind {hdr}")),
    };
    Ok((h, it))
}

fn bmp_encode(m: &bmp::Message) -> Result<Vec<u8>, String> {
    let mut b = BytesMut::new();
    let mut c = bmp::BmpCodec::new();
    match catch(|| c.encode(m, &mut b)) {
        Err(p) => Err(format!("panic: {p}")),
        Ok(Err(e)) => Err(format!("error: {e}")),
        Ok(Ok(())) => Ok(b.to_vec()),
    }
}

fn mrt_encode(m: &mrt::Message) -> Result<Vec<u8>, String> {
    let mut b = BytesMut::new();
    let mut c = mrt::MrtCodec::new();
    match catch(|| c.encode(m, &mut b)) {
        Err(p) => Err(format!("panic: {p}")),
        Ok(Err(e)) => Err(format!("error: {e}")),
        Ok(Ok(())) => Ok(b.to_vec()),
    }
}

fn dump_encode(r: &mrt::TableDumpRecord) -> Result<Vec<u8>, String> {
    let mut b = BytesMut::new();
    match catch(|| mrt::encode_table_dump(7, r, &mut b)) {
        Err(p) => Err(format!("panic: {p}")),
        Ok(Err(e)) => Err(format!("error: {e}")),
        Ok(Ok(())) => Ok(b.to_vec()),
    }
}

struct Outcome {
    vs: Vec<Violation>,
    /// the record (for distinct counting); MRT: without the wall-clock timestamp
    bytes: Vec<u8>,
    /// observation for records the daemon never emits (not a verdict)
    obs: Option<String>,
}

fn done(domain: &str, fs: Vec<Finding>, bytes: Vec<u8>, case: &str) -> Outcome {
    Outcome { vs: fs.into_iter().map(|f| to_violation(domain, f, case)).collect(), bytes, obs: None }
}

/// A BGP4MP record for a session whose two ends have different address families
/// has no valid encoding (one AFI field for both addresses, RFC 6396 §4.4.2) and the
/// daemon never asks for one (both addresses come from the same TCP socket; the
/// local / kernel pseudo-sources are 0.0.0.0 on both sides): what the encoder does
/// with such input is recorded as an observation, not as a verdict.
fn mixed_to_obs(ra: IpAddr, la: IpAddr, mut o: Outcome) -> Outcome {
    if ra.is_ipv6() != la.is_ipv6() {
        if let Some(v) = o.vs.first() {
            let fam = |a: IpAddr| if a.is_ipv6() { "v6" } else { "v4" };
            o.obs = Some(format!(
                "obs: BGP4MP with remote {} / local {} addresses (no valid encoding exists; not producible by the daemon): the encoder omits the local address -> an RFC reader reports {}",
                fam(ra), fam(la), v.sig
            ));
        }
        o.vs.clear();
    }
    o
}

fn encode_failed(domain: &str, what: &str, e: String, case: &str) -> Outcome {
    Outcome { vs: vec![Violation { sig: format!("C19/{domain}/encode-fails/{what}"), what: format!("the encoder did not produce a record: {e}"), case: case.to_string() }], bytes: vec![], obs: None }
}

fn as_pair(i: usize) -> Result<(u32, u32), String> {
    // (remote AS, local AS): 2-byte values; values that need 4 bytes
    [(PEER_AS, LOCAL_AS), (4_200_000_000u32, 65536u32)].get(i).copied().ok_or("as pair index".to_string())
}

fn pit_peers(spec: &str) -> Result<Vec<(mrt::PeerEntry, PeerIntent)>, String> {
    let mut out = Vec::new();
    if spec == "-" {
        return Ok(out);
    }
    for (i, ch) in spec.chars().enumerate() {
        let (a, asn): (IpAddr, u32) = match ch {
            '4' => (format!("192.0.2.{}", 10 + i).parse().unwrap(), 65010 + i as u32),
            '6' => (format!("2001:db8::{:x}", 10 + i).parse().unwrap(), 65010 + i as u32),
            'w' => (format!("192.0.2.{}", 10 + i).parse().unwrap(), 4_200_000_000 + i as u32),
            'x' => (format!("2001:db8::{:x}", 10 + i).parse().unwrap(), 4_200_000_000 + i as u32),
            _ => return Err(format!("bad peer kind {ch}")),
        };
        let id = 0x0a00_0001u32 + i as u32;
        out.push((mrt::PeerEntry { bgp_id: Ipv4Addr::from(id), addr: a, asn }, PeerIntent { bgp_id: id, addr: a, asn }));
    }
    Ok(out)
}

/// next-hop menu of a TABLE_DUMP_V2 entry
fn rib_nh(v6: bool, i: usize) -> Result<Option<Nexthop>, String> {
    let m: Vec<Option<Nexthop>> = if v6 {
        vec![Some(mkmsg::nh_v6()), Some(mkmsg::nh_v6_ll()), Some(mkmsg::nh_v4_mapped())]
    } else {
        // IPv4 prefix: IPv4 next hop; RFC 8950 sessions deliver IPv6 next hops for IPv4 prefixes
        vec![Some(mkmsg::nh_v4()), Some(mkmsg::nh_v6()), Some(mkmsg::nh_v6_ll())]
    };
    m.get(i).copied().ok_or("rib nexthop index".to_string())
}
const RIB_ATTRS: [&str; 4] = ["s13", "s300", "a0", "aT"]; // aT = "typical" set (resolved below)

fn rib_attr(spec: &str) -> Result<(Vec<rustybgp_packet::bgp::Attribute>, String), String> {
    if spec == "aT" {
        let sets = mkmsg::attribute_sets();
        let (n, s) = sets.iter().find(|(n, _)| n == "all-kinds").cloned().ok_or("all-kinds set")?;
        return Ok((s, n));
    }
    attr_spec(spec)
}

fn eval_case(case: &str) -> Result<Outcome, String> {
    let p: Vec<&str> = case.split(':').collect();
    let num = |i: usize| -> Result<usize, String> { p.get(i).and_then(|s| s.parse().ok()).ok_or(format!("bad case {case}")) };
    let s = |i: usize| -> Result<&str, String> { p.get(i).copied().ok_or(format!("bad case {case}")) };
    match (s(0)?, s(1)?) {
        ("bmp", "rm") => {
            let it = update_intent(num(2)?, s(3)?, num(4)?, num(5)? == 1, num(6)? == 1, s(7)?, num(8)?)?;
            let (h, hi) = hdr_of(s(9)?, s(10)?)?;
            let m = bmp::Message::RouteMonitoring { header: h, update: it.to_message(), addpath: it.addpath };
            match bmp_encode(&m) {
                Err(e) => Ok(encode_failed("bmp", &format!("route-monitoring:{}", it.shape()), e, case)),
                Ok(b) => Ok(done("bmp", oracle::check_route_monitoring(&b, &hi, &it), b, case)),
            }
        }
        ("bmp", "val") => {
            let family = *mkmsg::families().get(num(2)?).ok_or("family index")?;
            let (_, n) = mkmsg::nlris_named(family).get(num(3)?).cloned().ok_or("nlri index")?;
            let ap = num(5)? == 1;
            let it = UpdateIntent {
                family,
                kind: kind_of(s(4)?)?,
                entries: mkmsg::path_entries(&[n], ap),
                nexthop: mkmsg::default_nexthop(family),
                attrs: mkmsg::base_attrs(),
                addpath: ap,
                attr_class: "base".into(),
            };
            let (h, hi) = hdr_of("4", "pre")?;
            let m = bmp::Message::RouteMonitoring { header: h, update: it.to_message(), addpath: ap };
            match bmp_encode(&m) {
                Err(e) => Ok(encode_failed("bmp", &format!("route-monitoring:{}", it.shape()), e, case)),
                Ok(b) => Ok(done("bmp", oracle::check_route_monitoring(&b, &hi, &it), b, case)),
            }
        }
        ("bmp", "peerup") => {
            let (ra, la) = (addr(s(2)?, true)?, addr(s(3)?, false)?);
            let opens = mkmsg::opens();
            let (so, ro) = (opens.get(num(4)?).ok_or("open index")?.1.clone(), opens.get(num(5)?).ok_or("open index")?.1.clone());
            let (Message::Open(sent), Message::Open(recv)) = (&so, &ro) else { return Err("opens".into()) };
            let h = bmp::PerPeerHeader::new(0, recv.as_number, Ipv4Addr::from(recv.router_id), 0, ra, 7);
            let hi = PeerHdrIntent { peer_type: 0, flags: 0, addr: ra, asn: recv.as_number, bgp_id: recv.router_id };
            let m = bmp::Message::PeerUp { header: h, local_addr: la, local_port: 179, remote_port: 40000, local_open: so.clone(), remote_open: ro.clone() };
            match bmp_encode(&m) {
                Err(e) => Ok(encode_failed("bmp", "peer-up", e, case)),
                Ok(b) => Ok(done("bmp", oracle::check_peer_up(&b, &hi, la, 179, 40000, sent, recv), b, case)),
            }
        }
        ("bmp", "peerdown") => {
            let ra = addr(s(2)?, true)?;
            let h = bmp::PerPeerHeader::new(0, PEER_AS, Ipv4Addr::from(PEER_ID), 0, ra, 7);
            let hi = PeerHdrIntent { peer_type: 0, flags: 0, addr: ra, asn: PEER_AS, bgp_id: PEER_ID };
            let notif = |i: usize| -> Result<(Message, rustybgp_packet::bgp::Notification), String> {
                let m = mkmsg::notifications().get(i).ok_or("notification index")?.1.clone();
                let Message::Notification(n) = m.clone() else { return Err("notification".into()) };
                Ok((m, n))
            };
            let (reason, it) = match s(3)? {
                "ln" => {
                    let (m, n) = notif(num(4)?)?;
                    (bmp::PeerDownReason::LocalNotification(m), DownIntent::LocalNotification(n))
                }
                "rn" => {
                    let (m, n) = notif(num(4)?)?;
                    (bmp::PeerDownReason::RemoteNotification(m), DownIntent::RemoteNotification(n))
                }
                "fsm" => (bmp::PeerDownReason::LocalFsm(num(4)? as u16), DownIntent::LocalFsm(num(4)? as u16)),
                "ru" => (bmp::PeerDownReason::RemoteUnexpected, DownIntent::RemoteUnexpected),
                "dc" => (bmp::PeerDownReason::Deconfigured, DownIntent::Deconfigured),
                x => return Err(format!("bad reason {x}")),
            };
            let m = bmp::Message::PeerDown { header: h, reason };
            match bmp_encode(&m) {
                Err(e) => Ok(encode_failed("bmp", "peer-down", e, case)),
                Ok(b) => Ok(done("bmp", oracle::check_peer_down(&b, &hi, &it), b, case)),
            }
        }
        ("bmp", "init") => {
            let tlvs = init_lists().get(num(2)?).cloned().ok_or("init index")?;
            match bmp_encode(&bmp::Message::Initiation(tlvs.clone())) {
                Err(e) => Ok(encode_failed("bmp", "initiation", e, case)),
                Ok(b) => Ok(done("bmp", oracle::check_initiation(&b, &tlvs), b, case)),
            }
        }
        ("bmp", "term") => match bmp_encode(&bmp::Message::Termination) {
            Err(e) => Ok(encode_failed("bmp", "termination", e, case)),
            Ok(b) => {
                let fs = match oracle::bmp_read(&b) {
                    Err(f) => vec![f],
                    Ok(m) if !matches!(m.body, wire::BmpBody::Termination { .. }) => vec![Finding { clause: "wrong-message-type".into(), shape: "termination".into(), what: "Termination intended".into() }],
                    Ok(_) => vec![],
                };
                Ok(done("bmp", fs, b, case))
            }
        },
        ("bmp", "obs") => {
            // message kinds the daemon never emits (no payload in the API): observation only
            let m = if s(2)? == "stats" { bmp::Message::StatsReports } else { bmp::Message::RouteMirroring };
            let b = bmp_encode(&m)?;
            let o = match oracle::bmp_read(&b) {
                Ok(_) => format!("obs: BmpCodec output for {} ({} bytes) is readable", s(2)?, b.len()),
                Err(f) => format!("obs: BmpCodec output for the payload-less {} variant is not a valid message ({}: {}); the daemon never emits it", s(2)?, f.clause, f.what),
            };
            Ok(Outcome { vs: vec![], bytes: b, obs: Some(o) })
        }
        ("mrt", "mp") => {
            let (ra, la) = (addr(s(2)?, true)?, addr(s(3)?, false)?);
            let (ras, las) = as_pair(num(4)?)?;
            let it = update_intent(num(5)?, s(6)?, num(7)?, num(8)? == 1, num(9)? == 1, s(10)?, num(11)?)?;
            // the daemon's adj_rib_in_to_mrt: MpHeader::new(remote_asn, local_asn, 0, remote_addr, local_addr, true)
            let h = mrt::MpHeader::new(ras, las, 0, ra, la, true);
            let m = mrt::Message::Mp { header: h, body: it.to_message(), addpath: it.addpath };
            let mp = MpIntent { remote_as: ras, local_as: las, remote_addr: ra, local_addr: la };
            match mrt_encode(&m) {
                Err(e) => Ok(encode_failed("mrt", &format!("bgp4mp:{}", it.shape()), e, case)),
                Ok(b) => Ok(mixed_to_obs(ra, la, done("mrt", oracle::check_bgp4mp(&b, &mp, Some(&it), None), b[4.min(b.len())..].to_vec(), case))),
            }
        }
        ("mrt", "msg") => {
            let (ra, la) = (addr(s(2)?, true)?, addr(s(3)?, false)?);
            let body = match s(4)? {
                "open" => mkmsg::opens().get(num(5)?).ok_or("open index")?.1.clone(),
                "notif" => mkmsg::notifications().get(num(5)?).ok_or("notification index")?.1.clone(),
                "keepalive" => mkmsg::keepalive(),
                x => return Err(format!("bad message kind {x}")),
            };
            let h = mrt::MpHeader::new(PEER_AS, LOCAL_AS, 0, ra, la, true);
            let m = mrt::Message::Mp { header: h, body: body.clone(), addpath: false };
            let mp = MpIntent { remote_as: PEER_AS, local_as: LOCAL_AS, remote_addr: ra, local_addr: la };
            match mrt_encode(&m) {
                Err(e) => Ok(encode_failed("mrt", "bgp4mp:other", e, case)),
                Ok(b) => Ok(mixed_to_obs(ra, la, done("mrt", oracle::check_bgp4mp(&b, &mp, None, Some(&body)), b[4.min(b.len())..].to_vec(), case))),
            }
        }
        ("mrt", "pit") => {
            let peers = pit_peers(s(2)?)?;
            let (ents, ints): (Vec<_>, Vec<_>) = peers.into_iter().unzip();
            let r = mrt::TableDumpRecord::PeerIndexTable { router_id: Ipv4Addr::from(LOCAL_ID), peers: ents };
            match dump_encode(&r) {
                Err(e) => Ok(encode_failed("mrt", "peer-index-table", e, case)),
                Ok(b) => Ok(done("mrt", oracle::check_peer_index_table(&b, LOCAL_ID, &ints).0, b, case)),
            }
        }
        ("mrt", "rib") => {
            let v6 = s(2)? == "6";
            let family = if v6 { Family::IPV6 } else { Family::IPV4 };
            let (_, prefix) = mkmsg::nlris_named(family).get(num(3)?).cloned().ok_or("prefix index")?;
            let mut ents = Vec::new();
            let mut ints = Vec::new();
            if s(4)? != "-" {
                for (i, e) in s(4)?.split(',').enumerate() {
                    let (nhi, a) = e.split_once('.').ok_or("entry spec")?;
                    let nh = rib_nh(v6, nhi.parse().map_err(|_| "entry nh")?)?;
                    let (attrs, class) = rib_attr(a)?;
                    ents.push(mrt::RibEntry { peer_index: i as u16, originated: 7, nexthop: nh, attrs: Arc::new(attrs.clone()) });
                    ints.push(RibEntryIntent { peer_index: i as u16, nexthop: nh, attrs, attr_class: class });
                }
            }
            let r = if v6 {
                mrt::TableDumpRecord::RibIpv6Unicast { seq: 5, prefix: prefix.clone(), entries: ents }
            } else {
                mrt::TableDumpRecord::RibIpv4Unicast { seq: 5, prefix: prefix.clone(), entries: ents }
            };
            match dump_encode(&r) {
                Err(e) => Ok(encode_failed("mrt", "rib", e, case)),
                Ok(b) => Ok(done("mrt", oracle::check_rib(&b, 5, &prefix, &ints, Some(3)), b, case)),
            }
        }
        _ => Err(format!("unknown case {case}")),
    }
}

fn init_lists() -> Vec<Vec<(u16, Vec<u8>)>> {
    vec![
        vec![],
        vec![(bmp::Message::INFO_TYPE_SYSNAME, b"rtr1".to_vec())],
        vec![(bmp::Message::INFO_TYPE_SYSDESCR, b"RustyBGP v0.0.0-abcdef".to_vec()), (bmp::Message::INFO_TYPE_SYSNAME, b"rtr1".to_vec())],
        vec![(0, b"free-form string".to_vec()), (bmp::Message::INFO_TYPE_SYSNAME, vec![])],
        vec![(bmp::Message::INFO_TYPE_SYSDESCR, vec![b'x'; 255]), (bmp::Message::INFO_TYPE_SYSNAME, vec![b'y'; 256])],
        vec![(bmp::Message::INFO_TYPE_SYSDESCR, vec![b'x'; 5000])],
    ]
}

// ---------------------------------------------------------------------------
// enumeration
// ---------------------------------------------------------------------------

struct Group {
    name: &'static str,
    cases: Vec<String>,
}

fn groups(thorough: bool) -> Vec<Group> {
    let fams = mkmsg::families();
    let ns: Vec<usize> = if thorough { vec![1, 2, 3, 50, 200, 400, 800, 1200, 3000] } else { vec![1, 3, 200, 1200] };
    let attrs: Vec<&str> = if thorough {
        vec!["s13", "s16", "s300", "s2000", "s4000", "s4066", "s4097", "s5000", "s9000", "s30000", "s65000"]
    } else {
        vec!["s13", "s300", "s4066", "s4097", "s9000"]
    };
    let hdrs: Vec<(&str, &str)> = if thorough {
        vec![("4", "pre"), ("6", "pre"), ("4", "post"), ("6", "post"), ("4", "post2"), ("6", "post2"), ("4", "out"), ("6", "out"), ("4", "outpost"), ("6", "outpost"), ("4", "loc")]
    } else {
        vec![("4", "pre"), ("6", "post"), ("6", "post2"), ("4", "out"), ("6", "outpost"), ("4", "loc")]
    };
    // bodies: (kind, n, big, ap, attr, nh)
    let bodies = |fi: usize, f: Family| -> Vec<String> {
        let mut v = Vec::new();
        let nnh = mkmsg::nexthops(f).len();
        for ap in 0..2 {
            for &n in &ns {
                for big in 0..2 {
                    for a in &attrs {
                        for nh in 0..nnh {
                            // attribute size and next hop only matter together with few NLRI:
                            // cross everything for n <= 3, otherwise the base block with every next hop
                            // and every block with the first next hop
                            if n > 3 && *a != "s13" && nh != 0 {
                                continue;
                            }
                            v.push(format!("{fi}:r:{n}:{big}:{ap}:{a}:{nh}"));
                        }
                    }
                    v.push(format!("{fi}:u:{n}:{big}:{ap}:s13:0"));
                }
            }
            v.push(format!("{fi}:e:0:0:{ap}:s13:0"));
        }
        v
    };
    let mut rm = Vec::new();
    let mut mp = Vec::new();
    for (fi, f) in fams.iter().enumerate() {
        for b in bodies(fi, *f) {
            for (peer, hdr) in &hdrs {
                rm.push(format!("bmp:rm:{b}:{peer}:{hdr}"));
            }
            let parts: Vec<&str> = b.split(':').collect();
            let small = parts[2].parse::<usize>().unwrap_or(0) <= 3 && parts[5] == "s13";
            for (ra, la) in [("4", "4"), ("6", "6"), ("4", "6"), ("6", "4")] {
                // mixed address families and the wide-AS pair: with the small bodies only
                // (they do not interact with the embedded UPDATE)
                if (ra != la) && !small {
                    continue;
                }
                for asp in 0..2 {
                    if asp == 1 && !small {
                        continue;
                    }
                    mp.push(format!("mrt:mp:{ra}:{la}:{asp}:{b}"));
                }
            }
        }
    }
    // attribute-size boundary of the embedded 4096-byte codec: one NLRI, every size
    let mut boundary = Vec::new();
    for (fi, _) in fams.iter().enumerate() {
        for size in 3980..=4100usize {
            for ap in 0..2 {
                boundary.push(format!("bmp:rm:{fi}:r:1:0:{ap}:s{size}:0:4:pre"));
                if thorough {
                    boundary.push(format!("mrt:mp:4:4:0:{fi}:r:1:0:{ap}:s{size}:0"));
                }
            }
        }
    }
    // named values and attribute kinds
    let mut vals = Vec::new();
    for (fi, f) in fams.iter().enumerate() {
        for i in 0..mkmsg::nlris_named(*f).len() {
            for k in ["r", "u"] {
                for ap in 0..2 {
                    vals.push(format!("bmp:val:{fi}:{i}:{k}:{ap}"));
                }
            }
        }
    }
    let mut attrsets = Vec::new();
    let nsets = mkmsg::attribute_sets().len();
    for fi in [0usize, 1, 7, 8] {
        for i in 0..nsets {
            attrsets.push(format!("bmp:rm:{fi}:r:1:1:0:a{i}:0:4:pre"));
            attrsets.push(format!("mrt:mp:4:4:0:{fi}:r:1:1:0:a{i}:0"));
        }
    }
    // Peer Up / Peer Down / Initiation / Termination
    let nopen = mkmsg::opens().len();
    let mut peerup = Vec::new();
    for (ra, la) in [("4", "4"), ("6", "6"), ("4", "6"), ("6", "4")] {
        for s in 0..nopen {
            for r in 0..nopen {
                if !thorough && ra != la && s != r {
                    continue;
                }
                peerup.push(format!("bmp:peerup:{ra}:{la}:{s}:{r}"));
            }
        }
    }
    let mut peerdown = Vec::new();
    for ra in ["4", "6"] {
        for i in 0..mkmsg::notifications().len() {
            peerdown.push(format!("bmp:peerdown:{ra}:ln:{i}"));
            peerdown.push(format!("bmp:peerdown:{ra}:rn:{i}"));
        }
        for c in [0, 1, 2, 6, 28, 65535] {
            peerdown.push(format!("bmp:peerdown:{ra}:fsm:{c}"));
        }
        peerdown.push(format!("bmp:peerdown:{ra}:ru"));
        peerdown.push(format!("bmp:peerdown:{ra}:dc"));
    }
    let mut misc: Vec<String> = (0..init_lists().len()).map(|i| format!("bmp:init:{i}")).collect();
    misc.push("bmp:term".into());
    misc.push("bmp:obs:stats".into());
    misc.push("bmp:obs:mirror".into());
    // BGP4MP with other BGP messages
    let mut mrtmsg = Vec::new();
    for (ra, la) in [("4", "4"), ("6", "6"), ("4", "6"), ("6", "4")] {
        for i in 0..nopen {
            mrtmsg.push(format!("mrt:msg:{ra}:{la}:open:{i}"));
        }
        for i in 0..mkmsg::notifications().len() {
            mrtmsg.push(format!("mrt:msg:{ra}:{la}:notif:{i}"));
        }
        mrtmsg.push(format!("mrt:msg:{ra}:{la}:keepalive:0"));
    }
    // PEER_INDEX_TABLE: 0..3 peers, each v4 / v6 x 2-byte-range / 4-byte-range AS
    let mut pit = vec!["mrt:pit:-".to_string()];
    let kinds = ['4', '6', 'w', 'x'];
    for n in 1..=3usize {
        for i in 0..kinds.len().pow(n as u32) {
            let d = enumr::digits(i as u64, &vec![kinds.len(); n]);
            pit.push(format!("mrt:pit:{}", d.iter().map(|x| kinds[*x]).collect::<String>()));
        }
    }
    // RIB records: 0..3 entries, each (next-hop kind x attribute block)
    let mut rib = Vec::new();
    for v in ["4", "6"] {
        let family = if v == "6" { Family::IPV6 } else { Family::IPV4 };
        let menu: Vec<String> = (0..3).flat_map(|nh| RIB_ATTRS.iter().map(move |a| format!("{nh}.{a}"))).collect();
        for pi in 0..mkmsg::nlris_named(family).len() {
            rib.push(format!("mrt:rib:{v}:{pi}:-"));
            for n in 1..=3usize {
                if !thorough && n == 3 && pi > 1 {
                    continue;
                }
                for i in 0..menu.len().pow(n as u32) {
                    let d = enumr::digits(i as u64, &vec![menu.len(); n]);
                    rib.push(format!("mrt:rib:{v}:{pi}:{}", d.iter().map(|x| menu[*x].clone()).collect::<Vec<_>>().join(",")));
                }
            }
        }
    }
    vec![
        Group { name: "bmp route-monitoring (family x reach/unreach/eor x NLRI count x size x add-path x attribute block x next hop x peer/header kind)", cases: rm },
        Group { name: "bmp/mrt attribute-size boundary 3980..4100, one NLRI", cases: boundary },
        Group { name: "bmp named NLRI values (incl. label stacks)", cases: vals },
        Group { name: "bmp/mrt attribute kinds (mkmsg::attribute_sets)", cases: attrsets },
        Group { name: "bmp peer-up (address family combinations x sent OPEN x received OPEN)", cases: peerup },
        Group { name: "bmp peer-down (reasons x NOTIFICATIONs)", cases: peerdown },
        Group { name: "bmp initiation / termination / payload-less variants", cases: misc },
        Group { name: "mrt bgp4mp UPDATE (address combinations x AS width x bodies)", cases: mp },
        Group { name: "mrt bgp4mp other messages", cases: mrtmsg },
        Group { name: "mrt peer-index-table (0..3 peers)", cases: pit },
        Group { name: "mrt rib records (0..3 entries)", cases: rib },
    ]
}

fn fnv(b: &[u8]) -> u64 {
    let mut h: u64 = 0xcbf29ce484222325;
    for x in b {
        h ^= *x as u64;
        h = h.wrapping_mul(0x100000001b3);
    }
    h
}

pub fn run(replay: Option<&str>) -> Report {
    let mut rep = Report::new("C19", "hx-c19");
    rep.rule = "one case = one record built the way the daemon builds it and encoded by a fresh BmpCodec / MrtCodec / encode_table_dump; \
        the bytes are read by the independent RFC reader (wire.rs) and the embedded PDUs by the repository's BGP parser configured from what the record states, \
        then compared with the intent (length, V flag / AFI vs addresses, one PDU per record, NLRI multiset, next hop, attributes, OPENs, peer-index / entry counts); \
        distinct = distinct record byte strings (MRT without the wall-clock timestamp)"
        .to_string();
    if let Some(case) = replay {
        match eval_case(case) {
            Ok(o) => {
                for v in &o.vs {
                    eprintln!("replay: {} :: {}", v.sig, v.what);
                }
                if let Some(ob) = &o.obs {
                    eprintln!("replay: {ob}");
                }
                eprintln!("replay: record ({} bytes{}): {}", o.bytes.len(), if case.starts_with("mrt:m") { ", without the 4-byte timestamp" } else { "" }, oracle::hexs(&o.bytes));
                if o.vs.is_empty() {
                    eprintln!("replay: case {case}: record of {} bytes satisfies every clause", o.bytes.len());
                }
                rep.evaluations = 1;
                rep.violations_from(o.vs);
            }
            Err(e) => rep.machinery_error = Some(e),
        }
        return rep;
    }
    let thorough = rep.thorough();
    let distinct: Mutex<BTreeSet<u64>> = Mutex::new(BTreeSet::new());
    let obs: Mutex<std::collections::BTreeMap<String, u64>> = Mutex::new(std::collections::BTreeMap::new());
    let mach: Mutex<Option<String>> = Mutex::new(None);
    for g in groups(thorough) {
        let cases = &g.cases;
        let mut sub = Report::new("C19", "hx-c19");
        enumr::par_range(cases.len() as u64, &mut sub, |i, local| {
            let case = &cases[i as usize];
            match eval_case(case) {
                Err(e) => {
                    let mut m = mach.lock().unwrap();
                    if m.is_none() {
                        *m = Some(format!("{case}: {e}"));
                    }
                }
                Ok(o) => {
                    local.evaluations += 1;
                    if o.vs.is_empty() {
                        local.add("ok", 1);
                    }
                    if !o.bytes.is_empty() {
                        let h = fnv(&o.bytes);
                        let mut d = distinct.lock().unwrap();
                        d.insert(h);
                    }
                    if let Some(ob) = o.obs {
                        *obs.lock().unwrap().entry(ob).or_insert(0) += 1;
                    }
                    local.sample(i, || case.clone());
                    local.violations_from(o.vs);
                }
            }
        });
        let ok = sub.extra.get("ok").copied().unwrap_or(0);
        rep.notes.push(format!("{}: {} cases, {} satisfy every clause, {} violation signature(s)", g.name, sub.evaluations, ok, sub.violations.len()));
        sub.extra.clear();
        sub.notes.clear();
        rep.merge(sub);
    }
    for (o, n) in obs.into_inner().unwrap() {
        rep.notes.push(format!("{o} (x{n})"));
    }
    if let Some(m) = mach.into_inner().unwrap() {
        rep.machinery_error = Some(m);
    }
    rep.distinct_nontrivial = distinct.into_inner().unwrap().len() as u64;
    rep.notes.push("assume: MpHeader is always built with is_asn4 = true and the add-path flag of BmpCodec / MrtCodec equals the negotiated add-path receive state of the monitored session (what the daemon passes)".into());
    rep.notes.push("assume: OPENs whose capabilities need more than 255 bytes of optional parameters (RFC 9072) are outside the enumerated OPEN space: the code can neither send nor receive them".into());
    rep.exhaustive = true;
    rep
}

#[allow(dead_code)]
fn unused(_: Nlri, _: PathNlri) {}
