// Small colliding universes shared by the table-level harnesses.

use rustybgp_packet::bgp::{Ipv4Net, Ipv6Net, Nexthop};
use rustybgp_packet::{Attribute, Family, Nlri};
use rustybgp_table::{PeerRole, Source};
use std::net::{IpAddr, Ipv4Addr, Ipv6Addr};
use std::sync::Arc;

pub const LOCAL_AS: u32 = 65000;

pub fn v4(a: u8, b: u8, c: u8, d: u8, mask: u8) -> Nlri {
    Nlri::V4(Ipv4Net { addr: Ipv4Addr::new(a, b, c, d), mask })
}

pub fn v6(hi: u16, mask: u8) -> Nlri {
    Nlri::V6(Ipv6Net { addr: Ipv6Addr::new(0x2001, 0xdb8, hi, 0, 0, 0, 0, 0), mask })
}

pub fn nh4(d: u8) -> Option<Nexthop> {
    Some(Nexthop::V4(Ipv4Addr::new(192, 0, 2, d)))
}

pub fn peer_addr(n: u8) -> IpAddr {
    IpAddr::V4(Ipv4Addr::new(10, 0, 0, n))
}

pub fn source(n: u8, role: PeerRole, router_id: u32) -> Arc<Source> {
    let remote_as = match role {
        PeerRole::Ebgp | PeerRole::RsClient => 65000 + n as u32,
        PeerRole::ConfedEbgp => 64512 + n as u32,
        _ => LOCAL_AS,
    };
    Arc::new(Source::new(
        peer_addr(n),
        IpAddr::V4(Ipv4Addr::new(10, 0, 0, 254)),
        remote_as,
        LOCAL_AS,
        Ipv4Addr::from(router_id),
        role,
    ))
}

pub fn origin(v: u32) -> Attribute {
    Attribute::new_with_value(Attribute::ORIGIN, v).unwrap()
}
pub fn local_pref(v: u32) -> Attribute {
    Attribute::new_with_value(Attribute::LOCAL_PREF, v).unwrap()
}
pub fn med(v: u32) -> Attribute {
    Attribute::new_with_value(Attribute::MULTI_EXIT_DESC, v).unwrap()
}
pub fn originator(v: u32) -> Attribute {
    Attribute::new_with_value(Attribute::ORIGINATOR_ID, v).unwrap()
}
pub fn cluster_list(ids: &[u32]) -> Attribute {
    let mut b = Vec::new();
    for i in ids {
        b.extend_from_slice(&i.to_be_bytes());
    }
    Attribute::new_with_bin(Attribute::CLUSTER_LIST, b).unwrap()
}
pub fn communities(cs: &[u32]) -> Attribute {
    let mut b = Vec::new();
    for i in cs {
        b.extend_from_slice(&i.to_be_bytes());
    }
    Attribute::new_with_bin(Attribute::COMMUNITY, b).unwrap()
}
pub const LLGR_STALE: u32 = 0xffff_0006;
pub const NO_LLGR: u32 = 0xffff_0007;

/// AS_PATH from segments (type, ASNs).
pub fn as_path(segs: &[(u8, Vec<u32>)]) -> Attribute {
    let mut b = Vec::new();
    for (t, asns) in segs {
        // a segment holds at most 255 ASNs on the wire
        for chunk in asns.chunks(255) {
            b.push(*t);
            b.push(chunk.len() as u8);
            for a in chunk {
                b.extend_from_slice(&a.to_be_bytes());
            }
        }
        if asns.is_empty() {
            b.push(*t);
            b.push(0);
        }
    }
    Attribute::new_with_bin(Attribute::AS_PATH, b).unwrap()
}

pub fn seq(n: usize) -> Attribute {
    as_path(&[(Attribute::AS_PATH_TYPE_SEQ, (0..n).map(|i| 65100 + (i as u32 % 50)).collect())])
}

pub fn attr_bytes(attrs: &[Attribute]) -> Vec<u8> {
    let mut b = Vec::new();
    for a in attrs {
        b.extend_from_slice(&a.encode_to_bytes());
        b.push(0xfe);
    }
    b
}

pub fn family_of(n: &Nlri) -> Family {
    match n {
        Nlri::V4(_) => Family::IPV4,
        Nlri::V6(_) => Family::IPV6,
        _ => Family::EMPTY,
    }
}
