// C05 harness -- a malformed UPDATE never installs a route; the session resets
// only if it must.
//
// Technique: bounded-exhaustive enumeration.  Hand-built valid UPDATE frames
// (3 shapes x 2 attribute orders x AS width {2,4}, every attribute kind present)
// are corrupted by every entry of a corruption menu (quick: single corruptions,
// thorough: all pairs on distinct attributes), and each corrupted frame is fed to
// the real receive path  PeerCodec::try_parse -> validate_message(parsed, is_ebgp)
// for the four peer roles.
//
// Oracle: an INDEPENDENT RFC 4271 / RFC 7606 reference receiver (`reference`)
// re-reads the final bytes (it never looks at how they were produced, and never
// calls the subject) and states what a conforming receiver may do:
//   * structural  : NLRI cannot be located / parsed -> a reset is acceptable and
//                   the withdraw clauses are not evaluated ("relaxed");
//   * hard faults : malformed / wrong flags / unknown well-known / missing
//                   mandatory -> treat-as-withdraw is REQUIRED;
//   * disc faults : optional non-transitive (by code or wire flags), AS4_*,
//                   iBGP-only attributes from an external peer, and (RFC 7606
//                   7.6/7.7) ATOMIC_AGGREGATE / AGGREGATOR -> either
//                   treat-as-withdraw or "kept without that attribute".
// Clauses (signature classes):
//   faulty-attr-believed, not-treated-as-withdraw, missing-mandatory-accepted,
//   withdrawal-lost, needless-reset, ibgp-only-attr-believed, panic.
// Signature = C05/<clause>/<attr>:<fault class>[(<detail>)] where the fault class is
// the reference's classification of the final bytes ("length", "length=0", "flags",
// "value", "segment-length-0", "tlv", "header-truncated-2-left", ...), so that every
// corruption exposing the same unchecked condition shares one signature; the stored
// witness is the smallest case (valid base < single corruption < pair).  A pair
// inherits the signature of the single corruption that already shows the finding
// (see `signature`); only an interaction-only finding names both faults.
// Deliberately permissive readings (never alarmed): partial bit on any attribute;
// NEXT_HOP 0.0.0.0 (RFC 7606 7.3 defines malformed by length only); NEXT_HOP in
// an UPDATE without legacy NLRI (RFC 4760 3: ignore); content of PREFIX_SID / LS /
// TUNNEL_ENCAP; duplicates of non-MP attributes (first kept or withdraw); reset
// OR treat-as-withdraw when an attribute length overruns the block; reset OR
// treat-as-withdraw for MP_REACH / MP_UNREACH with wrong flags.
//
// Only super::vx, super::mkmsg, super::wire are referenced (so the module can be
// included into the daemon's test build for the end-to-end replay).
// Reusable API: `corpus(quick)`, `reference`, `observe_messages`, `judge`.

// `super::` (not `crate::`) so that the file also compiles when `include!`d into a module of the
// daemon crate next to local `vx` / `mkmsg` / `wire` modules (hd/ev_c05.rs); in hx `super` is the crate root.
use super::mkmsg::{self, PairDesc};
use super::vx::enumr;
use super::vx::report::{catch, hex, unhex, Report, Violation};
use super::wire;
use rustybgp_packet::bgp::{self as pbgp, Attribute, Family, Message, Nlri, Update};
use std::collections::{BTreeMap, BTreeSet, HashSet};
use std::sync::{Mutex, OnceLock};

// ===========================================================================
// Roles
// ===========================================================================

#[derive(Clone, Copy, Debug, PartialEq, Eq, PartialOrd, Ord, Hash)]
pub enum Role {
    Ebgp,
    RsClient,
    Ibgp,
    ConfedEbgp,
}

pub const ROLES: [Role; 4] = [Role::Ebgp, Role::RsClient, Role::Ibgp, Role::ConfedEbgp];

impl Role {
    pub fn name(self) -> &'static str {
        match self {
            Role::Ebgp => "Ebgp",
            Role::RsClient => "RsClient",
            Role::Ibgp => "Ibgp",
            Role::ConfedEbgp => "ConfedEbgp",
        }
    }
    pub fn parse(s: &str) -> Option<Role> {
        ROLES.iter().copied().find(|r| r.name() == s)
    }
    /// RFC 4271 1.1 "external peer": a peer in a different AS that is not a member
    /// of the same confederation (RFC 5065 5.1 keeps LOCAL_PREF between member
    /// ASes).  A route-server client is an eBGP neighbour (RFC 7947 2).
    pub fn external(self) -> bool {
        matches!(self, Role::Ebgp | Role::RsClient)
    }
    /// The `is_ebgp` argument the daemon passes to `validate_message` for a peer
    /// of this role (see `daemon_is_ebgp_roles`).
    pub fn daemon_is_ebgp(self) -> bool {
        daemon_is_ebgp_roles().0.contains(&self)
    }
}

/// The set of roles for which the daemon computes `is_ebgp == true`, read from
/// the statement `let is_ebgp = matches!(self.export_ctx.role, ...)` in
/// daemon/src/event/mod.rs so that the mirror follows the source.  Falls back to
/// {Ebgp} (the expression at the time of writing) when the line is not found.
pub fn daemon_is_ebgp_roles() -> &'static (Vec<Role>, String) {
    static CELL: OnceLock<(Vec<Role>, String)> = OnceLock::new();
    CELL.get_or_init(|| {
        let repo = std::env::var("VERIF_REPO").unwrap_or_else(|_| "/repo".into());
        let path = format!("{repo}/daemon/src/event/mod.rs");
        let fallback = |why: &str| (vec![Role::Ebgp], format!("fallback {{Ebgp}} ({why})"));
        let Ok(src) = std::fs::read_to_string(&path) else { return fallback("source not readable") };
        let Some(pos) = src.find("let is_ebgp") else { return fallback("`let is_ebgp` not found") };
        let stmt: String = src[pos..].chars().take_while(|c| *c != ';').collect();
        if !stmt.contains("matches!") {
            return fallback("expression is not a matches!()");
        }
        let negated = stmt.contains("!matches!");
        let mut named = Vec::new();
        for (tok, r) in [
            ("PeerRole::Ebgp", Role::Ebgp),
            ("PeerRole::RsClient", Role::RsClient),
            ("PeerRole::IbgpRrClient", Role::Ibgp),
            ("PeerRole::Ibgp", Role::Ibgp),
            ("PeerRole::ConfedEbgp", Role::ConfedEbgp),
        ] {
            // "PeerRole::Ibgp" is a prefix of "PeerRole::IbgpRrClient": require a non-identifier char after
            let mut from = 0;
            while let Some(i) = stmt[from..].find(tok) {
                let end = from + i + tok.len();
                let next = stmt[end..].chars().next();
                if !next.is_some_and(|c| c.is_alphanumeric() || c == '_') && !named.contains(&r) {
                    named.push(r);
                }
                from = end;
            }
        }
        if named.is_empty() {
            return fallback("no PeerRole named");
        }
        let set: Vec<Role> = ROLES.iter().copied().filter(|r| named.contains(r) != negated).collect();
        (set, format!("{path}: `{}`", stmt.split_whitespace().collect::<Vec<_>>().join(" ")))
    })
}

// ===========================================================================
// Message model (generator side)
// ===========================================================================

#[derive(Clone, Debug)]
struct Item {
    name: &'static str,
    flags: u8,
    code: u8,
    /// encode with the extended-length bit and a 2-byte length
    ext: bool,
    value: Vec<u8>,
    /// a second, different, valid value (for duplicates)
    alt: Vec<u8>,
    /// raw override of the length field (value bytes unchanged)
    len_raw: Option<usize>,
}

impl Item {
    fn hdr_len(&self) -> usize {
        if self.ext { 4 } else { 3 }
    }
    fn bytes(&self) -> Vec<u8> {
        let mut o = vec![self.flags | if self.ext { 0x10 } else { 0 }, self.code];
        let l = self.len_raw.unwrap_or(self.value.len());
        if self.ext {
            o.extend_from_slice(&(l as u16).to_be_bytes());
        } else {
            o.push(l as u8);
        }
        o.extend_from_slice(&self.value);
        o
    }
}

#[derive(Clone, Debug)]
struct Msg {
    withdrawn: Vec<u8>,
    items: Vec<Item>,
    nlri: Vec<u8>,
    wlen_raw: Option<usize>,
    /// truncate the attribute block to this many bytes (bytes removed)
    cut: Option<usize>,
    /// raw override of the total path attribute length field
    tal_raw: Option<usize>,
}

impl Msg {
    fn block(&self) -> Vec<u8> {
        let mut b = Vec::new();
        for it in &self.items {
            b.extend_from_slice(&it.bytes());
        }
        b
    }
    /// offset of item `name` inside the block
    fn offset_of(&self, name: &str) -> Option<(usize, &Item)> {
        let mut off = 0;
        for it in &self.items {
            if it.name == name {
                return Some((off, it));
            }
            off += it.bytes().len();
        }
        None
    }
    fn frame(&self) -> Vec<u8> {
        let mut block = self.block();
        if let Some(p) = self.cut {
            block.truncate(p);
        }
        let tal = self.tal_raw.unwrap_or(block.len());
        let wlen = self.wlen_raw.unwrap_or(self.withdrawn.len());
        let mut body = Vec::new();
        body.extend_from_slice(&(wlen as u16).to_be_bytes());
        body.extend_from_slice(&self.withdrawn);
        body.extend_from_slice(&(tal as u16).to_be_bytes());
        body.extend_from_slice(&block);
        body.extend_from_slice(&self.nlri);
        let mut f = vec![0xffu8; 16];
        f.extend_from_slice(&((19 + body.len()) as u16).to_be_bytes());
        f.push(2);
        f.extend_from_slice(&body);
        f
    }
}

#[derive(Clone, Copy, Debug, PartialEq, Eq)]
enum Shape {
    Legacy,
    Mp,
    Mixed,
}
const SHAPES: [Shape; 3] = [Shape::Legacy, Shape::Mp, Shape::Mixed];
impl Shape {
    fn name(self) -> &'static str {
        match self {
            Shape::Legacy => "legacy",
            Shape::Mp => "mp",
            Shape::Mixed => "mixed",
        }
    }
}

fn as_bytes(asn: u32, two_byte: bool) -> Vec<u8> {
    if two_byte { (asn as u16).to_be_bytes().to_vec() } else { asn.to_be_bytes().to_vec() }
}

fn seg(t: u8, asns: &[u32], two_byte: bool) -> Vec<u8> {
    let mut v = vec![t, asns.len() as u8];
    for a in asns {
        v.extend_from_slice(&as_bytes(*a, two_byte));
    }
    v
}

fn mk_body(name: &str, idx: usize) -> Vec<u8> {
    mkmsg::attr_kinds()
        .into_iter()
        .find(|(n, _)| *n == name)
        .and_then(|(_, v)| v.get(idx).and_then(|a| a.binary().cloned()))
        .unwrap_or_default()
}

const WIDE: u32 = 4_200_000_000;
const AS_TRANS: u32 = 23456;

/// All attribute kinds, valid, for a session of the given AS width; ascending
/// type code.  (RFC section numbers: 4271 5.1.x, 1997, 4456, 4760, 4360, 6793,
/// 9012, 7311, 9552, 8092, 8669.)
fn all_items(two_byte: bool) -> Vec<Item> {
    let it = |name, flags, code, value: Vec<u8>, alt: Vec<u8>| Item { name, flags, code, ext: false, value, alt, len_raw: None };
    let second_as = if two_byte { AS_TRANS } else { WIDE };
    let mut agg = as_bytes(second_as, two_byte);
    agg.extend_from_slice(&[192, 0, 2, 2]);
    let mut agg_alt = as_bytes(65009, two_byte);
    agg_alt.extend_from_slice(&[192, 0, 2, 99]);
    let nh6: std::net::Ipv6Addr = "2001:db8::1".parse().unwrap();
    let mut mp_reach = vec![0, 2, 1, 16];
    mp_reach.extend_from_slice(&nh6.octets());
    mp_reach.push(0);
    mp_reach.extend_from_slice(&[0x30, 0x20, 0x01, 0x0d, 0xb8, 0x00, 0x01]);
    mp_reach.extend_from_slice(&[0x40, 0x20, 0x01, 0x0d, 0xb8, 0x00, 0x02, 0x00, 0x00]);
    let mut mp_reach_alt = vec![0, 2, 1, 16];
    mp_reach_alt.extend_from_slice(&nh6.octets());
    mp_reach_alt.push(0);
    mp_reach_alt.extend_from_slice(&[0x30, 0x20, 0x01, 0x0d, 0xb8, 0x00, 0xaa]);
    let mp_unreach = vec![0, 2, 1, 0x30, 0x20, 0x01, 0x0d, 0xb8, 0x00, 0x09];
    let mp_unreach_alt = vec![0, 2, 1, 0x30, 0x20, 0x01, 0x0d, 0xb8, 0x00, 0xbb];
    let mut as4_agg = WIDE.to_be_bytes().to_vec();
    as4_agg.extend_from_slice(&[192, 0, 2, 2]);
    let mut as4_agg_alt = (WIDE + 1).to_be_bytes().to_vec();
    as4_agg_alt.extend_from_slice(&[192, 0, 2, 99]);
    let mut large = it(
        "large_community",
        0xc0,
        32,
        [65001u32, 1, 2, 65001, 3, 4].iter().flat_map(|v| v.to_be_bytes()).collect(),
        [65001u32, 9, 9].iter().flat_map(|v| v.to_be_bytes()).collect(),
    );
    large.ext = true; // legal: extended length with a short body (RFC 4271 4.3)
    vec![
        it("origin", 0x40, 1, vec![0], vec![2]),
        it("as_path", 0x40, 2, seg(2, &[65001, second_as], two_byte), seg(2, &[64999], two_byte)),
        it("next_hop", 0x40, 3, vec![192, 0, 2, 1], vec![192, 0, 2, 99]),
        it("med", 0x80, 4, vec![0, 0, 0, 100], vec![0, 0, 0, 7]),
        it("local_pref", 0x40, 5, vec![0, 0, 0, 200], vec![0, 0, 0, 9]),
        it("atomic_aggregate", 0x40, 6, vec![], vec![]),
        it("aggregator", 0xc0, 7, agg, agg_alt),
        it("community", 0xc0, 8, vec![0xfd, 0xe9, 0, 100, 0xfd, 0xe9, 0, 200], vec![0xfd, 0xe9, 0xff, 0xff]),
        it("originator_id", 0x80, 9, vec![192, 0, 2, 9], vec![10, 0, 0, 1]),
        it("cluster_list", 0x80, 10, vec![192, 0, 2, 10, 10, 10, 10, 10], vec![1, 1, 1, 1]),
        it("mp_reach", 0x80, 14, mp_reach, mp_reach_alt),
        it("mp_unreach", 0x80, 15, mp_unreach, mp_unreach_alt),
        it(
            "ext_community",
            0xc0,
            16,
            vec![0x00, 0x02, 0xfd, 0xe9, 0, 0, 0, 100, 0x01, 0x02, 192, 0, 2, 1, 0, 7],
            vec![0x00, 0x02, 0xfd, 0xe9, 0, 0, 0, 99],
        ),
        it("as4_path", 0xc0, 17, seg(2, &[65001, WIDE], false), seg(2, &[64998], false)),
        it("as4_aggregator", 0xc0, 18, as4_agg, as4_agg_alt),
        it("tunnel_encap", 0xc0, 23, mk_body("tunnel_encap", 0), mk_body("tunnel_encap", 1)),
        it("aigp", 0x80, 26, vec![1, 0, 11, 0, 0, 0, 0, 0, 0, 0, 100], vec![1, 0, 11, 0, 0, 0, 0, 0, 0, 0, 7]),
        it("ls", 0x80, 29, mk_body("ls", 2), mk_body("ls", 0)),
        large,
        it("prefix_sid", 0xc0, 40, mk_body("prefix_sid", 0), mk_body("prefix_sid", 1)),
        it("unknown_transitive", 0xc0, mkmsg::CODE_UNKNOWN_TRANSITIVE, vec![1, 2, 3], vec![9]),
        it("unknown_nontransitive", 0x80, mkmsg::CODE_UNKNOWN_NONTRANSITIVE, vec![9, 9], vec![7]),
    ]
}

fn base_msg(shape: Shape, reversed: bool, two_byte: bool) -> Msg {
    let mut items: Vec<Item> = all_items(two_byte)
        .into_iter()
        .filter(|i| match shape {
            Shape::Legacy => i.code != 14 && i.code != 15,
            Shape::Mp => i.code != 3,
            Shape::Mixed => true,
        })
        .collect();
    if reversed {
        items.reverse();
    }
    let legacy = shape != Shape::Mp;
    Msg {
        // 10.9.0.0/16, 10.9.1.0/24
        withdrawn: if legacy { vec![16, 10, 9, 24, 10, 9, 1] } else { vec![] },
        items,
        // 192.0.2.0/24, 198.51.100.128/25, 10.0.0.0/8
        nlri: if legacy { vec![24, 192, 0, 2, 25, 198, 51, 100, 128, 8, 10] } else { vec![] },
        wlen_raw: None,
        cut: None,
        tal_raw: None,
    }
}

fn attr_name(code: u8) -> String {
    match code {
        1 => "origin".into(),
        2 => "as_path".into(),
        3 => "next_hop".into(),
        4 => "med".into(),
        5 => "local_pref".into(),
        6 => "atomic_aggregate".into(),
        7 => "aggregator".into(),
        8 => "community".into(),
        9 => "originator_id".into(),
        10 => "cluster_list".into(),
        14 => "mp_reach".into(),
        15 => "mp_unreach".into(),
        16 => "ext_community".into(),
        17 => "as4_path".into(),
        18 => "as4_aggregator".into(),
        23 => "tunnel_encap".into(),
        26 => "aigp".into(),
        29 => "ls".into(),
        32 => "large_community".into(),
        40 => "prefix_sid".into(),
        c if c == mkmsg::CODE_UNKNOWN_TRANSITIVE => "unknown_transitive".into(),
        c if c == mkmsg::CODE_UNKNOWN_NONTRANSITIVE => "unknown_nontransitive".into(),
        c => format!("code{c}"),
    }
}

// ===========================================================================
// Corruption menu
// ===========================================================================

#[derive(Clone, Copy, Debug, PartialEq, Eq)]
enum Off {
    /// at the attribute boundary in front of the item
    Before,
    /// after the flags byte
    P1,
    /// after the type byte
    P2,
    /// after the header (value missing)
    Hdr,
    /// one byte into the value
    Hdr1,
}
impl Off {
    fn name(self) -> &'static str {
        match self {
            Off::Before => "before",
            Off::P1 => "flags|",
            Off::P2 => "type|",
            Off::Hdr => "hdr|",
            Off::Hdr1 => "hdr+1|",
        }
    }
}

#[derive(Clone, Copy, Debug, PartialEq, Eq)]
enum TalP {
    One,
    AllNlri,
    PastEnd,
}

#[derive(Clone, Debug, PartialEq)]
enum Op {
    /// length field += d, value untouched (framing of the rest shifts)
    LenRaw(i32),
    LenRawZero,
    /// value resized by d (truncated / zero byte appended), length consistent
    LenCons(i32),
    LenConsZero,
    Flag(u8),
    Value(Vec<u8>),
    /// a second copy with a different valid value appended at the end of the block
    DupDiff,
    /// an identical copy right behind the original
    DupAdj,
    Omit,
    /// unknown code 99 with well-known flags (0x40), at the start / end of the block
    AddUnkWk(bool),
    /// bytes of the block removed from this position, total attribute length consistent
    Cut(&'static str, Off),
    /// total attribute length shortened to this position, bytes left in place (they become NLRI)
    TalShort(&'static str, Off),
    TalPlus(TalP),
    Wlen(i32),
}

#[derive(Clone, Debug)]
struct Corr {
    /// item name or "block"
    target: &'static str,
    id: String,
    op: Op,
}

fn pos_in(msg: &Msg, name: &str, off: Off) -> Option<usize> {
    let (o, it) = msg.offset_of(name)?;
    let total = it.bytes().len();
    let p = match off {
        Off::Before => 0,
        Off::P1 => 1,
        Off::P2 => 2,
        Off::Hdr => it.hdr_len(),
        Off::Hdr1 => it.hdr_len() + 1,
    };
    // a position at or behind the end of the item is the next boundary: not "mid-attribute"
    if off != Off::Before && p >= total {
        return None;
    }
    Some(o + p)
}

/// Apply one corruption; false = not applicable to this message.
fn apply(msg: &mut Msg, c: &Corr) -> bool {
    let idx = msg.items.iter().position(|i| i.name == c.target);
    match &c.op {
        Op::LenRaw(d) => {
            let Some(i) = idx else { return false };
            let l = msg.items[i].value.len() as i32 + d;
            if l < 0 || (!msg.items[i].ext && l > 255) {
                return false;
            }
            msg.items[i].len_raw = Some(l as usize);
        }
        Op::LenRawZero => {
            let Some(i) = idx else { return false };
            if msg.items[i].value.is_empty() {
                return false;
            }
            msg.items[i].len_raw = Some(0);
        }
        Op::LenCons(d) => {
            let Some(i) = idx else { return false };
            let v = &mut msg.items[i].value;
            if *d < 0 {
                if v.is_empty() {
                    return false;
                }
                v.pop();
            } else {
                v.push(0);
            }
        }
        Op::LenConsZero => {
            let Some(i) = idx else { return false };
            if msg.items[i].value.is_empty() {
                return false;
            }
            msg.items[i].value.clear();
        }
        Op::Flag(b) => {
            let Some(i) = idx else { return false };
            msg.items[i].flags ^= b;
        }
        Op::Value(v) => {
            let Some(i) = idx else { return false };
            if msg.items[i].value == *v {
                return false;
            }
            msg.items[i].value = v.clone();
        }
        Op::DupDiff => {
            let Some(i) = idx else { return false };
            let mut d = msg.items[i].clone();
            d.value = d.alt.clone();
            d.name = "(dup)";
            d.len_raw = None;
            msg.items.push(d);
        }
        Op::DupAdj => {
            let Some(i) = idx else { return false };
            let mut d = msg.items[i].clone();
            d.name = "(dup)";
            msg.items.insert(i + 1, d);
        }
        Op::Omit => {
            let Some(i) = idx else { return false };
            msg.items.remove(i);
        }
        Op::AddUnkWk(first) => {
            let it = Item { name: "(unknown-wk)", flags: 0x40, code: 99, ext: false, value: vec![7], alt: vec![], len_raw: None };
            if *first {
                msg.items.insert(0, it);
            } else {
                msg.items.push(it);
            }
        }
        Op::Cut(name, off) => {
            let Some(p) = pos_in(msg, name, *off) else { return false };
            if msg.cut.is_some() || msg.tal_raw.is_some() {
                return false;
            }
            msg.cut = Some(p);
        }
        Op::TalShort(name, off) => {
            let Some(p) = pos_in(msg, name, *off) else { return false };
            if msg.cut.is_some() || msg.tal_raw.is_some() {
                return false;
            }
            msg.tal_raw = Some(p);
        }
        Op::TalPlus(k) => {
            if msg.cut.is_some() || msg.tal_raw.is_some() {
                return false;
            }
            let bl = msg.block().len();
            let d = match k {
                TalP::One => 1,
                TalP::AllNlri => msg.nlri.len(),
                TalP::PastEnd => msg.nlri.len() + 1,
            };
            if *k == TalP::AllNlri && d <= 1 {
                return false;
            }
            msg.tal_raw = Some(bl + d);
        }
        Op::Wlen(d) => {
            let l = msg.withdrawn.len() as i32 + d;
            if l < 0 {
                return false;
            }
            msg.wlen_raw = Some(l as usize);
        }
    }
    true
}

/// The corruption menu of a base message (ids are stable names).
fn menu(base: &Msg, two_byte: bool) -> Vec<Corr> {
    let mut m: Vec<Corr> = Vec::new();
    let w = if two_byte { 2usize } else { 4 };
    for it in &base.items {
        let t = it.name;
        let mut add = |id: &str, op: Op| m.push(Corr { target: t, id: format!("{t}:{id}"), op });
        add("len-1raw", Op::LenRaw(-1));
        add("len+1raw", Op::LenRaw(1));
        add("len=0raw", Op::LenRawZero);
        add("len-1", Op::LenCons(-1));
        add("len+1", Op::LenCons(1));
        add("len=0", Op::LenConsZero);
        add("flags^optional", Op::Flag(0x80));
        add("flags^transitive", Op::Flag(0x40));
        add("flags^partial", Op::Flag(0x20));
        // both class bits at once: a well-known attribute arrives as optional non-transitive (0x80) and vice versa
        add("flags^optional+transitive", Op::Flag(0xc0));
        add("dup", Op::DupDiff);
        add("dup-adjacent", Op::DupAdj);
        if matches!(it.code, 1 | 2 | 3) {
            add("omitted", Op::Omit);
        }
        let v = &it.value;
        let with = |f: &dyn Fn(&mut Vec<u8>)| {
            let mut x = v.clone();
            f(&mut x);
            x
        };
        match it.code {
            1 => {
                add("value=3", Op::Value(vec![3]));
                add("value=255", Op::Value(vec![255]));
            }
            2 | 17 => {
                add("segtype=0", Op::Value(with(&|x| x[0] = 0)));
                add("segtype=5", Op::Value(with(&|x| x[0] = 5)));
                add("count+1", Op::Value(with(&|x| x[1] += 1)));
                add("count-1", Op::Value(with(&|x| x[1] -= 1)));
                add("count=0", Op::Value(with(&|x| x[1] = 0)));
                add("zero-length-segment", Op::Value(with(&|x| x.extend_from_slice(&[2, 0]))));
                add("truncated-segment", Op::Value(with(&|x| x.extend_from_slice(&[2, 1, 0xfd]))));
                if it.code == 2 {
                    // a segment whose count needs one more AS than the attribute holds
                    let ww = w;
                    add("segment-overruns-by-half-as", Op::Value(with(&|x| {
                        x.extend_from_slice(&[2, 1]);
                        x.extend(std::iter::repeat(0xfd).take(ww - 1));
                    })));
                }
            }
            3 => {
                add("value=0.0.0.0", Op::Value(vec![0, 0, 0, 0]));
                let nh6: std::net::Ipv6Addr = "2001:db8::1".parse().unwrap();
                add("len=16", Op::Value(nh6.octets().to_vec()));
                let mut v32 = nh6.octets().to_vec();
                v32.extend_from_slice(&"fe80::1".parse::<std::net::Ipv6Addr>().unwrap().octets());
                add("len=32", Op::Value(v32));
            }
            7 => {
                // the form of the other AS width (RFC 7606 7.7: 6 without, 8 with 4-octet AS)
                let mut o = if two_byte { WIDE.to_be_bytes().to_vec() } else { 65009u16.to_be_bytes().to_vec() };
                o.extend_from_slice(&[192, 0, 2, 2]);
                add(if two_byte { "len=8-on-2byte-session" } else { "len=6-on-4byte-session" }, Op::Value(o));
            }
            8 => add("len=6", Op::Value(v[..6].to_vec())),
            10 => add("len=6", Op::Value(v[..6].to_vec())),
            16 => add("len=12", Op::Value(v[..12].to_vec())),
            32 => add("len=16", Op::Value(v[..16].to_vec())),
            26 => {
                add("tlvlen=2", Op::Value(with(&|x| x[2] = 2)));
                add("tlvlen=12", Op::Value(with(&|x| x[2] = 12)));
                add("tlvlen=10", Op::Value(with(&|x| {
                    x[2] = 10;
                    x.pop();
                })));
                add("tlvlen=0", Op::Value(with(&|x| x[2] = 0)));
            }
            14 => {
                add("afi=99", Op::Value(with(&|x| x[1] = 99)));
                add("safi=99", Op::Value(with(&|x| x[2] = 99)));
                add("nhlen=0", Op::Value(with(&|x| x[3] = 0)));
                add("nhlen=17", Op::Value(with(&|x| x[3] = 17)));
                add("nhlen=32", Op::Value(with(&|x| x[3] = 32)));
                add("nhlen=255", Op::Value(with(&|x| x[3] = 255)));
                add("prefixlen=129", Op::Value(with(&|x| x[21] = 129)));
                add("body=4bytes", Op::Value(v[..4].to_vec()));
            }
            15 => {
                add("afi=99", Op::Value(with(&|x| x[1] = 99)));
                add("prefixlen=129", Op::Value(with(&|x| x[3] = 129)));
                add("body=2bytes", Op::Value(v[..2].to_vec()));
            }
            _ => {}
        }
    }
    let mut addb = |id: String, op: Op| m.push(Corr { target: "block", id: format!("block:{id}"), op });
    addb("unknown-wellknown-first".into(), Op::AddUnkWk(true));
    addb("unknown-wellknown-last".into(), Op::AddUnkWk(false));
    for it in &base.items {
        for off in [Off::Before, Off::P1, Off::P2, Off::Hdr, Off::Hdr1] {
            addb(format!("cut@{}{}", off.name(), it.name), Op::Cut(it.name, off));
            addb(format!("totallen@{}{}", off.name(), it.name), Op::TalShort(it.name, off));
        }
    }
    addb("totallen+1".into(), Op::TalPlus(TalP::One));
    addb("totallen+nlri".into(), Op::TalPlus(TalP::AllNlri));
    addb("totallen-past-end".into(), Op::TalPlus(TalP::PastEnd));
    addb("withdrawnlen-1".into(), Op::Wlen(-1));
    addb("withdrawnlen+1".into(), Op::Wlen(1));
    addb("withdrawnlen+4000".into(), Op::Wlen(4000));
    // keep only entries that apply to the base and change its bytes
    let base_bytes = base.frame();
    m.retain(|c| {
        let mut x = base.clone();
        apply(&mut x, c) && x.frame() != base_bytes
    });
    m
}

/// Build the corrupted frame: attribute-level operations first (menu order),
/// then the block-level one, so that block positions are taken by name on the
/// already modified attribute list.
fn build(base: &Msg, corrs: &[&Corr]) -> Option<Vec<u8>> {
    let mut x = base.clone();
    for c in corrs.iter().filter(|c| c.target != "block") {
        if !apply(&mut x, c) {
            return None;
        }
    }
    for c in corrs.iter().filter(|c| c.target == "block") {
        if !apply(&mut x, c) {
            return None;
        }
    }
    let f = x.frame();
    if f.len() > 4096 { None } else { Some(f) }
}

// ===========================================================================
// Reference receiver (RFC 4271 4.3 / 6.3, RFC 7606 3-7, RFC 4760, RFC 6793,
// RFC 7311, RFC 8092).  Boring linear scans over the final bytes.
// ===========================================================================

#[derive(Clone, Debug, PartialEq, Eq, PartialOrd, Ord, Hash)]
pub struct Pfx {
    pub afi: u16,
    pub safi: u8,
    pub len: u8,
    /// address bytes, bits beyond `len` cleared
    pub addr: [u8; 16],
}

impl Pfx {
    fn new(afi: u16, safi: u8, len: u8, bytes: &[u8]) -> Pfx {
        let mut addr = [0u8; 16];
        for (i, b) in bytes.iter().take(16).enumerate() {
            addr[i] = *b;
        }
        let full = (len / 8) as usize;
        let rem = len % 8;
        for (i, a) in addr.iter_mut().enumerate() {
            if i > full || (i == full && rem == 0) {
                *a = 0;
            } else if i == full {
                *a &= 0xffu8 << (8 - rem);
            }
        }
        Pfx { afi, safi, len, addr }
    }
    pub fn show(&self) -> String {
        if self.afi == 1 {
            format!("{}.{}.{}.{}/{}", self.addr[0], self.addr[1], self.addr[2], self.addr[3], self.len)
        } else {
            format!("{}/{}", std::net::Ipv6Addr::from(self.addr), self.len)
        }
    }
}

#[derive(Clone, Debug, PartialEq, Eq)]
pub enum Repr {
    U32(u32),
    Bytes(Vec<u8>),
}

#[derive(Clone, Debug)]
pub struct Fault {
    /// attribute type code; 0 = the attribute block itself (RFC 7606 4)
    pub code: u8,
    /// the fault is in the framing of the attribute block, not in attribute `code`
    pub block: bool,
    /// stable class of the fault ("flags", "length", "length=0", "value", "segment-...",
    /// "tlv", "unrecognised-well-known", "header-truncated-<n>-left", "length-overruns-<n>-left")
    pub class: String,
    pub why: String,
}

impl Fault {
    /// "<attribute>:<fault class>", the shape class used in signatures
    pub fn name(&self) -> String {
        if self.block { format!("block:{}", self.class) } else { format!("{}:{}", attr_name(self.code), self.class) }
    }
}

#[derive(Clone, Debug)]
pub struct DupInfo {
    pub code: u8,
    pub first: Repr,
    pub second: Repr,
}

/// What a conforming receiver may do with the frame.
#[derive(Clone, Debug, Default)]
pub struct Expect {
    /// reasons why the NLRI cannot be located / parsed; non-empty => `reset_ok && relaxed`
    pub structural: Vec<String>,
    /// a NOTIFICATION is an acceptable outcome
    pub reset_ok: bool,
    /// only the clauses "believed", "ibgp-only", "panic" are evaluated
    pub relaxed: bool,
    /// faults that require treat-as-withdraw
    pub hard: Vec<Fault>,
    /// faults for which "kept without that attribute" is acceptable as well
    pub disc: Vec<Fault>,
    /// mandatory attributes that are absent although prefixes are announced
    pub missing: Vec<u8>,
    pub dups: Vec<DupInfo>,
    pub must_withdraw: bool,
    /// prefixes the UPDATE announces (legacy NLRI + MP_REACH_NLRI), as located by the reference
    pub announced: Vec<Pfx>,
    /// prefixes the UPDATE withdraws (Withdrawn Routes + MP_UNREACH_NLRI)
    pub withdrawn: Vec<Pfx>,
    /// legacy withdrawn prefixes only (subset of `withdrawn`)
    pub withdrawn_legacy: Vec<Pfx>,
    /// AS_PATH in 4-octet form, set when AS4_PATH is faulty (must not be merged in)
    pub plain_as_path: Option<Vec<u8>>,
    /// AGGREGATOR in 8-byte form, set when AS4_AGGREGATOR is faulty
    pub plain_aggregator: Option<Vec<u8>>,
    pub has_legacy_nlri: bool,
}

impl Expect {
    pub fn faulty_codes(&self) -> Vec<u8> {
        let mut v: Vec<u8> = self.hard.iter().chain(self.disc.iter()).filter(|f| !f.block).map(|f| f.code).collect();
        v.sort();
        v.dedup();
        v
    }
    pub fn class(&self) -> &'static str {
        if !self.structural.is_empty() {
            "structural"
        } else if self.hard.iter().any(|f| f.block) {
            "block-error"
        } else if !self.hard.is_empty() {
            "hard"
        } else if !self.missing.is_empty() {
            "missing-mandatory"
        } else if !self.disc.is_empty() {
            "discardable"
        } else if !self.dups.is_empty() {
            "duplicate"
        } else {
            "valid"
        }
    }
    pub fn nontrivial(&self) -> bool {
        self.class() != "valid"
    }
}

/// RFC 4271 4.3: <length(1), prefix(ceil(length/8))>*
fn ref_prefixes(afi: u16, safi: u8, b: &[u8]) -> Result<Vec<Pfx>, String> {
    let max = if afi == 1 { 32 } else { 128 };
    let mut out = Vec::new();
    let mut p = 0usize;
    while p < b.len() {
        let l = b[p];
        if l as usize > max {
            return Err(format!("prefix length {l} > {max}"));
        }
        let n = (l as usize).div_ceil(8);
        if p + 1 + n > b.len() {
            return Err(format!("prefix of length {l} truncated"));
        }
        out.push(Pfx::new(afi, safi, l, &b[p + 1..p + 1 + n]));
        p += 1 + n;
    }
    Ok(out)
}

/// Specified Optional/Transitive bits per type code.
fn ref_flags(code: u8) -> Option<u8> {
    match code {
        1 | 2 | 3 | 5 | 6 => Some(0x40),                 // RFC 4271 5: well-known
        4 | 9 | 10 | 14 | 15 | 26 | 29 => Some(0x80),    // RFC 4271 5.1.4, 4456 8, 4760 3/4, 7311 3, 9552 5.3
        7 | 8 | 16 | 17 | 18 | 23 | 32 | 40 => Some(0xc0), // RFC 4271 5.1.7, 1997, 4360, 6793, 9012, 8092, 8669
        _ => None,
    }
}

/// AS_PATH-like value: segments <type(1), count(1), count x AS(w)>.
/// RFC 7606 7.2: malformed on unrecognised segment type, segment overrun,
/// fewer than 2 bytes left, or a segment length of zero.  Err = (class, why).
fn ref_as_segments(v: &[u8], w: usize) -> Result<(), (&'static str, String)> {
    let mut p = 0usize;
    while p < v.len() {
        if p + 2 > v.len() {
            return Err(("segment-header-truncated", "one byte left where a segment header is needed".into()));
        }
        let t = v[p];
        let n = v[p + 1] as usize;
        if !(1..=4).contains(&t) {
            return Err(("segment-type", format!("segment type {t}")));
        }
        if n == 0 {
            return Err(("segment-length-0", "segment length 0".into()));
        }
        if p + 2 + n * w > v.len() {
            return Err(("segment-overrun", format!("segment of {n} AS overruns the attribute")));
        }
        p += 2 + n * w;
    }
    Ok(())
}

fn widen_as_path(v: &[u8]) -> Vec<u8> {
    let mut o = Vec::new();
    let mut p = 0usize;
    while p + 2 <= v.len() {
        let n = v[p + 1] as usize;
        o.push(v[p]);
        o.push(v[p + 1]);
        for i in 0..n {
            let s = p + 2 + 2 * i;
            if s + 2 <= v.len() {
                o.extend_from_slice(&[0, 0, v[s], v[s + 1]]);
            }
        }
        p += 2 + 2 * n;
    }
    o
}

/// Why the value of a known attribute is malformed: (class, why); None = fine / not judged.
fn ref_value_fault(code: u8, v: &[u8], two_byte: bool) -> Option<(&'static str, String)> {
    let l = v.len();
    let fixed = |n: usize| if l != n { Some(("length", format!("length {l}, must be {n}"))) } else { None };
    let multiple = |n: usize| {
        if l == 0 {
            Some(("length=0", format!("length 0, must be a non-zero multiple of {n}")))
        } else if l % n != 0 {
            Some(("length", format!("length {l}, must be a non-zero multiple of {n}")))
        } else {
            None
        }
    };
    match code {
        1 => fixed(1).or_else(|| if v[0] > 2 { Some(("value", format!("ORIGIN value {}", v[0]))) } else { None }), // RFC 7606 7.1
        2 => ref_as_segments(v, if two_byte { 2 } else { 4 }).err(),                                               // 7.2
        3 => fixed(4),                                                                                             // 7.3
        4 | 5 | 9 => fixed(4),                                                                                     // 7.4 7.5 7.9
        6 => fixed(0),                                                                                             // 7.6
        7 => fixed(if two_byte { 6 } else { 8 }),                                                                  // 7.7
        8 | 10 => multiple(4),                                                                                     // 7.8 7.10
        16 => multiple(8),                                                                                         // 7.14
        32 => multiple(12),                                                                                        // RFC 8092 5
        17 => {
            // RFC 6793 6
            if l < 6 || l % 2 != 0 { Some(("length", format!("length {l}"))) } else { ref_as_segments(v, 4).err() }
        }
        18 => fixed(8),
        26 => {
            // RFC 7311 3: TLVs <type(1), length(2, incl. header), value>; AIGP TLV (1) has length 11
            let mut p = 0usize;
            while p < l {
                if p + 3 > l {
                    return Some(("tlv", "TLV header truncated".into()));
                }
                let tl = u16::from_be_bytes([v[p + 1], v[p + 2]]) as usize;
                if tl < 3 {
                    return Some(("tlv", format!("TLV length {tl} < 3")));
                }
                if p + tl > l {
                    return Some(("tlv", format!("TLV length {tl} overruns the attribute")));
                }
                if v[p] == 1 && tl != 11 {
                    return Some(("tlv", format!("AIGP TLV length {tl}, must be 11")));
                }
                p += tl;
            }
            None
        }
        _ => None, // 23, 29, 40: content not judged; 14, 15 handled by the caller
    }
}

fn ref_repr(code: u8, v: &[u8], two_byte: bool) -> Repr {
    match code {
        1 if v.len() == 1 => Repr::U32(v[0] as u32),
        4 | 5 | 9 if v.len() == 4 => Repr::U32(u32::from_be_bytes([v[0], v[1], v[2], v[3]])),
        2 if two_byte => Repr::Bytes(widen_as_path(v)),
        7 if v.len() == 6 => {
            let mut o = vec![0, 0];
            o.extend_from_slice(v);
            Repr::Bytes(o)
        }
        _ => Repr::Bytes(v.to_vec()),
    }
}

struct RefAttr<'a> {
    flags: u8,
    code: u8,
    value: &'a [u8],
}

/// The session negotiated IPv4 unicast and IPv6 unicast, no ADD-PATH, no
/// extended next hop, 4096-byte messages.
pub fn reference(frame: &[u8], two_byte: bool, role: Role) -> Expect {
    let mut e = Expect::default();
    let external = role.external();
    let structural = |e: &mut Expect, s: String| {
        e.structural.push(s);
        e.reset_ok = true;
        e.relaxed = true;
    };
    if frame.len() < 23 {
        structural(&mut e, "UPDATE shorter than 23 bytes".into());
        return e;
    }
    let body = &frame[19..];
    // RFC 7606 3 a/b (via RFC 4271 6.3): length fields must fit
    let wlen = u16::from_be_bytes([body[0], body[1]]) as usize;
    if 2 + wlen + 2 > body.len() {
        structural(&mut e, format!("withdrawn routes length {wlen} does not fit"));
        return e;
    }
    let tal = u16::from_be_bytes([body[2 + wlen], body[3 + wlen]]) as usize;
    if 4 + wlen + tal > body.len() {
        structural(&mut e, format!("total path attribute length {tal} does not fit"));
        return e;
    }
    let block = &body[4 + wlen..4 + wlen + tal];
    let nlri = &body[4 + wlen + tal..];
    // RFC 7606 5.3: NLRI fields that cannot be parsed
    match ref_prefixes(1, 1, &body[2..2 + wlen]) {
        Ok(v) => {
            e.withdrawn_legacy = v.clone();
            e.withdrawn = v;
        }
        Err(s) => structural(&mut e, format!("withdrawn routes: {s}")),
    }
    match ref_prefixes(1, 1, nlri) {
        Ok(v) => {
            e.has_legacy_nlri = !v.is_empty();
            e.announced = v;
        }
        Err(s) => structural(&mut e, format!("NLRI: {s}")),
    }
    // RFC 7606 4: walk the block, relying on the total attribute length
    let mut attrs: Vec<RefAttr> = Vec::new();
    let mut p = 0usize;
    while p < block.len() {
        let rem = block.len() - p;
        if rem < 3 || (block[p] & 0x10 != 0 && rem < 4) {
            e.hard.push(Fault { code: 0, block: true, class: format!("header-truncated-{rem}-left"), why: format!("{rem} byte(s) left in the block: not enough for an attribute header") });
            e.reset_ok = true;
            break;
        }
        let flags = block[p];
        let code = block[p + 1];
        let (hdr, alen) = if flags & 0x10 != 0 { (4, u16::from_be_bytes([block[p + 2], block[p + 3]]) as usize) } else { (3, block[p + 2] as usize) };
        if hdr + alen > rem {
            let left = rem - hdr;
            e.hard.push(Fault {
                code: 0,
                block: true,
                class: format!("length-overruns-{}-left", if left < 4 { left.to_string() } else { "n".into() }),
                why: format!("attribute {} length {alen} overruns the block ({left} left)", attr_name(code)),
            });
            e.reset_ok = true;
            break;
        }
        attrs.push(RefAttr { flags, code, value: &block[p + hdr..p + hdr + alen] });
        p += hdr + alen;
    }
    // RFC 7606 3 g: duplicates
    let mut first: BTreeMap<u8, usize> = BTreeMap::new();
    for (i, a) in attrs.iter().enumerate() {
        match first.get(&a.code) {
            None => {
                first.insert(a.code, i);
            }
            Some(&f) => {
                if a.code == 14 || a.code == 15 {
                    structural(&mut e, format!("{} appears more than once", attr_name(a.code)));
                } else {
                    e.dups.push(DupInfo {
                        code: a.code,
                        first: ref_repr(a.code, attrs[f].value, two_byte),
                        second: ref_repr(a.code, a.value, two_byte),
                    });
                }
            }
        }
    }
    // per-attribute classification (first occurrences)
    for (&code, &i) in &first {
        let a = &attrs[i];
        let v = a.value;
        if code == 14 || code == 15 {
            // locate the NLRI whatever the flags say
            let mut ok = true;
            if code == 14 {
                // RFC 4760 3 / RFC 7606 7.11
                if v.len() < 5 {
                    structural(&mut e, format!("MP_REACH_NLRI of {} byte(s)", v.len()));
                    ok = false;
                } else {
                    let (afi, safi, nhl) = (u16::from_be_bytes([v[0], v[1]]), v[2], v[3] as usize);
                    let negotiated = matches!((afi, safi), (1, 1) | (2, 1));
                    let nh_ok = if afi == 1 { nhl == 4 } else { nhl == 16 || nhl == 32 };
                    if !negotiated {
                        structural(&mut e, format!("MP_REACH_NLRI for un-negotiated family {afi}/{safi}"));
                        ok = false;
                    } else if !nh_ok || 4 + nhl + 1 > v.len() {
                        structural(&mut e, format!("MP_REACH_NLRI next hop length {nhl}"));
                        ok = false;
                    } else {
                        match ref_prefixes(afi, safi, &v[5 + nhl..]) {
                            Ok(px) => e.announced.extend(px),
                            Err(s) => {
                                structural(&mut e, format!("MP_REACH_NLRI: {s}"));
                                ok = false;
                            }
                        }
                    }
                }
            } else if v.len() < 3 {
                structural(&mut e, format!("MP_UNREACH_NLRI of {} byte(s)", v.len()));
                ok = false;
            } else {
                let (afi, safi) = (u16::from_be_bytes([v[0], v[1]]), v[2]);
                if !matches!((afi, safi), (1, 1) | (2, 1)) {
                    structural(&mut e, format!("MP_UNREACH_NLRI for un-negotiated family {afi}/{safi}"));
                    ok = false;
                } else {
                    match ref_prefixes(afi, safi, &v[3..]) {
                        Ok(px) => e.withdrawn.extend(px),
                        Err(s) => {
                            structural(&mut e, format!("MP_UNREACH_NLRI: {s}"));
                            ok = false;
                        }
                    }
                }
            }
            if ok && (a.flags ^ 0x80) & 0xc0 != 0 {
                // RFC 7606 3 c: treat-as-withdraw; a reset is tolerated for the MP attributes
                e.reset_ok = true;
                let f = Fault { code, block: false, class: "flags".into(), why: format!("flags {:#04x}, specified 0x80", a.flags) };
                if code == 14 { e.hard.push(f) } else { e.disc.push(f) }
            }
            continue;
        }
        if code == 3 && !e.has_legacy_nlri {
            continue; // RFC 4760 3: NEXT_HOP is ignored when there is no legacy NLRI
        }
        let fault: Option<(&'static str, String)> = match ref_flags(code) {
            Some(spec) if (a.flags ^ spec) & 0xc0 != 0 => Some(("flags", format!("flags {:#04x}, specified {spec:#04x}", a.flags))),
            Some(_) => ref_value_fault(code, v, two_byte),
            // RFC 4271 6.3 / RFC 7606 3: unrecognised well-known
            None if a.flags & 0x80 == 0 => Some(("unrecognised-well-known", "unrecognised well-known attribute".into())),
            None => None,
        };
        let Some((class, why)) = fault else { continue };
        let discardable = matches!(code, 4 | 9 | 10 | 26 | 29)   // optional non-transitive by code
            || matches!(code, 17 | 18)                           // AS4_PATH / AS4_AGGREGATOR
            || (ref_flags(code).is_some() && a.flags & 0xc0 == 0x80) // optional non-transitive on the wire
            || matches!(code, 6 | 7)                             // RFC 7606 7.6 / 7.7: attribute discard
            || (external && code == 5);                          // RFC 7606 7.5: ignored from external peers
        // a well-known mandatory attribute cannot be "kept out": a route without it lacks a
        // mandatory attribute, which is itself treat-as-withdraw (RFC 7606 3 d)
        let mandatory = matches!(code, 1 | 2) || (code == 3 && e.has_legacy_nlri);
        let f = Fault { code, block: false, class: class.to_string(), why };
        if discardable && !mandatory { e.disc.push(f) } else { e.hard.push(f) }
    }
    // AS4_* faulty: the plain AS_PATH / AGGREGATOR must be used (2-octet sessions)
    if two_byte {
        let single = |c: u8| attrs.iter().filter(|a| a.code == c).count() == 1;
        let faulty = |c: u8| e.disc.iter().any(|f| f.code == c);
        let fine = |c: u8| !e.hard.iter().chain(e.disc.iter()).any(|f| f.code == c);
        if faulty(17) && single(2) && fine(2) {
            e.plain_as_path = Some(widen_as_path(attrs[first[&2]].value));
        }
        if faulty(18) && single(7) && fine(7) {
            if let Repr::Bytes(b) = ref_repr(7, attrs[first[&7]].value, true) {
                e.plain_aggregator = Some(b);
            }
        }
    }
    // RFC 7606 3 d: missing well-known mandatory attributes
    if !e.announced.is_empty() && !e.hard.iter().any(|f| f.block) {
        for c in [1u8, 2] {
            if !first.contains_key(&c) {
                e.missing.push(c);
            }
        }
        if e.has_legacy_nlri && !first.contains_key(&3) {
            e.missing.push(3);
        }
    }
    e.must_withdraw = !e.hard.is_empty() || !e.missing.is_empty();
    e
}

// ===========================================================================
// Observation of the subject and the oracle
// ===========================================================================

#[derive(Clone, Debug)]
pub enum ObsMsg {
    Reach { afi: u16, safi: u8, nexthop: Option<String>, pfx: Vec<Pfx>, attrs: Vec<(u8, Repr)> },
    Unreach { afi: u16, safi: u8, pfx: Vec<Pfx> },
    Other(String),
}

#[derive(Clone, Debug)]
pub enum Obs {
    Panic(String),
    Reset { code: u8, subcode: u8, text: String },
    Msgs(Vec<ObsMsg>),
}

impl Obs {
    pub fn class(&self) -> &'static str {
        match self {
            Obs::Panic(_) => "panic",
            Obs::Reset { .. } => "reset",
            Obs::Msgs(m) => {
                let r = m.iter().any(|x| matches!(x, ObsMsg::Reach { .. }));
                let u = m.iter().any(|x| matches!(x, ObsMsg::Unreach { .. }));
                match (r, u) {
                    (true, true) => "reach+unreach",
                    (true, false) => "reach",
                    (false, true) => "unreach-only",
                    (false, false) => "nothing",
                }
            }
        }
    }
    pub fn show(&self) -> String {
        match self {
            Obs::Panic(p) => format!("PANIC {p}"),
            Obs::Reset { code, subcode, text } => format!("NOTIFICATION {code}/{subcode} ({text})"),
            Obs::Msgs(m) => {
                let mut s = Vec::new();
                for x in m {
                    match x {
                        ObsMsg::Reach { afi, safi, nexthop, pfx, attrs } => s.push(format!(
                            "Reach {afi}/{safi} nh={} [{}] attrs={:?}",
                            nexthop.clone().unwrap_or("-".into()),
                            pfx.iter().map(|p| p.show()).collect::<Vec<_>>().join(" "),
                            attrs.iter().map(|a| a.0).collect::<Vec<_>>()
                        )),
                        ObsMsg::Unreach { afi, safi, pfx } => {
                            s.push(format!("Unreach {afi}/{safi} [{}]", pfx.iter().map(|p| p.show()).collect::<Vec<_>>().join(" ")))
                        }
                        ObsMsg::Other(o) => s.push(o.clone()),
                    }
                }
                if s.is_empty() { "no message".into() } else { s.join("; ") }
            }
        }
    }
}

fn pfx_of(family: Family, n: &Nlri) -> Pfx {
    match n {
        Nlri::V4(p) => Pfx::new(family.afi(), family.safi(), p.mask, &p.addr.octets()),
        Nlri::V6(p) => Pfx::new(family.afi(), family.safi(), p.mask, &p.addr.octets()),
        _ => Pfx { afi: family.afi(), safi: family.safi(), len: 255, addr: [0xee; 16] },
    }
}

fn repr_of(a: &Attribute) -> Repr {
    match a.value() {
        Some(v) => Repr::U32(v),
        None => Repr::Bytes(a.binary().cloned().unwrap_or_default()),
    }
}

/// Crate-independent view of the `Message`s `validate_message` returned.
pub fn observe_messages(msgs: &[Message]) -> Vec<ObsMsg> {
    msgs.iter()
        .map(|m| match m {
            Message::Update(Update::Reach { family, entries, nexthop, attr }) => ObsMsg::Reach {
                afi: family.afi(),
                safi: family.safi(),
                nexthop: nexthop.as_ref().map(|n| format!("{n:?}")),
                pfx: entries.iter().map(|e| pfx_of(*family, &e.nlri)).collect(),
                attrs: attr.iter().map(|a| (a.code(), repr_of(a))).collect(),
            },
            Message::Update(Update::Unreach { family, entries }) => {
                ObsMsg::Unreach { afi: family.afi(), safi: family.safi(), pfx: entries.iter().map(|e| pfx_of(*family, &e.nlri)).collect() }
            }
            Message::Update(_) => ObsMsg::Other("EndOfRib".into()),
            Message::Open(_) => ObsMsg::Other("Open".into()),
            Message::Notification(_) => ObsMsg::Other("Notification".into()),
            Message::Keepalive => ObsMsg::Other("Keepalive".into()),
            Message::RouteRefresh { .. } => ObsMsg::Other("RouteRefresh".into()),
        })
        .collect()
}

pub fn codec_desc(two_byte: bool) -> PairDesc {
    let mut d = PairDesc::DEFAULT;
    d.l_as4 = !two_byte;
    d.r_as4 = !two_byte;
    d
}

/// The receive path of the daemon's session loop (event/mod.rs): `try_parse`
/// on the stream buffer, then `validate_message(parsed, is_ebgp)`.
pub fn run_subject(frame: &[u8], two_byte: bool, is_ebgp: bool) -> Obs {
    let (_, mut rx) = mkmsg::pair_from_desc(Family::IPV6, &codec_desc(two_byte));
    let r = catch(|| {
        let mut buf = bytes::BytesMut::from(frame);
        match rx.try_parse(&mut buf) {
            Err(n) => Err(n),
            Ok(None) => Ok(None),
            Ok(Some(parsed)) => pbgp::validate_message(parsed, is_ebgp).map(|it| Some(it.collect::<Vec<Message>>())),
        }
    });
    match r {
        Err(p) => Obs::Panic(p),
        Ok(Err(n)) => Obs::Reset { code: n.notification_code(), subcode: n.notification_subcode(), text: format!("{n}") },
        Ok(Ok(None)) => Obs::Panic("try_parse returned Ok(None) on a complete frame @ harness:0".into()),
        Ok(Ok(Some(m))) => Obs::Msgs(observe_messages(&m)),
    }
}

#[derive(Clone, Debug, PartialEq, Eq, PartialOrd, Ord)]
pub struct Finding {
    pub clause: &'static str,
    /// faults ("<attr>:<class>", see `Fault::name`) one of which is responsible;
    /// empty for clauses that do not name a fault
    pub faults: Vec<String>,
    /// withdrawal-lost: legacy|mp; not-treated-as-withdraw: ""|silently-ignored;
    /// missing-mandatory-accepted: attribute; ibgp-only: role:attr; panic: file:line
    pub detail: String,
    pub what: String,
}

/// The oracle: compare what the subject did with what the reference allows.
pub fn judge(exp: &Expect, role: Role, obs: &Obs) -> Vec<Finding> {
    let mut out = Vec::new();
    let all_faults = |exp: &Expect| -> Vec<String> {
        let mut v: Vec<String> = exp.hard.iter().chain(exp.disc.iter()).map(|f| f.name()).collect();
        v.extend(exp.missing.iter().map(|c| format!("{}:missing", attr_name(*c))));
        v.extend(exp.dups.iter().map(|d| format!("{}:duplicate", attr_name(d.code))));
        v.sort();
        v.dedup();
        v
    };
    let msgs = match obs {
        Obs::Panic(p) => {
            let loc = p.rsplit(" @ ").next().unwrap_or("");
            let loc = loc.rsplit('/').next().unwrap_or(loc);
            out.push(Finding { clause: "panic", faults: vec![], detail: loc.to_string(), what: format!("the receive path panicked: {p}") });
            return out;
        }
        Obs::Reset { code, subcode, text } => {
            if !exp.reset_ok {
                out.push(Finding {
                    clause: "needless-reset",
                    faults: all_faults(exp),
                    detail: String::new(),
                    what: format!(
                        "NOTIFICATION {code}/{subcode} ({text}) although the NLRI can be located and parsed (reference: {}); expected {}",
                        exp.class(),
                        if exp.must_withdraw { "treat-as-withdraw" } else { "the session to stay up" }
                    ),
                });
            }
            return out;
        }
        Obs::Msgs(m) => m,
    };
    let reaches: Vec<(&u16, &u8, &Option<String>, &Vec<Pfx>, &Vec<(u8, Repr)>)> = msgs
        .iter()
        .filter_map(|m| if let ObsMsg::Reach { afi, safi, nexthop, pfx, attrs } = m { Some((afi, safi, nexthop, pfx, attrs)) } else { None })
        .collect();
    let unreached: BTreeSet<&Pfx> = msgs.iter().filter_map(|m| if let ObsMsg::Unreach { pfx, .. } = m { Some(pfx.iter()) } else { None }).flatten().collect();
    // (e) iBGP-only attributes from an external peer
    if role.external() {
        let mut seen = BTreeSet::new();
        for r in &reaches {
            for (c, _) in r.4.iter() {
                if matches!(c, 5 | 9 | 10) && seen.insert(*c) {
                    out.push(Finding {
                        clause: "ibgp-only-attr-believed",
                        faults: vec![],
                        detail: format!("{}:{}", role.name(), attr_name(*c)),
                        what: format!("a route from an external peer ({}) is delivered with {}; it must be dropped", role.name(), attr_name(*c).to_uppercase()),
                    });
                }
            }
        }
    }
    // (a) a faulty attribute is believed
    let mut believed_any = false;
    for f in exp.hard.iter().chain(exp.disc.iter()) {
        let hit = match f.code {
            _ if f.block => false,
            15 => false,
            3 => reaches.iter().any(|r| *r.0 == 1 && *r.1 == 1 && r.2.is_some()),
            14 => reaches.iter().any(|r| !(*r.0 == 1 && *r.1 == 1) || !exp.has_legacy_nlri),
            c => reaches.iter().any(|r| r.4.iter().any(|(rc, _)| *rc == c)),
        };
        if hit {
            believed_any = true;
            out.push(Finding {
                clause: "faulty-attr-believed",
                faults: vec![f.name()],
                detail: String::new(),
                what: format!("{} is faulty ({}) but a route is delivered that carries / uses it", attr_name(f.code).to_uppercase(), f.why),
            });
        }
    }
    for d in &exp.dups {
        if d.first != d.second && reaches.iter().any(|r| r.4.iter().any(|(c, v)| *c == d.code && *v == d.second)) {
            believed_any = true;
            out.push(Finding {
                clause: "faulty-attr-believed",
                faults: vec![format!("{}:duplicate", attr_name(d.code))],
                detail: String::new(),
                what: format!("{} appears twice; the value of the second occurrence is used (RFC 7606 3 g: all but the first are discarded)", attr_name(d.code).to_uppercase()),
            });
        }
    }
    for (code, plain, as4) in [(2u8, &exp.plain_as_path, 17u8), (7u8, &exp.plain_aggregator, 18u8)] {
        if let Some(p) = plain {
            if reaches.iter().any(|r| r.4.iter().any(|(c, v)| *c == code && *v != Repr::Bytes(p.clone()))) {
                believed_any = true;
                let name = exp.disc.iter().find(|f| f.code == as4).map(|f| f.name()).unwrap_or_else(|| attr_name(as4));
                out.push(Finding {
                    clause: "faulty-attr-believed",
                    faults: vec![name],
                    detail: "merged".into(),
                    what: format!("{} is faulty but the delivered {} differs from the one on the wire: the faulty attribute was merged in", attr_name(as4).to_uppercase(), attr_name(code).to_uppercase()),
                });
            }
        }
    }
    if exp.relaxed {
        return out;
    }
    // (b) treat-as-withdraw
    if exp.must_withdraw {
        let hard_names: Vec<String> = exp.hard.iter().map(|f| f.name()).collect();
        if !reaches.is_empty() {
            if exp.hard.is_empty() {
                out.push(Finding {
                    clause: "missing-mandatory-accepted",
                    faults: vec![],
                    detail: attr_name(exp.missing[0]),
                    what: format!(
                        "mandatory {} absent but {} prefix(es) are delivered as reachable",
                        exp.missing.iter().map(|c| attr_name(*c).to_uppercase()).collect::<Vec<_>>().join(", "),
                        reaches.iter().map(|r| r.3.len()).sum::<usize>()
                    ),
                });
            } else if !believed_any {
                out.push(Finding {
                    clause: "not-treated-as-withdraw",
                    faults: hard_names,
                    detail: String::new(),
                    what: format!(
                        "{} requires treat-as-withdraw but prefixes are delivered as reachable",
                        exp.hard.iter().map(|f| format!("{} ({})", f.name(), f.why)).collect::<Vec<_>>().join(", ")
                    ),
                });
            }
        } else {
            let lost: Vec<String> = exp.announced.iter().filter(|p| !unreached.contains(p)).map(|p| p.show()).collect();
            if !lost.is_empty() {
                let mut names = hard_names;
                names.extend(exp.missing.iter().map(|c| format!("{}:missing", attr_name(*c))));
                out.push(Finding {
                    clause: "not-treated-as-withdraw",
                    faults: names,
                    detail: "silently-ignored".into(),
                    what: format!(
                        "{} requires treat-as-withdraw of the announced prefixes, but {} are neither withdrawn nor is the session reset: an older route for them stays installed",
                        exp.hard.iter().map(|f| format!("{} ({})", f.name(), f.why)).chain(exp.missing.iter().map(|c| format!("{} missing", attr_name(*c)))).collect::<Vec<_>>().join(", "),
                        lost.join(" ")
                    ),
                });
            }
        }
    }
    // (c) withdrawals of the same message still take effect
    let lost_legacy: Vec<String> = exp.withdrawn_legacy.iter().filter(|p| !unreached.contains(p)).map(|p| p.show()).collect();
    let lost_mp: Vec<String> = exp.withdrawn.iter().filter(|p| !exp.withdrawn_legacy.contains(p) && !unreached.contains(p)).map(|p| p.show()).collect();
    for (kind, lost) in [("legacy", lost_legacy), ("mp", lost_mp)] {
        if !lost.is_empty() {
            out.push(Finding {
                clause: "withdrawal-lost",
                faults: all_faults(exp),
                detail: kind.into(),
                what: format!("the UPDATE withdraws {} ({kind} encoding) but no Unreach is delivered for them (reference: {})", lost.join(" "), exp.class()),
            });
        }
    }
    out
}

// ===========================================================================
// Enumeration driver
// ===========================================================================

struct Config {
    shape: Shape,
    reversed: bool,
    two_byte: bool,
    base: Msg,
    menu: Vec<Corr>,
}

impl Config {
    fn name(&self) -> String {
        format!("{}/{}", self.shape.name(), if self.reversed { "desc" } else { "asc" })
    }
}

fn configs() -> Vec<Config> {
    let mut v = Vec::new();
    for shape in SHAPES {
        for reversed in [false, true] {
            for two_byte in [false, true] {
                let base = base_msg(shape, reversed, two_byte);
                let menu = menu(&base, two_byte);
                v.push(Config { shape, reversed, two_byte, base, menu });
            }
        }
    }
    v
}

/// (clause, fault name, detail)
type Key = (&'static str, String, String);

fn keys(f: &[Finding]) -> BTreeSet<Key> {
    let mut s = BTreeSet::new();
    for x in f {
        if x.faults.is_empty() {
            s.insert((x.clause, String::new(), x.detail.clone()));
        }
        for n in &x.faults {
            s.insert((x.clause, n.clone(), x.detail.clone()));
        }
    }
    s
}

fn case_string(cfg: &Config, role: Role, ids: &[&str], bytes: &[u8]) -> String {
    format!(
        "as={};role={};base={};corr={};bytes={}",
        if cfg.two_byte { 2 } else { 4 },
        role.name(),
        cfg.name(),
        if ids.is_empty() { "none".to_string() } else { ids.join(",") },
        hex(bytes)
    )
}

/// Signature of a finding: clause + the responsible fault "<attr>:<fault class>"
/// as classified by the reference (not the generator's intent, so that all
/// corruptions that expose the same unchecked condition share one signature).
/// When several faults are candidates (pairs, or a shifted framing that garbles
/// a neighbour), the one that produces the same finding in a single-corruption
/// case of the same base / AS width / role (`alone`) is named; a defect that
/// only shows with both gets a signature naming both.
fn signature(f: &Finding, alone: &[BTreeSet<Key>]) -> String {
    match f.clause {
        "panic" | "ibgp-only-attr-believed" | "missing-mandatory-accepted" => format!("C05/{}/{}", f.clause, f.detail),
        _ => {
            let shape = if f.faults.is_empty() {
                "valid-update".to_string()
            } else if f.faults.len() == 1 {
                f.faults[0].clone()
            } else {
                let owned: Vec<&String> = f.faults.iter().filter(|n| alone.iter().any(|a| a.contains(&(f.clause, (*n).clone(), f.detail.clone())))).collect();
                match owned.first() {
                    Some(n) => (*n).clone(),
                    None => f.faults.join("+"),
                }
            };
            if f.detail.is_empty() { format!("C05/{}/{}", f.clause, shape) } else { format!("C05/{}/{}({})", f.clause, shape, f.detail) }
        }
    }
}

struct Evaluated {
    exp: Expect,
    obs: Obs,
    findings: Vec<Finding>,
}

fn evaluate(bytes: &[u8], two_byte: bool, role: Role) -> Evaluated {
    let exp = reference(bytes, two_byte, role);
    let obs = run_subject(bytes, two_byte, role.daemon_is_ebgp());
    let findings = judge(&exp, role, &obs);
    Evaluated { exp, obs, findings }
}

fn fnv(bytes: &[u8], two_byte: bool) -> u64 {
    let mut h: u64 = 0xcbf29ce484222325 ^ two_byte as u64;
    for b in bytes {
        h ^= *b as u64;
        h = h.wrapping_mul(0x100000001b3);
    }
    h
}

struct Shared {
    distinct: Vec<Mutex<HashSet<u64>>>,
}

impl Shared {
    fn new() -> Shared {
        Shared { distinct: (0..64).map(|_| Mutex::new(HashSet::new())).collect() }
    }
    fn note(&self, h: u64) {
        self.distinct[(h % 64) as usize].lock().unwrap().insert(h);
    }
    fn count(&self) -> u64 {
        self.distinct.iter().map(|m| m.lock().unwrap().len() as u64).sum()
    }
}

/// Evaluate one corrupted frame for all roles; returns the per-role keys.
fn eval_all_roles(
    cfg: &Config,
    ids: &[&str],
    bytes: &[u8],
    alone: &dyn Fn(usize) -> Vec<BTreeSet<Key>>,
    known: &BTreeSet<String>,
    shared: &Shared,
    rep: &mut Report,
) -> Vec<BTreeSet<Key>> {
    let mut per_role = Vec::with_capacity(4);
    for (ri, role) in ROLES.iter().enumerate() {
        let ev = evaluate(bytes, cfg.two_byte, *role);
        rep.evaluations += 1;
        if ri == 0 && ev.exp.nontrivial() {
            shared.note(fnv(bytes, cfg.two_byte));
        }
        rep.add(&format!("outcome ref={} subject={}", ev.exp.class(), ev.obs.class()), 1);
        if let Ok(t) = std::env::var("VERIF_C05_TRACE") {
            // debugging aid: print the cases of one outcome class, e.g. "structural/nothing"
            if t == format!("{}/{}", ev.exp.class(), ev.obs.class()) {
                eprintln!("trace {}: {} => {} ;; {:?}", t, case_string(cfg, *role, ids, bytes), ev.obs.show(), ev.exp.structural);
            }
        }
        if !ev.findings.is_empty() {
            let al = if ids.len() > 1 { alone(ri) } else { Vec::new() };
            let case = case_string(cfg, *role, ids, bytes);
            for f in &ev.findings {
                let sig = signature(f, &al);
                if known.contains(&sig) {
                    // already witnessed by a smaller case (valid base / single corruption): keep that witness
                    rep.add(&format!("repeats {sig}"), 1);
                } else {
                    rep.violation(Violation { sig, what: f.what.clone(), case: case.clone() });
                }
            }
        }
        per_role.push(keys(&ev.findings));
    }
    per_role
}

fn self_check(cfgs: &[Config], rep: &mut Report) {
    for cfg in cfgs {
        let bytes = cfg.base.frame();
        let name = format!("{} as{}", cfg.name(), if cfg.two_byte { 2 } else { 4 });
        // the independent strict reader accepts the base and sees the same attributes
        match wire::read_frame(&bytes, 4096) {
            Ok(fr) => match fr.body {
                wire::Body::Update(u) => {
                    let codes: Vec<u8> = u.attrs.iter().map(|a| a.code).collect();
                    let mine: Vec<u8> = cfg.base.items.iter().map(|i| i.code).collect();
                    if codes != mine {
                        rep.machinery_error = Some(format!("self-check: base {name}: wire reader sees attributes {codes:?}, generator built {mine:?}"));
                    }
                }
                _ => rep.machinery_error = Some(format!("self-check: base {name} is not an UPDATE")),
            },
            Err(e) => rep.machinery_error = Some(format!("self-check: base {name} rejected by wire::read_frame: {e}")),
        }
        for role in ROLES {
            let exp = reference(&bytes, cfg.two_byte, role);
            if exp.nontrivial() {
                rep.machinery_error = Some(format!("self-check: reference finds faults in the valid base {name}: {exp:?}"));
            }
            // non-vacuity: the subject delivers every announced prefix of the valid base as
            // reachable and every withdrawn one as unreachable
            match run_subject(&bytes, cfg.two_byte, role.daemon_is_ebgp()) {
                Obs::Msgs(m) => {
                    let r: BTreeSet<&Pfx> = m.iter().filter_map(|x| if let ObsMsg::Reach { pfx, .. } = x { Some(pfx.iter()) } else { None }).flatten().collect();
                    let u: BTreeSet<&Pfx> = m.iter().filter_map(|x| if let ObsMsg::Unreach { pfx, .. } = x { Some(pfx.iter()) } else { None }).flatten().collect();
                    if exp.announced.is_empty() || !exp.announced.iter().all(|p| r.contains(p)) || !exp.withdrawn.iter().all(|p| u.contains(p)) {
                        rep.machinery_error = Some(format!("self-check: valid base {name} is not delivered completely: {}", Obs::Msgs(m.clone()).show()));
                    }
                }
                o => rep.machinery_error = Some(format!("self-check: valid base {name} not accepted by the subject: {}", o.show())),
            }
        }
    }
}

pub fn run(replay: Option<&str>) -> Report {
    let mut rep = Report::new("C05", "hx-c05");
    if let Some(case) = replay {
        return run_replay(rep, case);
    }
    let thorough = rep.thorough();
    let cfgs = configs();
    self_check(&cfgs, &mut rep);
    if rep.machinery_error.is_some() {
        return rep;
    }
    let shared = Shared::new();

    // ---- valid bases first: their witnesses (a valid UPDATE) take precedence ------
    let no_alone = |_: usize| Vec::new();
    let none_known: BTreeSet<String> = BTreeSet::new();
    for cfg in &cfgs {
        let bytes = cfg.base.frame();
        eval_all_roles(cfg, &[], &bytes, &no_alone, &none_known, &shared, &mut rep);
    }
    let known0: BTreeSet<String> = rep.violations.keys().cloned().collect();

    // ---- single corruptions ----------------------------------------------------
    // job = (config, menu index); all four roles inside the job
    let mut jobs: Vec<(usize, usize)> = Vec::new();
    for (ci, c) in cfgs.iter().enumerate() {
        for k in 0..c.menu.len() {
            jobs.push((ci, k));
        }
    }
    // keys of every single corruption, per role: singles[ci][k][role]
    let singles: Vec<Vec<OnceLock<Vec<BTreeSet<Key>>>>> = cfgs.iter().map(|c| (0..c.menu.len()).map(|_| OnceLock::new()).collect()).collect();
    enumr::par_range(jobs.len() as u64, &mut rep, |i, local| {
        let (ci, k) = jobs[i as usize];
        let cfg = &cfgs[ci];
        let c = &cfg.menu[k];
        let Some(bytes) = build(&cfg.base, &[c]) else {
            let _ = singles[ci][k].set(vec![BTreeSet::new(); 4]);
            return;
        };
        let keys = eval_all_roles(cfg, &[c.id.as_str()], &bytes, &no_alone, &known0, &shared, local);
        local.sample(i, || format!("{} -> ref {}", case_string(cfg, Role::Ebgp, &[c.id.as_str()], &bytes), reference(&bytes, cfg.two_byte, Role::Ebgp).class()));
        let _ = singles[ci][k].set(keys);
    });
    let n_single: usize = cfgs.iter().map(|c| c.menu.len()).sum();
    let evals_single = rep.evaluations;
    rep.notes.push(format!(
        "singles: {} bases (3 shapes x 2 attribute orders x AS width 2/4) with {} single corruptions in total (menu sizes {:?}), x 4 roles = {} evaluations",
        cfgs.len(),
        n_single,
        cfgs.iter().map(|c| c.menu.len()).collect::<Vec<_>>(),
        evals_single
    ));

    // ---- pairs (thorough) ------------------------------------------------------
    if thorough {
        let mut pair_jobs: Vec<(u32, u16, u16)> = Vec::new();
        for (ci, c) in cfgs.iter().enumerate() {
            for a in 0..c.menu.len() {
                for b in a + 1..c.menu.len() {
                    if c.menu[a].target != c.menu[b].target {
                        pair_jobs.push((ci as u32, a as u16, b as u16));
                    }
                }
            }
        }
        let skipped = std::sync::atomic::AtomicU64::new(0);
        let known: BTreeSet<String> = rep.violations.keys().cloned().collect();
        enumr::par_range(pair_jobs.len() as u64, &mut rep, |i, local| {
            let (ci, a, b) = pair_jobs[i as usize];
            let (ci, a, b) = (ci as usize, a as usize, b as usize);
            let cfg = &cfgs[ci];
            let (ca, cb) = (&cfg.menu[a], &cfg.menu[b]);
            let Some(bytes) = build(&cfg.base, &[ca, cb]) else {
                skipped.fetch_add(1, std::sync::atomic::Ordering::Relaxed);
                return;
            };
            let alone = |ri: usize| {
                vec![
                    singles[ci][a].get().map(|v| v[ri].clone()).unwrap_or_default(),
                    singles[ci][b].get().map(|v| v[ri].clone()).unwrap_or_default(),
                ]
            };
            eval_all_roles(cfg, &[ca.id.as_str(), cb.id.as_str()], &bytes, &alone, &known, &shared, local);
        });
        rep.notes.push(format!(
            "pairs: {} pairs of corruptions on two distinct attributes (the block counts as one) of which {} do not compose (e.g. cut inside an omitted attribute), x 4 roles = {} evaluations",
            pair_jobs.len(),
            skipped.load(std::sync::atomic::Ordering::Relaxed),
            rep.evaluations - evals_single
        ));
    }
    rep.distinct_nontrivial = shared.count();
    rep.exhaustive = true;
    rep.rule = format!(
        "valid UPDATE frames built by hand (shapes legacy reach+withdraw / MP_REACH+MP_UNREACH v6 / both; all {} attribute kinds; ascending and descending order; 2- and 4-octet AS) x every entry of the corruption menu (per attribute: length field +-1/0 raw and consistent, optional / transitive / both / partial flag flips, illegal values, duplicate, omission; per block: unknown well-known, cut / total-length at every attribute boundary and 4 positions inside every attribute, total length +1/+NLRI/past end, withdrawn length +-1) {} x roles Ebgp/RsClient/Ibgp/ConfedEbgp (is_ebgp as the daemon computes it). distinct non-trivial = distinct (frame bytes, AS width) in which the independent RFC 7606 reference receiver finds at least one fault",
        all_items(false).len(),
        if thorough { "singly and in all pairs on distinct attributes" } else { "singly" }
    );
    let (roles, prov) = daemon_is_ebgp_roles();
    rep.notes.push(format!("assume: the daemon passes is_ebgp=true exactly for roles {:?} (read from {})", roles.iter().map(|r| r.name()).collect::<Vec<_>>(), prov));
    rep.notes.push("assume: session negotiated IPv4+IPv6 unicast, no ADD-PATH, no extended next hop, 4096-byte messages; IbgpRrClient behaves as Ibgp on the receive path".into());
    rep.notes.push("assume: permissive readings: partial bit never judged; NEXT_HOP 0.0.0.0 and NEXT_HOP without legacy NLRI not judged; content of PREFIX_SID/LS/TUNNEL_ENCAP not judged; malformed ATOMIC_AGGREGATE/AGGREGATOR may be discarded (RFC 7606 7.6/7.7); duplicate non-MP attribute: first kept or withdraw; attribute overrunning the block and MP attributes with wrong flags: treat-as-withdraw or reset".into());
    rep
}

// ===========================================================================
// Replay
// ===========================================================================

fn field<'a>(case: &'a str, key: &str) -> Option<&'a str> {
    case.split(';').find_map(|kv| kv.strip_prefix(key).and_then(|r| r.strip_prefix('=')))
}

fn find_config<'a>(cfgs: &'a [Config], base: &str, two_byte: bool) -> Option<&'a Config> {
    cfgs.iter().find(|c| c.name() == base && c.two_byte == two_byte)
}

/// case = "as=<2|4>;role=<Role>;base=<shape>/<asc|desc>;corr=<id>[,<id>];bytes=<hex>"
/// (`bytes` is authoritative; base/corr name the corruption for the signature
/// and are re-generated for comparison).  `role=*` replays all roles.
fn run_replay(mut rep: Report, case: &str) -> Report {
    if let Some(rest) = case.strip_prefix("dump:") {
        // "dump:<base>:<as>": table of every single corruption of one base (for reading)
        let mut it = rest.split(':');
        let (base, two_byte) = (it.next().unwrap_or("mixed/asc"), it.next() == Some("2"));
        let cfgs = configs();
        if let Some(cfg) = find_config(&cfgs, base, two_byte) {
            for c in &cfg.menu {
                let Some(bytes) = build(&cfg.base, &[c]) else { continue };
                let mut line = format!("{:<44}", c.id);
                for role in [Role::Ebgp, Role::Ibgp] {
                    let ev = evaluate(&bytes, two_byte, role);
                    let mut names: Vec<String> = ev.exp.hard.iter().map(|f| format!("H:{}", f.name())).collect();
                    names.extend(ev.exp.disc.iter().map(|f| format!("D:{}", f.name())));
                    names.extend(ev.exp.missing.iter().map(|c| format!("M:{}", attr_name(*c))));
                    names.extend(ev.exp.dups.iter().map(|d| format!("dup:{}", attr_name(d.code))));
                    if !ev.exp.structural.is_empty() {
                        names.push(format!("S:{}", ev.exp.structural[0]));
                    }
                    line.push_str(&format!(" | {}: {} [{}] -> {}{}", role.name(), ev.exp.class(), names.join(","), ev.obs.class(), if ev.findings.is_empty() { "" } else { " !!" }));
                }
                eprintln!("{line}");
                rep.evaluations += 2;
            }
        }
        return rep;
    }
    let two_byte = field(case, "as") == Some("2");
    let roles: Vec<Role> = match field(case, "role").and_then(Role::parse) {
        Some(r) => vec![r],
        None => ROLES.to_vec(),
    };
    let cfgs = configs();
    let cfg = field(case, "base").and_then(|b| find_config(&cfgs, b, two_byte));
    let ids: Vec<&str> = field(case, "corr").filter(|c| *c != "none").map(|c| c.split(',').collect()).unwrap_or_default();
    let corrs: Vec<&Corr> = match cfg {
        Some(c) => ids.iter().filter_map(|id| c.menu.iter().find(|m| m.id == *id)).collect(),
        None => vec![],
    };
    let regenerated = cfg.and_then(|c| if corrs.len() == ids.len() { build(&c.base, &corrs) } else { None });
    let bytes = match field(case, "bytes") {
        Some(h) => unhex(h),
        None => match &regenerated {
            Some(b) => b.clone(),
            None => {
                rep.machinery_error = Some("replay: case has no bytes= and base/corr cannot be regenerated".into());
                return rep;
            }
        },
    };
    if let Some(r) = &regenerated {
        if *r != bytes {
            eprintln!("c05 replay: NOTE bytes differ from what base/corr generate now ({} vs {} bytes)", bytes.len(), r.len());
        }
    }
    eprintln!("c05 replay: {} bytes, as width {}, corruptions {:?}", bytes.len(), if two_byte { 2 } else { 4 }, ids);
    eprintln!("c05 replay: frame {}", hex(&bytes));
    for role in roles {
        let ev = evaluate(&bytes, two_byte, role);
        rep.evaluations += 1;
        eprintln!("c05 replay: role {} (is_ebgp={})", role.name(), role.daemon_is_ebgp());
        eprintln!("  reference: class={} reset_ok={} relaxed={} must_withdraw={}", ev.exp.class(), ev.exp.reset_ok, ev.exp.relaxed, ev.exp.must_withdraw);
        for s in &ev.exp.structural {
            eprintln!("    structural: {s}");
        }
        for f in &ev.exp.hard {
            eprintln!("    hard: {} -- {}", f.name(), f.why);
        }
        for f in &ev.exp.disc {
            eprintln!("    discardable: {} -- {}", f.name(), f.why);
        }
        for c in &ev.exp.missing {
            eprintln!("    missing mandatory: {}", attr_name(*c));
        }
        for d in &ev.exp.dups {
            eprintln!("    duplicate: {}", attr_name(d.code));
        }
        eprintln!("    announced: {}", ev.exp.announced.iter().map(|p| p.show()).collect::<Vec<_>>().join(" "));
        eprintln!("    withdrawn: {}", ev.exp.withdrawn.iter().map(|p| p.show()).collect::<Vec<_>>().join(" "));
        eprintln!("  subject: {}", ev.obs.show());
        // attribution of pair findings needs the singles
        let alone: Vec<BTreeSet<Key>> = if ids.len() > 1 && corrs.len() == ids.len() {
            corrs
                .iter()
                .map(|c| match build(&cfg.unwrap().base, &[c]) {
                    Some(b) => keys(&evaluate(&b, two_byte, role).findings),
                    None => BTreeSet::new(),
                })
                .collect()
        } else {
            vec![BTreeSet::new(); ids.len()]
        };
        let cs = match cfg {
            Some(c) => case_string(c, role, &ids, &bytes),
            None => format!("as={};role={};base=?;corr={};bytes={}", if two_byte { 2 } else { 4 }, role.name(), ids.join(","), hex(&bytes)),
        };
        for f in &ev.findings {
            let sig = signature(f, &alone);
            eprintln!("  VIOLATION {sig}: {}", f.what);
            rep.violation(Violation { sig, what: f.what.clone(), case: cs.clone() });
        }
        if ev.findings.is_empty() {
            eprintln!("  no violation");
        }
    }
    rep.rule = "replay of one case".into();
    rep.distinct_nontrivial = 1;
    rep
}

// ===========================================================================
// Corpus for the end-to-end replay (in-crate harness)
// ===========================================================================

#[derive(Clone, Debug)]
pub struct Case {
    /// "<base>;as=<w>;<corruption ids>"
    pub name: String,
    pub bytes: Vec<u8>,
    /// `PairDesc::name()` of the session: `mkmsg::pair_from_desc(Family::IPV6, &PairDesc::parse(..))`
    pub codec_desc: String,
    pub two_byte_as: bool,
    pub role: Role,
    /// the `is_ebgp` value the daemon computes for `role`
    pub is_ebgp: bool,
    pub expected: Expect,
}

/// Single-corruption cases (plus the valid bases).  quick: the "mixed" shape in
/// ascending order, 4-octet AS, all roles; otherwise every base, AS width and
/// role.  Pairs are not materialised (millions of frames): compose them with
/// `corpus_pair`.
pub fn corpus(quick: bool) -> Vec<Case> {
    let mut out = Vec::new();
    for cfg in configs() {
        if quick && !(cfg.shape == Shape::Mixed && !cfg.reversed && !cfg.two_byte) {
            continue;
        }
        let mut frames: Vec<(String, Vec<u8>)> = vec![("none".into(), cfg.base.frame())];
        for c in &cfg.menu {
            if let Some(b) = build(&cfg.base, &[c]) {
                frames.push((c.id.clone(), b));
            }
        }
        for (id, bytes) in frames {
            for role in ROLES {
                out.push(Case {
                    name: format!("{};as={};{}", cfg.name(), if cfg.two_byte { 2 } else { 4 }, id),
                    bytes: bytes.clone(),
                    codec_desc: codec_desc(cfg.two_byte).name(),
                    two_byte_as: cfg.two_byte,
                    role,
                    is_ebgp: role.daemon_is_ebgp(),
                    expected: reference(&bytes, cfg.two_byte, role),
                });
            }
        }
    }
    out
}

/// One pair case by corruption ids on the given base ("mixed/asc", ...).
pub fn corpus_pair(base: &str, two_byte: bool, role: Role, id_a: &str, id_b: &str) -> Option<Case> {
    let cfgs = configs();
    pair_case(find_config(&cfgs, base, two_byte)?, role, id_a, id_b)
}

/// Batch form of `corpus_pair`: the configurations are built once; one entry per (id_a, id_b).
pub fn corpus_pairs(base: &str, two_byte: bool, role: Role, ids: &[(String, String)]) -> Vec<Option<Case>> {
    let cfgs = configs();
    let cfg = find_config(&cfgs, base, two_byte);
    ids.iter().map(|(a, b)| cfg.and_then(|c| pair_case(c, role, a, b))).collect()
}

fn pair_case(cfg: &Config, role: Role, id_a: &str, id_b: &str) -> Option<Case> {
    let two_byte = cfg.two_byte;
    let a = cfg.menu.iter().find(|m| m.id == id_a)?;
    let b = cfg.menu.iter().find(|m| m.id == id_b)?;
    if a.target == b.target {
        return None;
    }
    let bytes = build(&cfg.base, &[a, b])?;
    Some(Case {
        name: format!("{};as={};{},{}", cfg.name(), if two_byte { 2 } else { 4 }, id_a, id_b),
        expected: reference(&bytes, two_byte, role),
        bytes,
        codec_desc: codec_desc(two_byte).name(),
        two_byte_as: two_byte,
        role,
        is_ebgp: role.daemon_is_ebgp(),
    })
}
