// C02 — selected and ranked paths are always maximal under the stated decision order.
//
// Part (a): bounded-exhaustive enumeration of small path sets (all ordered
//   pairs of a product of small colliding per-step domains, all ordered triples
//   over a cover), each inserted into a fresh real `Table` in EVERY arrival order.
// Part (b): explicit-state BFS (vx::bfs) over histories on one prefix mixing
//   insert / replace / remove / peer drop / restale / restale_llgr /
//   drop_stale / drop_llgr_stale / next-hop validity flips / reconnect.
//
// The oracle is the statement's chain written as a boring step-by-step
// comparison over a description of the path that the HARNESS generated
// (`RefPath`); it never parses attributes with the code under test and never
// calls the subject's comparator.

use crate::universe::*;
use crate::vx::bfs::{self, BfsCfg, Model};
use crate::vx::enumr;
use crate::vx::report::{self, Report, Violation};
use rustybgp_packet::evpn::{Esi, EvpnNlri, MacIpAdvertisement};
use rustybgp_packet::rd::RouteDistinguisher;
use rustybgp_packet::{Attribute, Family, Nlri};
use rustybgp_table::{InsertResult, NlriChange, PeerRole, Source, Table, TableQuery};
use std::cmp::Ordering;
use std::collections::{BTreeMap, BTreeSet};
use std::net::{IpAddr, Ipv4Addr};
use std::sync::Arc;

// In the big sweeps of part (a) descriptions ("what") are not formatted per
// violation: only the signature and the case are kept, and the text is produced
// once per signature by re-running the kept witness.
thread_local! {
    static TERSE: std::cell::Cell<bool> = const { std::cell::Cell::new(false) };
}
fn terse() -> bool {
    TERSE.with(|t| t.get())
}
macro_rules! w {
    ($($a:tt)*) => { if terse() { String::new() } else { format!($($a)*) } };
}

// ---------------------------------------------------------------------------
// Reference model
// ---------------------------------------------------------------------------

/// What the statement's decision order looks at, per path.  Filled in from the
/// harness's own description of the path it built.
#[derive(Clone, Debug, PartialEq, Eq)]
struct RefPath {
    /// MAC-mobility sequence number (EVPN type-2 prefixes only)
    mm: Option<u32>,
    /// LLGR-stale: source flag OR LLGR_STALE community
    llgr: bool,
    /// LOCAL_PREF, 100 when absent
    lp: u32,
    /// AS hops: SEQ members, 1 per AS_SET, 0 for confederation segments
    aslen: usize,
    origin: u8,
    /// learned over eBGP (Ebgp, RsClient); iBGP and confed-eBGP are false
    ext: bool,
    /// graceful-restart stale (source flag)
    gr: bool,
    /// CLUSTER_LIST length
    cl: usize,
    /// ORIGINATOR_ID if present, else the peer's router-id
    oid: u32,
}

const STEPS: [&str; 9] = [
    "mac-mobility",
    "llgr-stale",
    "local-pref",
    "as-path",
    "origin",
    "ebgp",
    "gr-stale",
    "cluster-list",
    "router-id",
];
const STEP_RID: usize = 8;
const STEP_ASPATH: usize = 3;

/// One step of the statement's chain.  Less = `a` is preferred.
/// `reading` only matters for the MAC-mobility step: 0 = an absent community
/// counts as sequence 0 (RFC 7432 §15), 1 = a present community beats an
/// absent one, then higher sequence.  The statement does not say, both are accepted.
fn step_cmp(step: usize, a: &RefPath, b: &RefPath, evpn: bool, reading: u8) -> Ordering {
    match step {
        0 => {
            if !evpn {
                Ordering::Equal
            } else if reading == 0 {
                b.mm.unwrap_or(0).cmp(&a.mm.unwrap_or(0))
            } else {
                (b.mm.is_some(), b.mm.unwrap_or(0)).cmp(&(a.mm.is_some(), a.mm.unwrap_or(0)))
            }
        }
        1 => a.llgr.cmp(&b.llgr),
        2 => b.lp.cmp(&a.lp),
        3 => a.aslen.cmp(&b.aslen),
        4 => a.origin.cmp(&b.origin),
        5 => b.ext.cmp(&a.ext),
        6 => a.gr.cmp(&b.gr),
        7 => a.cl.cmp(&b.cl),
        _ => a.oid.cmp(&b.oid),
    }
}

/// Full chain: (ordering, deciding step or 9 when completely tied).
fn ref_cmp(a: &RefPath, b: &RefPath, evpn: bool, reading: u8) -> (Ordering, usize) {
    for s in 0..9 {
        let o = step_cmp(s, a, b, evpn, reading);
        if o != Ordering::Equal {
            return (o, s);
        }
    }
    (Ordering::Equal, 9)
}

/// Tied on every step before the router-id step.
fn tied_before_rid(a: &RefPath, b: &RefPath, evpn: bool, reading: u8) -> Option<usize> {
    (0..STEP_RID).find(|&s| step_cmp(s, a, b, evpn, reading) != Ordering::Equal)
}

// ---------------------------------------------------------------------------
// Attribute kinds (shared by both parts)
// ---------------------------------------------------------------------------

/// (segment type, member count) list per AS_PATH shape.
fn asp_spec(i: u8) -> Vec<(u8, usize)> {
    const SET: u8 = 1;
    const SEQ: u8 = 2;
    const CSEQ: u8 = 3;
    const CSET: u8 = 4;
    match i {
        0 => vec![],
        1 => vec![(SEQ, 1)],
        2 => vec![(SEQ, 2)],
        3 => vec![(SET, 2)],
        4 => vec![(CSEQ, 2), (SEQ, 1)],
        5 => vec![(SEQ, 255), (SEQ, 1)],
        6 => vec![(SEQ, 255), (SEQ, 255)],
        7 => vec![(SEQ, 255), (SEQ, 3)],
        _ => vec![(CSET, 2), (SET, 3), (SEQ, 1)],
    }
}
const ASP_NAMES: [&str; 9] = ["empty", "SEQ1", "SEQ2", "SET2", "CSEQ2+SEQ1", "SEQ255+SEQ1", "SEQ255+SEQ255", "SEQ255+SEQ3", "CSET2+SET3+SEQ1"];

/// Hop count by the statement: SEQ counts its members, an AS_SET one, confederation segments zero.
fn ref_as_len(spec: &[(u8, usize)]) -> usize {
    let mut n = 0usize;
    for (t, c) in spec {
        match t {
            2 => n += c,
            1 => n += 1,
            _ => {}
        }
    }
    n
}

fn asp_attr(i: u8) -> Attribute {
    let spec = asp_spec(i);
    let segs: Vec<(u8, Vec<u32>)> = spec
        .iter()
        .enumerate()
        .map(|(k, (t, c))| (*t, (0..*c).map(|j| 65100 + ((j + 7 * k) as u32 % 97)).collect()))
        .collect();
    as_path(&segs)
}

/// EXTENDED_COMMUNITY attribute of an EVPN path.  `mm` selects how (and whether) the
/// MAC-mobility community (RFC 7432 §7.7: type 0x06, sub-type 0x00, flags, reserved,
/// 4-octet sequence number) is embedded among other extended communities:
///   1 seq 0 alone, 2 seq 5 alone,
///   3 seq 5 preceded by an ESI Label (0x06/0x01) and followed by a Route Target,
///   4 NO MAC mobility, but a Router's MAC community (0x06/0x03) whose last octets would
///     read as a large sequence number.
fn evpn_ext_communities(mm: u8) -> Attribute {
    let mobility = |seq: u32| {
        let mut ec = vec![0x06u8, 0x00, 0x00, 0x00];
        ec.extend_from_slice(&seq.to_be_bytes());
        ec
    };
    let esi_label = vec![0x06u8, 0x01, 0x00, 0x00, 0x00, 0x00, 0x00, 0x64];
    let route_target = vec![0x00u8, 0x02, 0xfd, 0xe8, 0x00, 0x00, 0x00, 0x01];
    let router_mac = vec![0x06u8, 0x03, 0x02, 0x00, 0x7f, 0xff, 0xff, 0xff];
    let bin: Vec<u8> = match mm {
        1 => mobility(0),
        2 => mobility(5),
        3 => [esi_label, mobility(5), route_target].concat(),
        _ => [router_mac, route_target].concat(),
    };
    Attribute::new_with_bin(Attribute::EXTENDED_COMMUNITY, bin).unwrap()
}

/// Attribute content of a path.
#[derive(Clone, Copy, Debug, PartialEq, Eq, Hash, PartialOrd, Ord)]
struct AttrK {
    /// 0 none, 1 sequence 0, 2 sequence 5, 3 sequence 5 among other communities, 4 other EVPN communities only
    mm: u8,
    /// carries the LLGR_STALE community
    comm: bool,
    /// 0 absent, 1 = 100, 2 = 200
    lp: u8,
    asp: u8,
    origin: u8,
    /// CLUSTER_LIST length 0 (absent), 1, 2
    cl: u8,
    orig: Option<u32>,
    /// MED present (not part of the stated order; must not matter)
    med: bool,
}

fn mm_val(mm: u8) -> Option<u32> {
    match mm {
        0 | 4 => None,
        1 => Some(0),
        _ => Some(5),
    }
}

fn build_attrs(k: &AttrK) -> Vec<Attribute> {
    let mut v = vec![origin(k.origin as u32), asp_attr(k.asp)];
    if k.med {
        v.push(med(5));
    }
    match k.lp {
        0 => {}
        1 => v.push(local_pref(100)),
        _ => v.push(local_pref(200)),
    }
    if k.comm {
        v.push(communities(&[(65000u32 << 16) | 1, LLGR_STALE]));
    }
    if let Some(o) = k.orig {
        v.push(originator(o));
    }
    match k.cl {
        0 => {}
        1 => v.push(cluster_list(&[0x0b000001])),
        _ => v.push(cluster_list(&[0x0b000001, 0x0b000002])),
    }
    if k.mm != 0 {
        v.push(evpn_ext_communities(k.mm));
    }
    v
}

fn is_ext(role: PeerRole) -> bool {
    // the statement: "eBGP over iBGP/confed-eBGP"; a route-server client is an eBGP peer
    matches!(role, PeerRole::Ebgp | PeerRole::RsClient)
}

fn ref_of(k: &AttrK, role: PeerRole, rid: u32, gr: bool, llgr_flag: bool) -> RefPath {
    RefPath {
        mm: mm_val(k.mm),
        llgr: llgr_flag || k.comm,
        lp: match k.lp {
            2 => 200,
            _ => 100,
        },
        aslen: ref_as_len(&asp_spec(k.asp)),
        origin: k.origin,
        ext: is_ext(role),
        gr,
        cl: k.cl as usize,
        oid: k.orig.unwrap_or(rid),
    }
}

fn attr_name(k: &AttrK) -> String {
    format!(
        "{}lp{} {} o{} cl{}{}{}{}",
        match k.mm {
            0 => "".to_string(),
            3 => "esi-label+mm5+rt ".to_string(),
            4 => "router-mac+rt(no-mm) ".to_string(),
            m => format!("mm{} ", mm_val(m).unwrap()),
        },
        ["-", "100", "200"][k.lp as usize],
        ASP_NAMES[k.asp as usize],
        k.origin,
        k.cl,
        if k.comm { " LLGR_STALE" } else { "" },
        match k.orig {
            Some(o) => format!(" orig{:x}", o),
            None => String::new(),
        },
        if k.med { " med" } else { "" }
    )
}

const ROLES: [PeerRole; 5] = [PeerRole::Ebgp, PeerRole::RsClient, PeerRole::Ibgp, PeerRole::IbgpRrClient, PeerRole::ConfedEbgp];
const ROLE_NAMES: [&str; 5] = ["ebgp", "rs", "ibgp", "rrc", "confed"];

fn evpn_net() -> Nlri {
    Nlri::Evpn(EvpnNlri::MacIpAdvertisement(MacIpAdvertisement {
        rd: RouteDistinguisher::TwoOctetAs { admin: 1, assigned: 1 },
        esi: Esi::ZERO,
        etag: 0,
        mac: [0xaa, 0xbb, 0xcc, 0xdd, 0xee, 0x01],
        ip: None,
        label1: 100,
        label2: None,
    }))
}

fn the_net(evpn: bool) -> (Family, Nlri) {
    if evpn { (Family::L2VPN_EVPN, evpn_net()) } else { (Family::IPV4, v4(10, 1, 0, 0, 24)) }
}

// ---------------------------------------------------------------------------
// Observation of the subject and the oracle
// ---------------------------------------------------------------------------

/// One path of the current set, as the harness knows it.
#[derive(Clone)]
struct PInfo {
    label: String,
    r: RefPath,
    filtered: bool,
    nh_invalid: bool,
    rs_client: bool,
    addr: IpAddr,
    src_ptr: usize,
    attr_ptr: usize,
}

impl PInfo {
    fn eligible(&self) -> bool {
        !self.filtered && !self.nh_invalid
    }
}

const UNKNOWN: usize = usize::MAX;

fn ident(paths: &[PInfo], src: &Arc<Source>, attr: &Arc<Vec<Attribute>>) -> usize {
    let s = Arc::as_ptr(src) as usize;
    let a = Arc::as_ptr(attr) as usize;
    paths.iter().position(|p| p.src_ptr == s && p.attr_ptr == a).unwrap_or(UNKNOWN)
}

#[derive(Clone, Debug, PartialEq, Eq)]
struct Ranking {
    ranked: Vec<usize>,
    ecmp: Vec<usize>,
    best: Option<usize>,
}

fn ranking_of(paths: &[PInfo], c: &NlriChange) -> Ranking {
    Ranking {
        ranked: c.current_paths.iter().map(|p| ident(paths, &p.source, &p.attr)).collect(),
        ecmp: c.ecmp_paths().iter().map(|p| ident(paths, &p.source, &p.attr)).collect(),
        best: c.new_best().map(|p| ident(paths, &p.source, &p.attr)),
    }
}

struct Obs {
    rk: Ranking,
    /// destinations(Global, enable_filtered = false), as ListPath shows it
    global: Vec<usize>,
    /// (viewer, shown paths) for destinations(RsLocal(viewer))
    rs: Vec<(IpAddr, Vec<usize>)>,
}

fn observe_table(t: &Table, fam: Family, net: &Nlri, paths: &[PInfo], viewers: &[IpAddr]) -> Obs {
    let dump = t.collect_loc_rib_paths(&fam);
    let rk = match dump.iter().find(|c| &c.net == net) {
        Some(c) => ranking_of(paths, c),
        None => Ranking { ranked: vec![], ecmp: vec![], best: None },
    };
    let mut global = Vec::new();
    for d in t.destinations(TableQuery::Global, fam, vec![], false) {
        if &d.net == net {
            global = d.paths.iter().map(|p| ident(paths, &p.source, &p.attr)).collect();
        }
    }
    let mut rs = Vec::new();
    for v in viewers {
        let mut shown = Vec::new();
        for d in t.destinations(TableQuery::RsLocal(*v), fam, vec![], false) {
            if &d.net == net {
                shown = d.paths.iter().map(|p| ident(paths, &p.source, &p.attr)).collect();
            }
        }
        rs.push((*v, shown));
    }
    Obs { rk, global, rs }
}

fn lab(paths: &[PInfo], i: usize) -> String {
    if i == UNKNOWN { "<unknown path>".into() } else { paths[i].label.clone() }
}
fn labs(paths: &[PInfo], v: &[usize]) -> String {
    let x: Vec<String> = v.iter().map(|&i| lab(paths, i)).collect();
    format!("[{}]", x.join(" | "))
}

/// Signature tail for a mis-ordered pair: `x` is placed before `y` although
/// `y` is preferred at reference step `d`.
fn order_shape(x: &RefPath, y: &RefPath, d: usize, evpn: bool, reading: u8) -> String {
    if d == STEP_ASPATH && x.aslen.max(y.aslen) > 255 {
        return "as-path-length-over-255".into();
    }
    // the first later step at which the wrongly preferred path is better: the
    // step the subject apparently let decide
    // (classification only: beyond 255 hops the subject's 8-bit hop counter may have made `x`
    // look shorter, so the AS_PATH step also counts as "x better" when it is so modulo 256)
    let s = (d + 1..9).find(|&s| {
        step_cmp(s, x, y, evpn, reading) == Ordering::Less || (s == STEP_ASPATH && x.aslen.max(y.aslen) > 255 && x.aslen % 256 < y.aslen % 256)
    });
    format!("{}-vs-{}", STEPS[d], s.map(|s| STEPS[s]).unwrap_or("none"))
}

/// First adjacent pair of the ranked list that is out of order under the reference.
fn first_misordered(paths: &[PInfo], ranked: &[usize], evpn: bool, reading: u8) -> Option<(usize, usize)> {
    let known: Vec<usize> = ranked.iter().copied().filter(|&i| i != UNKNOWN).collect();
    known.windows(2).find(|w| ref_cmp(&paths[w[0]].r, &paths[w[1]].r, evpn, reading).0 == Ordering::Greater).map(|w| (w[0], w[1]))
}

/// Ranking clauses (membership, order, best, ECMP) for one ranked list.
/// Returns (violations, order_or_membership_broken).
fn judge_ranking(paths: &[PInfo], rk: &Ranking, evpn: bool, reading: u8, whence: &str) -> (Vec<(String, String)>, bool) {
    let mut out = Vec::new();
    let elig: Vec<usize> = (0..paths.len()).filter(|&i| paths[i].eligible()).collect();
    let mut broken = false;
    // membership
    let mut seen = BTreeSet::new();
    for &i in &rk.ranked {
        if i == UNKNOWN {
            out.push(("C02/eligibility/unknown-path-listed".into(), w!("{whence}: the ranked list {} contains a path that is not in the RIB", labs(paths, &rk.ranked))));
            broken = true;
            continue;
        }
        if !seen.insert(i) {
            out.push(("C02/eligibility/duplicate-entry".into(), w!("{whence}: the ranked list {} lists {} twice", labs(paths, &rk.ranked), lab(paths, i))));
            broken = true;
        }
        if paths[i].filtered {
            out.push(("C02/eligibility/filtered-listed/ranking".into(), w!("{whence}: path {} was rejected by import policy but is in the ranked list {}", lab(paths, i), labs(paths, &rk.ranked))));
            broken = true;
        } else if paths[i].nh_invalid {
            out.push(("C02/eligibility/nexthop-invalid-listed/ranking".into(), w!("{whence}: path {} has an unreachable next hop but is in the ranked list {}", lab(paths, i), labs(paths, &rk.ranked))));
            broken = true;
        }
    }
    for &e in &elig {
        if !seen.contains(&e) {
            out.push(("C02/eligibility/eligible-missing".into(), w!("{whence}: eligible path {} is missing from the ranked list {}", lab(paths, e), labs(paths, &rk.ranked))));
            broken = true;
        }
    }
    // order: sorted non-increasingly by the reference (adjacent pairs suffice for a total preorder)
    let known: Vec<usize> = rk.ranked.iter().copied().filter(|&i| i != UNKNOWN).collect();
    for w in known.windows(2) {
        let (x, y) = (&paths[w[0]].r, &paths[w[1]].r);
        let (o, d) = ref_cmp(x, y, evpn, reading);
        if o == Ordering::Greater {
            out.push((
                format!("C02/order/{}", order_shape(x, y, d, evpn, reading)),
                w!(
                    "{whence}: ranked list {} places {} before {} although the latter is preferred at step '{}' of the stated order",
                    labs(paths, &rk.ranked),
                    lab(paths, w[0]),
                    lab(paths, w[1]),
                    STEPS[d]
                ),
            ));
            broken = true;
            break;
        }
    }
    // best
    match rk.best {
        None => {
            if !elig.is_empty() && !broken {
                out.push(("C02/best/none-selected".into(), w!("{whence}: no best path although {} are eligible", labs(paths, &elig))));
            }
        }
        Some(b) => {
            if !broken {
                if b == UNKNOWN || !paths[b].eligible() {
                    out.push(("C02/best/ineligible-selected".into(), w!("{whence}: best path {} is not eligible", lab(paths, b))));
                } else if let Some(&e) = elig.iter().find(|&&e| ref_cmp(&paths[e].r, &paths[b].r, evpn, reading).0 == Ordering::Less) {
                    let d = ref_cmp(&paths[e].r, &paths[b].r, evpn, reading).1;
                    out.push((format!("C02/best/not-maximal/{}", STEPS[d]), w!("{whence}: best path is {} but {} beats it at step '{}'", lab(paths, b), lab(paths, e), STEPS[d])));
                }
            }
        }
    }
    // ECMP: the longest prefix of the ranking whose members tie with the best before the router-id step.
    // Only judged when the ranking itself is right (root cause first).  For EVPN the ECMP
    // set has no consumer (the FIB only takes IP prefixes): only prefix-ness is checked there.
    if !broken {
        let is_prefix = rk.ecmp.len() <= rk.ranked.len() && rk.ecmp.iter().zip(rk.ranked.iter()).all(|(a, b)| a == b);
        if !is_prefix {
            out.push(("C02/ecmp/not-a-prefix".into(), w!("{whence}: ecmp_paths {} is not a prefix of the ranked list {}", labs(paths, &rk.ecmp), labs(paths, &rk.ranked))));
        } else if !evpn && !rk.ranked.is_empty() {
            let b = &paths[rk.ranked[0]].r;
            let want = rk.ranked.iter().take_while(|&&i| tied_before_rid(b, &paths[i].r, evpn, reading).is_none()).count();
            if rk.ecmp.len() > want {
                let m = rk.ranked[want];
                let s = tied_before_rid(b, &paths[m].r, evpn, reading).unwrap();
                let shape = if s == STEP_ASPATH && b.aslen.max(paths[m].r.aslen) > 255 { "as-path-length-over-255".to_string() } else { format!("includes-path-differing-at-{}", STEPS[s]) };
                out.push((
                    format!("C02/ecmp/{shape}"),
                    w!("{whence}: ecmp_paths {} includes {} which differs from the best path at step '{}' (before the router-id step)", labs(paths, &rk.ecmp), lab(paths, m), STEPS[s]),
                ));
            } else if rk.ecmp.len() < want {
                out.push((
                    "C02/ecmp/excludes-tied-path".into(),
                    w!("{whence}: ecmp_paths {} stops before {} which ties with the best path on every step before router-id", labs(paths, &rk.ecmp), lab(paths, rk.ranked[rk.ecmp.len()])),
                ));
            }
        }
    }
    (out, broken)
}

/// All clauses for one observed table state under one reading of the MAC-mobility step.
fn judge(paths: &[PInfo], obs: &Obs, evpn: bool, reading: u8) -> Vec<(String, String)> {
    let (mut out, broken) = judge_ranking(paths, &obs.rk, evpn, reading, "Loc-RIB dump");
    // Global view (ListPath): same head, eligible paths in the same order
    let g_known: Vec<usize> = obs.global.iter().copied().filter(|&i| i != UNKNOWN).collect();
    if obs.global.iter().any(|&i| i == UNKNOWN) {
        out.push(("C02/eligibility/unknown-path-listed".into(), "destinations(Global) lists a path that is not in the RIB".into()));
    }
    if let Some(&f) = g_known.iter().find(|&&i| paths[i].filtered) {
        out.push(("C02/eligibility/filtered-listed/global-view".into(), w!("destinations(Global, enable_filtered=false) lists the policy-rejected path {}", lab(paths, f))));
    }
    // the head of the list is what API clients read as the best path: when a best path was
    // selected it must be the head.  (With no eligible path at all the listing of excluded
    // paths is not judged: the statement only speaks about what is selected.)
    if let (Some(&h), Some(b)) = (g_known.first(), obs.rk.best) {
        if h != b && paths[h].nh_invalid && !paths[h].filtered {
            out.push((
                "C02/eligibility/nexthop-invalid-listed/global-view".into(),
                w!(
                    "destinations(Global) lists {} first (the position API clients read as best) although its next hop is unreachable; the selected best {} comes after it",
                    lab(paths, h),
                    lab(paths, b)
                ),
            ));
        }
    }
    let g_elig: Vec<usize> = g_known.iter().copied().filter(|&i| paths[i].eligible()).collect();
    if !broken && g_elig != obs.rk.ranked {
        out.push(("C02/global-view/differs-from-ranking".into(), w!("destinations(Global) orders the eligible paths {} but the ranked list is {}", labs(paths, &g_elig), labs(paths, &obs.rk.ranked))));
    }
    // RS-local view: a reference-maximal path among the other RS clients' unfiltered paths
    for (viewer, shown) in &obs.rs {
        let cands: Vec<usize> = (0..paths.len()).filter(|&i| paths[i].rs_client && paths[i].addr != *viewer && !paths[i].filtered).collect();
        if cands.is_empty() {
            if !shown.is_empty() {
                out.push(("C02/rs-local/shown-without-candidate".into(), w!("RsLocal({viewer}) shows {} but no other RS client has an unfiltered path", labs(paths, shown))));
            }
            continue;
        }
        if shown.len() != 1 || shown[0] == UNKNOWN || !cands.contains(&shown[0]) {
            out.push(("C02/rs-local/wrong-candidate-set".into(), w!("RsLocal({viewer}) shows {} but the candidates are {}", labs(paths, shown), labs(paths, &cands))));
            continue;
        }
        let s = shown[0];
        let maximal_in = |set: &[usize]| set.contains(&s) && !set.iter().any(|&c| ref_cmp(&paths[c].r, &paths[s].r, evpn, reading).0 == Ordering::Less);
        // accepted: maximal among all unfiltered candidates, or among those whose next hop is reachable
        let valid: Vec<usize> = cands.iter().copied().filter(|&i| !paths[i].nh_invalid).collect();
        if maximal_in(&cands) || (!valid.is_empty() && maximal_in(&valid)) {
            continue;
        }
        // does the pick follow the table's own order (then the mis-ranking is the root cause)?
        let all_order: Vec<usize> = {
            // entry order as shown by the global view restricted to candidates
            g_known.iter().copied().filter(|i| cands.contains(i)).collect()
        };
        let follows = all_order.first() == Some(&s);
        let better = cands.iter().copied().find(|&c| ref_cmp(&paths[c].r, &paths[s].r, evpn, reading).0 == Ordering::Less).unwrap();
        let d = ref_cmp(&paths[better].r, &paths[s].r, evpn, reading).1;
        out.push((
            format!("C02/rs-local/not-maximal/{}", if follows { "follows-table-order" } else { "against-table-order" }),
            w!("RsLocal({viewer}) shows {} but RS client path {} beats it at step '{}' (candidates in table order: {})", lab(paths, s), lab(paths, better), STEPS[d], labs(paths, &all_order)),
        ));
    }
    out
}

/// Judge under every accepted reading; the state passes if it passes under one.
fn judge_any(paths: &[PInfo], obs: &Obs, evpn: bool) -> (Vec<(String, String)>, u8) {
    let v1 = judge(paths, obs, evpn, 1);
    if !evpn || v1.is_empty() {
        return (v1, 1);
    }
    let v0 = judge(paths, obs, evpn, 0);
    if v0.len() < v1.len() { (v0, 0) } else { (v1, 1) }
}

fn has_complete_tie(paths: &[PInfo], evpn: bool) -> bool {
    let e: Vec<&PInfo> = paths.iter().filter(|p| p.eligible()).collect();
    for i in 0..e.len() {
        for j in i + 1..e.len() {
            if (0..2).any(|rd| ref_cmp(&e[i].r, &e[j].r, evpn, rd).0 == Ordering::Equal) {
                return true;
            }
        }
    }
    false
}

fn classify_panic(msg: &str) -> String {
    let loc = bfs::panic_loc(msg);
    let file = loc.split(':').next().unwrap_or("?").to_string();
    if msg.contains("overflow") && file == "bgp.rs" {
        "C02/panic/as-path-length-overflow".into()
    } else {
        format!("C02/panic/{}", loc)
    }
}

// ---------------------------------------------------------------------------
// Part (a): pairs and triples, every arrival order
// ---------------------------------------------------------------------------

/// A path kind of part (a): one value per decision step plus eligibility.
#[derive(Clone, Copy, Debug, PartialEq, Eq, Hash, PartialOrd, Ord)]
struct Kind {
    mm: u8,     // 0 none, 1 seq 0, 2 seq 5, 3 seq 5 among other ext. communities, 4 other EVPN ext. communities only
    llgr: u8,   // 0 no, 1 source flag, 2 LLGR_STALE community
    lp: u8,     // 0 absent, 1 = 100, 2 = 200
    asp: u8,    // index into asp_spec
    origin: u8, // 0 1 2
    role: u8,   // index into ROLES
    gr: u8,     // 0 no, 1 source marked stale
    cl: u8,     // 0 absent, 1, 2
    rid: u8,    // 0 low router-id, 1 high router-id, 2 ORIGINATOR_ID below both, 3 ORIGINATOR_ID shared by all
    elig: u8,   // 0 ok, 1 filtered, 2 next hop unreachable
}

const KDIMS: usize = 10;
const FULL: [usize; KDIMS] = [5, 3, 3, 9, 3, 5, 2, 3, 4, 3];

impl Kind {
    fn from(d: &[u8]) -> Kind {
        Kind { mm: d[0], llgr: d[1], lp: d[2], asp: d[3], origin: d[4], role: d[5], gr: d[6], cl: d[7], rid: d[8], elig: d[9] }
    }
    fn arr(&self) -> [u8; KDIMS] {
        [self.mm, self.llgr, self.lp, self.asp, self.origin, self.role, self.gr, self.cl, self.rid, self.elig]
    }
    fn code(&self) -> String {
        self.arr().iter().map(|x| x.to_string()).collect::<Vec<_>>().join(".")
    }
    fn parse(s: &str) -> Option<Kind> {
        let d: Vec<u8> = s.split('.').filter_map(|x| x.parse().ok()).collect();
        if d.len() != KDIMS || d.iter().zip(FULL.iter()).any(|(v, m)| *v as usize >= *m) {
            return None;
        }
        Some(Kind::from(&d))
    }
    fn attrk(&self, slot: usize) -> AttrK {
        AttrK {
            mm: self.mm,
            comm: self.llgr == 2,
            lp: self.lp,
            asp: self.asp,
            origin: self.origin,
            cl: self.cl,
            orig: match self.rid {
                2 => Some(0x0a000001 + slot as u32),
                3 => Some(0x0a000000),
                _ => None,
            },
            med: false,
        }
    }
    fn router_id(&self, slot: usize) -> u32 {
        match self.rid {
            0 => 0x0a0a0010 + slot as u32,
            _ => 0x0a0a0080 + slot as u32,
        }
    }
    fn describe(&self, slot: usize) -> String {
        format!(
            "p{}<{} {}{}{} rid{:x}{}>",
            slot,
            ROLE_NAMES[self.role as usize],
            attr_name(&self.attrk(slot)),
            if self.llgr == 1 { " llgr-flag" } else { "" },
            if self.gr == 1 { " gr-stale" } else { "" },
            self.router_id(slot),
            ["", " FILTERED", " NH-INVALID"][self.elig as usize]
        )
    }
}

/// Product of per-dimension value lists.
fn product(dom: &[Vec<u8>; KDIMS]) -> Vec<Kind> {
    let dims: Vec<usize> = dom.iter().map(|d| d.len()).collect();
    let n = enumr::product_size(&dims);
    (0..n)
        .map(|i| {
            let dg = enumr::digits(i, &dims);
            let v: Vec<u8> = dg.iter().enumerate().map(|(k, &x)| dom[k][x]).collect();
            Kind::from(&v)
        })
        .collect()
}

/// (signature, description — empty in terse mode —, arrival order or None for a set-level clause)
type SetViol = (String, String, Option<Vec<usize>>);

struct SetOutcome {
    viols: Vec<SetViol>,
    tables: u64,
    nontrivial: bool,
    /// deciding step between the two best eligible paths (for non-vacuity counters)
    decided: Option<usize>,
    outcome: String,
}

fn case_str(tag: &str, evpn: bool, kinds: &[Kind], order: Option<&[usize]>) -> String {
    format!(
        "A:{}:{}:{}:{}",
        tag,
        if evpn { "evpn" } else { "v4" },
        kinds.iter().map(|k| k.code()).collect::<Vec<_>>().join("/"),
        match order {
            Some(o) => o.iter().map(|x| x.to_string()).collect::<Vec<_>>().join(""),
            None => "*".into(),
        }
    )
}

/// Build the slot's Source/attributes and the harness-side description.
fn slot_objects(kinds: &[Kind]) -> (Vec<Arc<Source>>, Vec<Arc<Vec<Attribute>>>, Vec<PInfo>) {
    let mut srcs = Vec::new();
    let mut attrs = Vec::new();
    let mut infos = Vec::new();
    for (slot, k) in kinds.iter().enumerate() {
        let role = ROLES[k.role as usize];
        let s = source(slot as u8 + 1, role, k.router_id(slot));
        if k.gr == 1 {
            s.mark_stale();
        }
        if k.llgr == 1 {
            s.mark_llgr_stale();
        }
        let ak = k.attrk(slot);
        let a = Arc::new(build_attrs(&ak));
        infos.push(PInfo {
            label: if terse() { String::new() } else { k.describe(slot) },
            r: ref_of(&ak, role, k.router_id(slot), k.gr == 1, k.llgr == 1),
            filtered: k.elig == 1,
            nh_invalid: k.elig == 2,
            rs_client: role == PeerRole::RsClient,
            addr: s.remote_addr,
            src_ptr: Arc::as_ptr(&s) as usize,
            attr_ptr: Arc::as_ptr(&a) as usize,
        });
        srcs.push(s);
        attrs.push(a);
    }
    (srcs, attrs, infos)
}

/// One set of kinds, all arrival orders.
fn run_set(_tag: &str, evpn: bool, kinds: &[Kind], perms: &[Vec<usize>], verbose: bool) -> SetOutcome {
    let (fam, net) = the_net(evpn);
    let mut viols: Vec<SetViol> = Vec::new();
    let mut tables = 0u64;
    let mut finals: Vec<(Vec<usize>, Ranking)> = Vec::new();
    let (srcs, attrs, infos) = slot_objects(kinds);
    let mut viewers: Vec<IpAddr> = infos.iter().map(|p| p.addr).collect();
    viewers.push(IpAddr::V4(Ipv4Addr::new(10, 0, 0, 200)));
    for order in perms {
        tables += 1;
        let r = report::catch(|| {
            let mut t = Table::new(0);
            let mut out: Vec<(String, String)> = Vec::new();
            let mut present: Vec<usize> = Vec::new();
            let mut last = None;
            for (step, &slot) in order.iter().enumerate() {
                let k = &kinds[slot];
                let res = t.insert(
                    srcs[slot].clone(),
                    fam,
                    net.clone(),
                    0,
                    nh4(1 + slot as u8),
                    attrs[slot].clone(),
                    None,
                    k.elig == 1,
                    k.elig == 2,
                    None,
                    0,
                );
                present.push(slot);
                // the oracle sees only the paths inserted so far (indexed among present slots, slot order)
                let slots_present: Vec<usize> = (0..infos.len()).filter(|i| present.contains(i)).collect();
                let cur: Vec<PInfo> = slots_present.iter().map(|&i| infos[i].clone()).collect();
                let obs = observe_table(&t, fam, &net, &cur, &viewers);
                let (mut v, reading) = judge_any(&cur, &obs, evpn);
                if let InsertResult::Changed(c) = &res {
                    let rk = ranking_of(&cur, c);
                    if rk != obs.rk {
                        let (v2, _) = judge_ranking(&cur, &rk, evpn, reading, "change returned by insert");
                        v.extend(v2);
                    }
                }
                if verbose {
                    eprintln!(
                        "    after insert #{step} ({}): ranked {} ecmp {} global {} rs {:?} -> {} violation(s)",
                        infos[slot].label,
                        labs(&cur, &obs.rk.ranked),
                        obs.rk.ecmp.len(),
                        labs(&cur, &obs.global),
                        obs.rs.iter().map(|(a, s)| format!("{a}:{}", labs(&cur, s))).collect::<Vec<_>>(),
                        v.len()
                    );
                }
                out.extend(v);
                if step + 1 == order.len() {
                    // final ranking expressed in slot numbers
                    let to_slot = |v: &Vec<usize>| v.iter().map(|&i| if i == UNKNOWN { UNKNOWN } else { slots_present[i] }).collect::<Vec<usize>>();
                    last = Some(Ranking { ranked: to_slot(&obs.rk.ranked), ecmp: to_slot(&obs.rk.ecmp), best: obs.rk.best.map(|b| if b == UNKNOWN { UNKNOWN } else { slots_present[b] }) });
                }
            }
            (out, last)
        });
        match r {
            Ok((out, last)) => {
                let mut seen = BTreeSet::new();
                for (sig, what) in out {
                    if seen.insert(sig.clone()) {
                        viols.push((sig, what, Some(order.clone())));
                    }
                }
                if let Some(l) = last {
                    finals.push((order.clone(), l));
                }
            }
            Err(msg) => {
                viols.push((
                    classify_panic(&msg),
                    w!(
                        "the table panicked while selecting among {} (arrival order {:?}): {msg}; best-path selection must work for every AS_PATH that fits a message",
                        infos.iter().map(|p| p.label.clone()).collect::<Vec<_>>().join(" | "),
                        order
                    ),
                    Some(order.clone()),
                ));
                // the set cannot be judged in this build profile: the other arrival orders are not tried
                break;
            }
        }
    }
    // arrival-order independence (sets without complete ties)
    if finals.len() > 1 && !has_complete_tie(&infos, evpn) {
        let first = &finals[0];
        if let Some(other) = finals.iter().find(|f| f.1.ranked != first.1.ranked) {
            // which pair flips?
            let a = &first.1.ranked;
            let b = &other.1.ranked;
            let mut shape = "membership".to_string();
            'o: for i in 0..a.len() {
                for j in i + 1..a.len() {
                    let (x, y) = (a[i], a[j]);
                    let (px, py) = (b.iter().position(|&z| z == x), b.iter().position(|&z| z == y));
                    if let (Some(px), Some(py)) = (px, py) {
                        if px > py && x != UNKNOWN && y != UNKNOWN {
                            let d = ref_cmp(&infos[x].r, &infos[y].r, evpn, 1).1;
                            shape = STEPS[d.min(8)].to_string();
                            break 'o;
                        }
                    }
                }
            }
            let sig = format!("C02/arrival-order-dependent/{shape}");
            // a distinct clause of the statement ("not on the order in which they arrived"): reported
            // even when the individual rankings were already flagged
            viols.push((
                sig,
                w!(
                    "the same set of paths ranks as {} when arriving in order {:?} but as {} in order {:?}",
                    labs(&infos, &first.1.ranked),
                    first.0,
                    labs(&infos, &other.1.ranked),
                    other.0
                ),
                None,
            ));
        }
    }
    let elig: Vec<usize> = (0..infos.len()).filter(|&i| infos[i].eligible()).collect();
    let nontrivial = elig.len() >= 2;
    let mut decided = None;
    if nontrivial {
        // deciding step between the reference-best and the runner-up
        let mut e = elig.clone();
        e.sort_by(|&x, &y| ref_cmp(&infos[x].r, &infos[y].r, evpn, 1).0);
        decided = Some(ref_cmp(&infos[e[0]].r, &infos[e[1]].r, evpn, 1).1);
    }
    let outcome = match finals.first() {
        Some((_, rk)) => format!("n{}:{}:e{}", infos.len(), rk.ranked.iter().map(|x| if *x == UNKNOWN { "?".into() } else { x.to_string() }).collect::<Vec<_>>().join(""), rk.ecmp.len()),
        None => "panic".into(),
    };
    SetOutcome { viols, tables, nontrivial, decided, outcome }
}

/// Witness of a signature found in part (a); the smallest one (this order) is kept, so the
/// kept witness does not depend on the thread schedule.
#[derive(Clone, PartialEq, Eq, PartialOrd, Ord)]
struct Wit {
    /// involves an AS_PATH over 255 hops (witnesses without one are preferred: they isolate one cause)
    long: bool,
    n: usize,
    evpn: bool,
    kinds: Vec<Kind>,
    order: Option<Vec<usize>>,
    tag: String,
}

struct Local {
    rep: Report,
    sigs: BTreeMap<String, (u64, Wit)>,
}

fn note_sig(sigs: &mut BTreeMap<String, (u64, Wit)>, sig: String, n: u64, wit: impl FnOnce() -> Wit, better: impl Fn(&Wit) -> bool) {
    match sigs.get_mut(&sig) {
        Some((c, old)) => {
            *c += n;
            if better(old) {
                *old = wit();
            }
        }
        None => {
            sigs.insert(sig, (n, wit()));
        }
    }
}

fn account(local: &mut Local, tag: &str, evpn: bool, kinds: &[Kind], o: SetOutcome, idx: u64) {
    let rep = &mut local.rep;
    rep.evaluations += o.tables;
    if o.nontrivial {
        rep.distinct_nontrivial += 1;
    }
    rep.add(&format!("a.{tag}.sets"), 1);
    if let Some(d) = o.decided {
        rep.add(&format!("a.decided-at.{}", if d >= 9 { "complete-tie" } else { STEPS[d] }), 1);
    }
    rep.add(&format!("a.outcome.{}", o.outcome), 1);
    if !o.viols.is_empty() {
        rep.add(&format!("a.{tag}.sets-with-violation"), 1);
    }
    for (sig, _, order) in o.viols {
        let long = kinds.iter().any(|k| ref_as_len(&asp_spec(k.asp)) > 255);
        let mk = || Wit { long, n: kinds.len(), evpn, kinds: kinds.to_vec(), order: order.clone(), tag: tag.to_string() };
        note_sig(&mut local.sigs, sig, 1, mk, |old| (long, kinds.len(), evpn, kinds, &order, tag) < (old.long, old.n, old.evpn, &old.kinds[..], &old.order, old.tag.as_str()));
    }
    // sampled by index only (never by what a worker happened to see first)
    if idx % 400_009 == 17 + rep.seed() % 1000 {
        rep.samples.push(format!("{} = {}", case_str(tag, evpn, kinds, None), kinds.iter().enumerate().map(|(i, k)| k.describe(i)).collect::<Vec<_>>().join(" vs ")));
    }
}

/// Wall-clock budget of part (a) (a guard for an overloaded machine; hitting it is reported as a cap).
static DEADLINE: std::sync::Mutex<Option<std::time::Instant>> = std::sync::Mutex::new(None);

/// Evaluate `f(i, local)` for every i in 0..n on all workers; counters are summed, per signature
/// the smallest witness is kept.
fn par_sets<F: Fn(u64, &mut Local) + Sync>(n: u64, rep: &mut Report, sigs: &mut BTreeMap<String, (u64, Wit)>, f: F) {
    let workers = bfs::workers();
    let deadline = *DEADLINE.lock().unwrap();
    let capped = std::sync::atomic::AtomicBool::new(false);
    let next = std::sync::atomic::AtomicU64::new(0);
    let block: u64 = (n / (workers as u64 * 64)).clamp(1, 4096);
    let done: std::sync::Mutex<Vec<Local>> = std::sync::Mutex::new(Vec::new());
    let (prop, part) = (rep.property.clone(), rep.part.clone());
    std::thread::scope(|s| {
        for _ in 0..workers {
            std::thread::Builder::new()
                .stack_size(32 << 20)
                .spawn_scoped(s, || {
                    TERSE.with(|t| t.set(true));
                    let mut local = Local { rep: Report::new(&prop, &part), sigs: BTreeMap::new() };
                    loop {
                        let start = next.fetch_add(block, std::sync::atomic::Ordering::Relaxed);
                        if start >= n {
                            break;
                        }
                        if deadline.is_some_and(|d| std::time::Instant::now() > d) {
                            capped.store(true, std::sync::atomic::Ordering::Relaxed);
                            break;
                        }
                        for i in start..(start + block).min(n) {
                            f(i, &mut local);
                        }
                    }
                    done.lock().unwrap().push(local);
                })
                .expect("spawn");
        }
    });
    if capped.load(std::sync::atomic::Ordering::Relaxed) {
        rep.exhaustive = false;
        rep.caps_hit.push(format!("part (a): wall-clock budget exhausted inside a sweep of {n} sets; the sweep was not completed"));
    }
    let mut locals = done.into_inner().unwrap();
    // merge order must not matter: counters are sums, witnesses are minima, samples are sorted
    let mut samples: Vec<String> = Vec::new();
    for l in locals.iter_mut() {
        samples.append(&mut l.rep.samples);
    }
    samples.sort();
    for l in locals {
        for (sig, (c, w)) in l.sigs {
            let w2 = w.clone();
            note_sig(sigs, sig, c, move || w, |old| w2 < *old);
        }
        rep.merge(l.rep);
    }
    for sm in samples.into_iter().take(3) {
        if rep.samples.len() < 12 {
            rep.samples.push(sm);
        }
    }
}

/// All ordered pairs over `kinds`.
fn sweep_pairs(tag: &str, evpn: bool, kinds: &[Kind], rep: &mut Report, sigs: &mut BTreeMap<String, (u64, Wit)>) {
    let k = kinds.len() as u64;
    let perms = enumr::permutations(2);
    let t0 = std::time::Instant::now();
    let before = rep.evaluations;
    par_sets(k * k, rep, sigs, |i, local| {
        let set = [kinds[(i / k) as usize], kinds[(i % k) as usize]];
        let o = run_set(tag, evpn, &set, &perms, false);
        account(local, tag, evpn, &set, o, i);
    });
    rep.notes.push(format!(
        "(a) {tag}: {} kinds, {} ordered pairs, both arrival orders each: {} tables built and judged, wall {:.1}s",
        k,
        k * k,
        rep.evaluations - before,
        t0.elapsed().as_secs_f64()
    ));
}

/// All ordered triples over `kinds`.
fn sweep_triples(tag: &str, evpn: bool, kinds: &[Kind], rep: &mut Report, sigs: &mut BTreeMap<String, (u64, Wit)>) {
    let k = kinds.len() as u64;
    let perms = enumr::permutations(3);
    let t0 = std::time::Instant::now();
    let before = rep.evaluations;
    par_sets(k * k * k, rep, sigs, |i, local| {
        let set = [kinds[(i / (k * k)) as usize], kinds[((i / k) % k) as usize], kinds[(i % k) as usize]];
        let o = run_set(tag, evpn, &set, &perms, false);
        account(local, tag, evpn, &set, o, i);
    });
    rep.notes.push(format!(
        "(a) {tag}: {} cover kinds, {} ordered triples, all 6 arrival orders each: {} tables built and judged, wall {:.1}s",
        k,
        k * k * k,
        rep.evaluations - before,
        t0.elapsed().as_secs_f64()
    ));
}

fn dom(v: [&[u8]; KDIMS]) -> [Vec<u8>; KDIMS] {
    [v[0].to_vec(), v[1].to_vec(), v[2].to_vec(), v[3].to_vec(), v[4].to_vec(), v[5].to_vec(), v[6].to_vec(), v[7].to_vec(), v[8].to_vec(), v[9].to_vec()]
}

/// Reduced product for IPv4 (mm fixed to none).
fn reduced_v4() -> [Vec<u8>; KDIMS] {
    //      mm    llgr        lp      as-path      origin  role(ebgp,ibgp) gr     cl      rid     elig
    dom([&[0], &[0, 1, 2], &[0, 2], &[1, 2, 5], &[0, 2], &[0, 2], &[0, 1], &[0, 1], &[0, 1], &[0, 2]])
}

/// Two values per step (the base of the axis sweeps).
fn two_v4() -> [Vec<u8>; KDIMS] {
    dom([&[0], &[0, 1], &[1, 2], &[1, 2], &[0, 2], &[0, 2], &[0, 1], &[0, 1], &[0, 1], &[0, 1]])
}

fn three_v4() -> [Vec<u8>; KDIMS] {
    dom([&[0], &[0, 1, 2], &[0, 1, 2], &[1, 2, 5, 6], &[0, 1, 2], &[0, 2, 4], &[0, 1], &[0, 1], &[0, 1, 2], &[0, 1]])
}

fn reduced_evpn() -> [Vec<u8>; KDIMS] {
    dom([&[0, 1, 2, 3, 4], &[0, 1], &[1, 2], &[1, 2], &[0], &[0, 2], &[0, 1], &[0], &[0, 1], &[0, 1]])
}

/// Cover for the triples: a baseline, every single-step deviation (better and
/// worse where the domain has one), and — `doubles` — every "worse at step i,
/// better at a later step j" kind, which is what exposes a mis-placed step.
fn cover(evpn: bool, doubles: bool) -> Vec<Kind> {
    // baseline: middle values so that both a better and a worse neighbour exist
    let base = Kind { mm: if evpn { 1 } else { 0 }, llgr: 0, lp: 1, asp: 2, origin: 1, role: 2, gr: 0, cl: 1, rid: 1, elig: 0 };
    // per ranking dimension: (better values, worse values)
    let better: [&[u8]; KDIMS] = [&[2, 3], &[], &[2], &[1, 3, 4], &[0], &[0, 1], &[], &[0], &[0, 2], &[]];
    let worse: [&[u8]; KDIMS] = [&[0, 4], &[1, 2], &[], &[5, 6, 7], &[2], &[4], &[1], &[2], &[3], &[1, 2]];
    let set = |k: &Kind, d: usize, v: u8| {
        let mut a = k.arr();
        a[d] = v;
        Kind::from(&a)
    };
    let mut out = vec![base];
    let first = if evpn { 0 } else { 1 };
    for d in first..KDIMS {
        for &v in better[d].iter().chain(worse[d].iter()) {
            out.push(set(&base, d, v));
        }
    }
    // lp absent (= 100) collides with the baseline
    out.push(set(&base, 2, 0));
    if doubles {
        for i in first..9 {
            for j in i + 1..9 {
                if let (Some(&w), Some(&b)) = (worse[i].first(), better[j].first()) {
                    out.push(set(&set(&base, i, w), j, b));
                }
                if let (Some(&b), Some(&w)) = (better[i].first(), worse[j].first()) {
                    out.push(set(&set(&base, i, b), j, w));
                }
            }
        }
    }
    out.sort();
    out.dedup();
    out
}

/// Axis sweep: step `d` takes its full domain, the others two values each.
fn axis_kinds(d: usize) -> Vec<Kind> {
    let mut dm = two_v4();
    dm[d] = (0..FULL[d] as u8).collect();
    product(&dm)
}

fn part_a(rep: &mut Report) {
    let thorough = rep.thorough();
    *DEADLINE.lock().unwrap() = Some(std::time::Instant::now() + std::time::Duration::from_secs(if thorough { 1500 } else { 40 }));
    let mut sigs: BTreeMap<String, (u64, Wit)> = BTreeMap::new();
    let kinds = product(&reduced_v4());
    sweep_pairs("pairs-v4", false, &kinds, rep, &mut sigs);
    let ek = product(&reduced_evpn());
    sweep_pairs("pairs-evpn", true, &ek, rep, &mut sigs);
    // every AS_PATH shape (all four segment types, empty path, > 255 hops) against every other,
    // with a later step (eBGP/iBGP, router-id) able to overturn a wrong length
    let shapes = product(&dom([&[0], &[0], &[1], &[0, 1, 2, 3, 4, 5, 6, 7, 8], &[0], &[0, 2], &[0], &[0], &[0, 1], &[0]]));
    sweep_pairs("aspath-shapes-v4", false, &shapes, rep, &mut sigs);
    sweep_triples("triples-v4", false, &cover(false, thorough), rep, &mut sigs);
    sweep_triples("triples-evpn", true, &cover(true, false), rep, &mut sigs);
    if thorough {
        for d in 1..KDIMS {
            let ks = axis_kinds(d);
            sweep_pairs(&format!("axis{}-v4", d), false, &ks, rep, &mut sigs);
        }
        let k3 = product(&three_v4());
        sweep_pairs("pairs3-v4", false, &k3, rep, &mut sigs);
    }
    // one description per signature: re-run the kept witness with full texts
    for (sig, (count, w)) in sigs {
        let perms: Vec<Vec<usize>> = match &w.order {
            Some(o) => vec![o.clone()],
            None => enumr::permutations(w.n),
        };
        let o = run_set(&w.tag, w.evpn, &w.kinds, &perms, false);
        let case = case_str(&w.tag, w.evpn, &w.kinds, w.order.as_deref());
        match o.viols.into_iter().find(|v| v.0 == sig) {
            Some((_, what, _)) => {
                rep.violations.insert(sig.clone(), (Violation { sig, what, case }, count));
            }
            None => {
                rep.machinery_error = Some(format!("witness {case} of {sig} did not reproduce"));
            }
        }
    }
}

fn replay_a(case: &str, rep: &mut Report) {
    // A:<tag>:<fam>:<k/k/k>:<order|*>
    let f: Vec<&str> = case.split(':').collect();
    if f.len() != 5 {
        rep.machinery_error = Some(format!("bad case {case}"));
        return;
    }
    let evpn = f[2] == "evpn";
    let kinds: Option<Vec<Kind>> = f[3].split('/').map(Kind::parse).collect();
    let Some(kinds) = kinds else {
        rep.machinery_error = Some(format!("bad kinds in {case}"));
        return;
    };
    let perms: Vec<Vec<usize>> = if f[4] == "*" {
        enumr::permutations(kinds.len())
    } else {
        vec![f[4].chars().filter_map(|c| c.to_digit(10).map(|x| x as usize)).collect()]
    };
    for (i, k) in kinds.iter().enumerate() {
        eprintln!("  {}", k.describe(i));
    }
    for p in &perms {
        eprintln!("  arrival order {:?}", p);
        let o = run_set(f[1], evpn, &kinds, std::slice::from_ref(p), true);
        rep.evaluations += o.tables;
        for v in &o.viols {
            eprintln!("    VIOLATION {} :: {}", v.0, v.1);
        }
        rep.violations_from(o.viols.into_iter().map(|(sig, what, _)| Violation { sig, what, case: case.to_string() }).collect());
    }
    if perms.len() > 1 {
        let o = run_set(f[1], evpn, &kinds, &perms, false);
        rep.violations_from(o.viols.into_iter().filter(|v| v.0.starts_with("C02/arrival-order")).map(|(sig, what, _)| Violation { sig, what, case: case.to_string() }).collect());
    }
}

// ---------------------------------------------------------------------------
// Part (b): histories on one prefix
// ---------------------------------------------------------------------------

#[derive(Clone, Debug, PartialEq)]
enum Op {
    Insert { peer: u8, id: u32, kind: u8, nh: u8, filtered: bool },
    Remove { peer: u8, id: u32 },
    /// session ends without GR: Table::drop; next session = new Source
    Drop { peer: u8 },
    /// session ends with GR: Table::restale; next session = new Source
    Restale { peer: u8 },
    /// LLGR period starts: restale_llgr (+ drop_no_llgr as the daemon does)
    MarkLlgr { peer: u8 },
    DropStale { peer: u8 },
    DropLlgrStale { peer: u8 },
    Reconnect { peer: u8 },
    Nh { nh: u8, up: bool },
    /// restarting speaker: notifications of the family are held back; eligibility and order are not
    StartDeferral,
    EndDeferral,
}

struct Rec {
    kind: u8,
    nh: u8,
    filtered: bool,
}

pub struct Sys {
    t: Table,
    sessions: [Vec<Arc<Source>>; 3],
    up: [bool; 3],
    invalid: BTreeSet<u8>,
    /// (source ptr, remote path id) -> what the harness inserted there
    mirror: BTreeMap<(usize, u32), Rec>,
    /// signatures currently failing: reported only on the step that breaks them
    broken: BTreeSet<String>,
    deferring: bool,
    ever_deferred: bool,
}

pub struct HistModel {
    name: String,
    evpn: bool,
    roles: [PeerRole; 3],
    rids: [u32; 3],
    kinds: Vec<(&'static str, AttrK)>,
    ops: Vec<Op>,
    max_sessions: usize,
}

const PEER_NAMES: [&str; 3] = ["A", "B", "C"];

impl HistModel {
    fn op_str(&self, o: &Op) -> String {
        let p = |x: &u8| PEER_NAMES[*x as usize];
        match o {
            Op::Insert { peer, id, kind, nh, filtered } => format!("insert({},id{},{},N{}{})", p(peer), id, self.kinds[*kind as usize].0, nh + 1, if *filtered { ",filtered" } else { "" }),
            Op::Remove { peer, id } => format!("remove({},id{})", p(peer), id),
            Op::Drop { peer } => format!("drop({})", p(peer)),
            Op::Restale { peer } => format!("restale({})", p(peer)),
            Op::MarkLlgr { peer } => format!("restale_llgr({})", p(peer)),
            Op::DropStale { peer } => format!("drop_stale({})", p(peer)),
            Op::DropLlgrStale { peer } => format!("drop_llgr_stale({})", p(peer)),
            Op::Reconnect { peer } => format!("reconnect({})", p(peer)),
            Op::Nh { nh, up } => format!("nexthop(N{},{})", nh + 1, if *up { "up" } else { "down" }),
            Op::StartDeferral => "start_deferral".to_string(),
            Op::EndDeferral => "end_deferral".to_string(),
        }
    }
    fn mk_source(&self, peer: u8) -> Arc<Source> {
        source(peer + 1, self.roles[peer as usize], self.rids[peer as usize])
    }
    fn session_index(sys: &Sys, ptr: usize) -> Option<(usize, usize)> {
        for (p, v) in sys.sessions.iter().enumerate() {
            for (i, s) in v.iter().enumerate() {
                if Arc::as_ptr(s) as usize == ptr {
                    return Some((p, i));
                }
            }
        }
        None
    }

    /// The current set of paths as the table lists it (all entries, entry order),
    /// described from the harness's records and the sources' current flags.
    fn current_set(&self, sys: &Sys) -> (Vec<PInfo>, Vec<(usize, usize, u32, u8, u8, bool)>) {
        let (fam, net) = the_net(self.evpn);
        let mut infos = Vec::new();
        let mut keys = Vec::new();
        for d in sys.t.destinations(TableQuery::Global, fam, vec![], true) {
            if d.net != net {
                continue;
            }
            for pe in &d.paths {
                let sp = Arc::as_ptr(&pe.source) as usize;
                let (peer, sess) = Self::session_index(sys, sp).unwrap_or((9, 9));
                let rec = sys.mirror.get(&(sp, pe.remote_path_id));
                let (kind, nh, filtered) = match rec {
                    Some(r) => (r.kind, r.nh, r.filtered),
                    None => (0, 0, pe.filtered),
                };
                if rec.is_none() || peer == 9 || pe.filtered != filtered {
                    panic!("harness: table lists an entry the harness has no record of (peer {peer} session {sess} id {})", pe.remote_path_id);
                }
                let ak = &self.kinds[kind as usize].1;
                let gr = pe.source.is_stale();
                let lf = pe.source.is_llgr_stale();
                infos.push(PInfo {
                    label: format!(
                        "{}{}#{}<{} N{}{}{}{}{}>",
                        PEER_NAMES[peer],
                        "'".repeat(sess),
                        pe.remote_path_id,
                        self.kinds[kind as usize].0,
                        nh + 1,
                        if gr { " gr-stale" } else { "" },
                        if lf { " llgr-flag" } else { "" },
                        if filtered { " FILTERED" } else { "" },
                        if sys.invalid.contains(&nh) { " NH-INVALID" } else { "" }
                    ),
                    r: ref_of(ak, self.roles[peer], self.rids[peer], gr, lf),
                    filtered,
                    nh_invalid: sys.invalid.contains(&nh),
                    rs_client: self.roles[peer] == PeerRole::RsClient,
                    addr: pe.source.remote_addr,
                    src_ptr: sp,
                    attr_ptr: Arc::as_ptr(&pe.attr) as usize,
                });
                keys.push((peer, sess, pe.remote_path_id, kind, nh, filtered));
            }
        }
        (infos, keys)
    }

    /// Ranking a fresh table gives for the same current set (same flags), inserted in `order`.
    fn from_scratch(&self, sys: &Sys, infos: &[PInfo], keys: &[(usize, usize, u32, u8, u8, bool)], order: &[usize]) -> Vec<usize> {
        let (fam, net) = the_net(self.evpn);
        let mut t = Table::new(0);
        let mut fresh: BTreeMap<(usize, usize), Arc<Source>> = BTreeMap::new();
        let mut scratch_infos: Vec<(usize, usize)> = vec![(0, 0); infos.len()];
        for &i in order {
            let (peer, sess, id, kind, nh, filtered) = keys[i];
            let src = fresh
                .entry((peer, sess))
                .or_insert_with(|| {
                    let s = self.mk_source(peer as u8);
                    let old = &sys.sessions[peer][sess];
                    if old.is_stale() {
                        s.mark_stale();
                    }
                    if old.is_llgr_stale() {
                        s.mark_llgr_stale();
                    }
                    s
                })
                .clone();
            let a = Arc::new(build_attrs(&self.kinds[kind as usize].1));
            scratch_infos[i] = (Arc::as_ptr(&src) as usize, Arc::as_ptr(&a) as usize);
            t.insert(src, fam, net.clone(), id, nh4(1 + nh), a, None, filtered, sys.invalid.contains(&nh), None, 0);
        }
        let dump = t.collect_loc_rib_paths(&fam);
        match dump.iter().find(|c| c.net == net) {
            Some(c) => c
                .current_paths
                .iter()
                .map(|p| {
                    let k = (Arc::as_ptr(&p.source) as usize, Arc::as_ptr(&p.attr) as usize);
                    scratch_infos.iter().position(|x| *x == k).unwrap_or(UNKNOWN)
                })
                .collect(),
            None => vec![],
        }
    }

    fn check(&self, sys: &Sys, changes: &[NlriChange], opname: &str, out: &mut Vec<(String, String)>) {
        let (fam, net) = the_net(self.evpn);
        let (infos, keys) = self.current_set(sys);
        let viewers: Vec<IpAddr> = (0..3u8).map(|p| peer_addr(p + 1)).collect();
        let obs = observe_table(&sys.t, fam, &net, &infos, &viewers);
        let (v, reading) = judge_any(&infos, &obs, self.evpn);
        let mark = out.len();
        for (sig, what) in v {
            out.push((sig, format!("after {opname}: {what}")));
        }
        // what the operation itself announced (installed / exported from it)
        if let Some(c) = changes.iter().rev().find(|c| c.net == net) {
            let rk = ranking_of(&infos, c);
            if rk != obs.rk {
                let (v2, _) = judge_ranking(&infos, &rk, self.evpn, reading, "change returned by the operation");
                for (sig, what) in v2 {
                    out.push((sig, format!("after {opname}: {what}")));
                }
            }
        }
        // "the outcome depends only on the current set of paths": a fresh table fed the same
        // set (same stale flags) must rank it the same way, up to complete ties
        if !infos.is_empty() {
            let fwd: Vec<usize> = (0..infos.len()).collect();
            let rev: Vec<usize> = (0..infos.len()).rev().collect();
            for order in [&fwd, &rev] {
                let sc = self.from_scratch(sys, &infos, &keys, order);
                let live = &obs.rk.ranked;
                let same = sc.len() == live.len()
                    && sc.iter().zip(live.iter()).all(|(&a, &b)| a == b || (a != UNKNOWN && b != UNKNOWN && (0..2).any(|rd| ref_cmp(&infos[a].r, &infos[b].r, self.evpn, rd).0 == Ordering::Equal)));
                if !same {
                    let mut shape = "membership".to_string();
                    if let Some((&a, &b)) = sc.iter().zip(live.iter()).find(|(a, b)| a != b) {
                        if a != UNKNOWN && b != UNKNOWN {
                            shape = STEPS[ref_cmp(&infos[a].r, &infos[b].r, self.evpn, 1).1.min(8)].to_string();
                        }
                    }
                    // root cause first: when the fresh table orders the offending pair correctly, the
                    // wrong order of the live list is a consequence of how it was re-marked/re-sorted,
                    // not of the decision order itself -> the order clause is not reported a second time
                    if let Some((x, y)) = first_misordered(&infos, live, self.evpn, reading) {
                        let (px, py) = (sc.iter().position(|&z| z == x), sc.iter().position(|&z| z == y));
                        if matches!((px, py), (Some(a), Some(b)) if a > b) {
                            let mut k = mark;
                            while k < out.len() {
                                if out[k].0.starts_with("C02/order/") { out.remove(k); } else { k += 1; }
                            }
                        }
                    }
                    out.push((
                        format!("C02/history-dependent/{}/{}", opname.split('(').next().unwrap_or("?"), shape),
                        format!("after {opname}: the table ranks the current paths as {} but a fresh table given the same paths with the same stale flags ranks them {}", labs(&infos, live), labs(&infos, &sc)),
                    ));
                    break;
                }
            }
        }
    }
}

impl Model for HistModel {
    type Sys = Sys;
    fn name(&self) -> String {
        self.name.clone()
    }
    fn n_ops(&self) -> usize {
        self.ops.len()
    }
    fn op_name(&self, op: usize) -> String {
        self.op_str(&self.ops[op])
    }
    fn init(&self) -> Sys {
        Sys {
            t: Table::new(0),
            sessions: [vec![self.mk_source(0)], vec![self.mk_source(1)], vec![self.mk_source(2)]],
            up: [true; 3],
            invalid: BTreeSet::new(),
            mirror: BTreeMap::new(),
            broken: BTreeSet::new(),
            deferring: false,
            ever_deferred: false,
        }
    }

    fn step(&self, sys: &mut Sys, op: usize, out: &mut Vec<(String, String)>) -> bool {
        let (fam, net) = the_net(self.evpn);
        let o = &self.ops[op];
        let name = self.op_str(o);
        let mut changes: Vec<NlriChange> = Vec::new();
        let cur = |sys: &Sys, p: u8| sys.sessions[p as usize].last().unwrap().clone();
        match o {
            Op::Insert { peer, id, kind, nh, filtered } => {
                if !sys.up[*peer as usize] {
                    return false;
                }
                let src = cur(sys, *peer);
                let a = Arc::new(build_attrs(&self.kinds[*kind as usize].1));
                sys.mirror.insert((Arc::as_ptr(&src) as usize, *id), Rec { kind: *kind, nh: *nh, filtered: *filtered });
                if let InsertResult::Changed(c) = sys.t.insert(src, fam, net.clone(), *id, nh4(1 + *nh), a, None, *filtered, sys.invalid.contains(nh), None, 0) {
                    changes.push(c);
                }
            }
            Op::Remove { peer, id } => {
                if !sys.up[*peer as usize] {
                    return false;
                }
                let (c, _) = sys.t.remove(cur(sys, *peer), fam, net.clone(), *id, None);
                changes.extend(c);
            }
            Op::Drop { peer } => {
                if !sys.up[*peer as usize] {
                    return false;
                }
                let (cs, _) = sys.t.drop(peer_addr(*peer + 1), fam);
                changes.extend(cs);
                sys.up[*peer as usize] = false;
            }
            Op::Restale { peer } => {
                if !sys.up[*peer as usize] {
                    return false;
                }
                changes.extend(sys.t.restale(peer_addr(*peer + 1), fam));
                sys.up[*peer as usize] = false;
            }
            Op::MarkLlgr { peer } => {
                // LLGR period begins: directly when an LLGR-only session drops, or when the GR
                // restart timer expires while the peer is down; never while a re-established
                // session is up (the timer is cancelled then)
                if sys.up[*peer as usize] && sys.sessions[*peer as usize].len() > 1 {
                    return false;
                }
                let addr = peer_addr(*peer + 1);
                changes.extend(sys.t.restale_llgr(addr, fam));
                let (cs, _) = sys.t.drop_no_llgr(addr, fam, None);
                changes.extend(cs);
                sys.up[*peer as usize] = false;
            }
            Op::DropStale { peer } => {
                let (cs, _) = sys.t.drop_stale(peer_addr(*peer + 1), fam, None);
                changes.extend(cs);
            }
            Op::DropLlgrStale { peer } => {
                let (cs, _) = sys.t.drop_llgr_stale(peer_addr(*peer + 1), fam, None);
                changes.extend(cs);
            }
            Op::Reconnect { peer } => {
                if sys.up[*peer as usize] || sys.sessions[*peer as usize].len() >= self.max_sessions {
                    return false;
                }
                let s = self.mk_source(*peer);
                sys.sessions[*peer as usize].push(s);
                sys.up[*peer as usize] = true;
            }
            Op::Nh { nh, up } => {
                if *up == !sys.invalid.contains(nh) {
                    return false;
                }
                if *up {
                    sys.invalid.remove(nh);
                } else {
                    sys.invalid.insert(*nh);
                }
                changes.extend(sys.t.update_nexthop_validity(nh4(1 + *nh).unwrap().addr(), *up));
            }
            Op::StartDeferral => {
                if sys.deferring {
                    return false;
                }
                sys.t.start_deferral(fam);
                sys.deferring = true;
                sys.ever_deferred = true;
            }
            Op::EndDeferral => {
                if !sys.deferring {
                    return false;
                }
                changes.extend(sys.t.end_deferral(fam));
                sys.deferring = false;
            }
        }
        let mut cur_v: Vec<(String, String)> = Vec::new();
        self.check(sys, &changes, &name, &mut cur_v);
        let mut now = BTreeSet::new();
        for (sig, what) in cur_v {
            // once the live list differs from what a fresh table gives, later differences are
            // inherited damage (a list left unsorted is searched by bisection afterwards): the
            // clause is reported on the step that breaks it only
            let key = if sig.starts_with("C02/history-dependent/") { "C02/history-dependent".to_string() } else { sig.clone() };
            if !sys.broken.contains(&key) && !now.contains(&key) {
                out.push((sig, what));
            }
            now.insert(key);
        }
        sys.broken = now;
        true
    }

    fn fingerprint(&self, sys: &Sys) -> Vec<u8> {
        use std::fmt::Write;
        let mut s = String::new();
        let (_, keys) = self.current_set(sys);
        let _ = write!(s, "K{:?}", keys);
        for v in &sys.sessions {
            for x in v {
                let _ = write!(s, "s{}{}", x.is_stale() as u8, x.is_llgr_stale() as u8);
            }
            s.push('|');
        }
        let _ = write!(s, "u{:?}i{:?}b{:?}d{}{}", sys.up, sys.invalid, sys.broken, sys.deferring as u8, sys.ever_deferred as u8);
        s.into_bytes()
    }

    fn observe(&self, sys: &Sys) -> u64 {
        let (fam, net) = the_net(self.evpn);
        let (infos, keys) = self.current_set(sys);
        let obs = observe_table(&sys.t, fam, &net, &infos, &[]);
        let d: Vec<String> = obs.rk.ranked.iter().map(|&i| if i == UNKNOWN { "?".into() } else { format!("{:?}", (keys[i].0, keys[i].2, keys[i].3)) }).collect();
        bfs::hash128(format!("{:?}e{}", d, obs.rk.ecmp.len()).as_bytes()) as u64
    }

    fn panic_sig(&self, msg: &str) -> Option<(String, String)> {
        if msg.starts_with("harness:") {
            return Some(("C02/harness-error".into(), msg.to_string()));
        }
        Some((classify_panic(msg), format!("the table panicked: {msg}")))
    }
}

const K_X: AttrK = AttrK { mm: 0, comm: false, lp: 2, asp: 2, origin: 0, cl: 0, orig: None, med: false };
const K_Y: AttrK = AttrK { mm: 0, comm: false, lp: 1, asp: 1, origin: 0, cl: 0, orig: None, med: false };
const K_Z: AttrK = AttrK { mm: 0, comm: false, lp: 0, asp: 3, origin: 0, cl: 0, orig: None, med: true };
const K_O: AttrK = AttrK { mm: 0, comm: false, lp: 1, asp: 1, origin: 2, cl: 0, orig: None, med: false };
const K_S: AttrK = AttrK { mm: 0, comm: true, lp: 2, asp: 1, origin: 0, cl: 0, orig: None, med: false };
const K_W: AttrK = AttrK { mm: 0, comm: false, lp: 1, asp: 5, origin: 0, cl: 0, orig: None, med: false };
const K_C1: AttrK = AttrK { mm: 0, comm: false, lp: 1, asp: 1, origin: 0, cl: 1, orig: Some(0x0a000005), med: false };
const K_C2: AttrK = AttrK { mm: 0, comm: false, lp: 1, asp: 1, origin: 0, cl: 2, orig: Some(0x0a000004), med: false };
const K_W2: AttrK = AttrK { mm: 0, comm: false, lp: 1, asp: 6, origin: 0, cl: 0, orig: None, med: false };
const K_C1B: AttrK = AttrK { mm: 0, comm: false, lp: 1, asp: 1, origin: 0, cl: 1, orig: Some(0x0a000003), med: false };
const K_M5X: AttrK = AttrK { mm: 2, comm: false, lp: 2, asp: 1, origin: 0, cl: 0, orig: None, med: false };
const K_M5: AttrK = AttrK { mm: 2, comm: false, lp: 1, asp: 2, origin: 0, cl: 0, orig: None, med: false };
const K_M0: AttrK = AttrK { mm: 1, comm: false, lp: 2, asp: 1, origin: 0, cl: 0, orig: None, med: false };
const K_MN: AttrK = AttrK { mm: 0, comm: false, lp: 2, asp: 1, origin: 0, cl: 0, orig: None, med: false };

fn ins(peer: u8, id: u32, kind: u8, nh: u8) -> Op {
    Op::Insert { peer, id, kind, nh, filtered: false }
}
fn insf(peer: u8, id: u32, kind: u8, nh: u8) -> Op {
    Op::Insert { peer, id, kind, nh, filtered: true }
}

/// insert ops: every peer x every kind (path id 0), next hop N(peer+1) unless `nh` says otherwise
fn all_ins(nkinds: usize, nh: fn(u8) -> u8) -> Vec<Op> {
    let mut v = Vec::new();
    for k in 0..nkinds as u8 {
        for p in 0..3u8 {
            v.push(ins(p, 0, k, nh(p)));
        }
    }
    v
}

fn session_ops(peers: &[u8]) -> Vec<Op> {
    let mut v = Vec::new();
    for &p in peers {
        v.push(Op::Restale { peer: p });
        v.push(Op::MarkLlgr { peer: p });
        v.push(Op::Reconnect { peer: p });
        v.push(Op::DropStale { peer: p });
        v.push(Op::DropLlgrStale { peer: p });
    }
    v
}

fn packs() -> Vec<HistModel> {
    use PeerRole::*;
    let mk = |name: &str, evpn: bool, roles: [PeerRole; 3], rids: [u32; 3], kinds: Vec<(&'static str, AttrK)>, ops: Vec<Op>| HistModel {
        name: format!("c02-{name}"),
        evpn,
        roles,
        rids,
        kinds,
        ops,
        max_sessions: 2,
    };
    let own_nh: fn(u8) -> u8 = |p| p;
    let two_nh: fn(u8) -> u8 = |p| p % 2;
    let cat = |parts: Vec<Vec<Op>>| parts.into_iter().flatten().collect::<Vec<Op>>();
    vec![
        // stale / LLGR-stale marking against every earlier and later step
        mk(
            "stale",
            false,
            [Ebgp, Ibgp, ConfedEbgp],
            [0x0a0a0030, 0x0a0a0020, 0x0a0a0010],
            vec![("Y", K_Y), ("X", K_X), ("O", K_O), ("Z", K_Z)],
            cat(vec![all_ins(4, own_nh), session_ops(&[0, 1]), vec![Op::Drop { peer: 2 }, Op::Remove { peer: 0, id: 0 }, Op::Remove { peer: 1, id: 0 }, Op::Remove { peer: 2, id: 0 }]]),
        ),
        // LLGR_STALE community and add-path (two paths of one peer), ties before router-id
        mk(
            "llgr-comm",
            false,
            [Ebgp, Ebgp, Ibgp],
            [0x0a0a0010, 0x0a0a0020, 0x0a0a0030],
            vec![("Y", K_Y), ("X", K_X), ("S", K_S), ("Z", K_Z)],
            cat(vec![
                all_ins(4, own_nh),
                vec![ins(0, 1, 0, 0), ins(0, 1, 2, 0), Op::Remove { peer: 0, id: 1 }, Op::Remove { peer: 0, id: 0 }, Op::Remove { peer: 2, id: 0 }, Op::Drop { peer: 1 }],
                session_ops(&[0, 1]),
            ]),
        ),
        // eligibility: import-filtered paths and next-hop validity flips
        mk(
            "nht",
            false,
            [Ebgp, Ibgp, Ebgp],
            [0x0a0a0010, 0x0a0a0020, 0x0a0a0030],
            vec![("Y", K_Y), ("X", K_X), ("Z", K_Z)],
            cat(vec![
                all_ins(3, two_nh),
                vec![insf(0, 0, 1, 0), insf(1, 0, 1, 1), ins(1, 0, 1, 0), ins(2, 0, 0, 1)],
                vec![Op::Nh { nh: 0, up: false }, Op::Nh { nh: 0, up: true }, Op::Nh { nh: 1, up: false }, Op::Nh { nh: 1, up: true }],
                session_ops(&[0]),
                vec![Op::Remove { peer: 2, id: 0 }, Op::Remove { peer: 0, id: 0 }, Op::Drop { peer: 1 }],
            ]),
        ),
        // restarting speaker: next-hop flips, announcements and withdrawals while selection is deferred
        mk(
            "nht-deferral",
            false,
            [Ebgp, Ibgp, Ebgp],
            [0x0a0a0010, 0x0a0a0020, 0x0a0a0030],
            vec![("Y", K_Y), ("X", K_X)],
            cat(vec![
                vec![Op::StartDeferral, Op::EndDeferral],
                all_ins(2, two_nh),
                vec![Op::Nh { nh: 0, up: false }, Op::Nh { nh: 0, up: true }, Op::Nh { nh: 1, up: false }, Op::Nh { nh: 1, up: true }],
                vec![Op::Remove { peer: 0, id: 0 }, Op::Remove { peer: 1, id: 0 }],
            ]),
        ),
        // route server: three RS clients (the RS-local view)
        mk(
            "rs",
            false,
            [RsClient, RsClient, RsClient],
            [0x0a0a0030, 0x0a0a0020, 0x0a0a0010],
            vec![("Y", K_Y), ("X", K_X), ("O", K_O)],
            cat(vec![
                all_ins(3, own_nh),
                vec![insf(1, 0, 1, 1), insf(2, 0, 1, 2), Op::Nh { nh: 1, up: false }, Op::Nh { nh: 1, up: true }],
                session_ops(&[0]),
                vec![Op::MarkLlgr { peer: 2 }, Op::Drop { peer: 1 }, Op::Remove { peer: 2, id: 0 }, Op::Remove { peer: 0, id: 0 }],
            ]),
        ),
        // route reflection: CLUSTER_LIST / ORIGINATOR_ID steps after the stale step
        mk(
            "cluster",
            false,
            [IbgpRrClient, Ibgp, Ibgp],
            [0x0a0a0010, 0x0a0a0020, 0x0a0a0030],
            vec![("Y", K_Y), ("C1", K_C1), ("C2", K_C2), ("C1b", K_C1B)],
            cat(vec![all_ins(4, own_nh), session_ops(&[0, 1]), vec![Op::MarkLlgr { peer: 2 }, Op::DropLlgrStale { peer: 2 }, Op::Remove { peer: 2, id: 0 }, Op::Remove { peer: 0, id: 0 }]]),
        ),
        // AS_PATH beyond 255 hops against short ones
        mk(
            "longpath",
            false,
            [Ebgp, Ebgp, Ibgp],
            [0x0a0a0010, 0x0a0a0020, 0x0a0a0030],
            vec![("Y", K_Y), ("W", K_W), ("W2", K_W2), ("O", K_O)],
            cat(vec![all_ins(4, own_nh), session_ops(&[0]), vec![Op::Remove { peer: 1, id: 0 }, Op::Drop { peer: 2 }]]),
        ),
        // EVPN type-2: MAC mobility ahead of everything, also after re-marking
        mk(
            "evpn",
            true,
            [Ebgp, Ibgp, Ebgp],
            [0x0a0a0010, 0x0a0a0020, 0x0a0a0030],
            vec![("M5", K_M5), ("M0", K_M0), ("Mn", K_MN), ("M5x", K_M5X)],
            cat(vec![all_ins(4, own_nh), session_ops(&[0, 1]), vec![Op::MarkLlgr { peer: 2 }, Op::Remove { peer: 2, id: 0 }, Op::Drop { peer: 2 }]]),
        ),
    ]
}

// ---------------------------------------------------------------------------

pub fn run(replay: Option<&str>) -> Report {
    let mut rep = Report::new("C02", "hx-c02");
    let models = packs();
    if let Some(case) = replay {
        if case.starts_with("A:") {
            replay_a(case, &mut rep);
            return rep;
        }
        let Some((name, hist)) = bfs::decode_case(case) else {
            rep.machinery_error = Some("bad replay case".into());
            return rep;
        };
        let Some(m) = models.iter().find(|m| m.name == name) else {
            rep.machinery_error = Some(format!("unknown model {name}"));
            return rep;
        };
        eprintln!("replay {}", bfs::render(m, &hist));
        let vs = bfs::replay(m, &hist, true);
        rep.evaluations = 1;
        rep.violations_from(vs);
        return rep;
    }
    let thorough = rep.thorough();
    let depth = if thorough { 9 } else { 6 };
    rep.rule = format!(
        "(a) path kinds = product of small colliding per-step domains (LLGR-stale flag/community, LOCAL_PREF absent/100/200, AS_PATH shapes up to 510 hops, ORIGIN, role, GR-stale, CLUSTER_LIST, router-id/ORIGINATOR_ID, eligibility; MAC mobility for EVPN type-2); all ordered pairs of the reduced product and all ordered triples over a cover, each set inserted into a fresh real Table in every arrival order, oracle after every insert; {} \
         (b) explicit-state BFS over histories on one prefix (insert/replace/remove/drop/restale/restale_llgr/drop_stale/drop_llgr_stale/next-hop flips/reconnect), {} packs, depth {}, oracle + from-scratch comparison after every step. \
         non-trivial = set with at least two eligible paths (a) / distinct canonical state other than the initial one (b)",
        if thorough { "thorough adds per-step full-domain axis sweeps and the 3-valued product;" } else { "" },
        models.len(),
        depth
    );
    part_a(&mut rep);
    for m in &models {
        let cfg = BfsCfg { max_depth: depth, max_secs: if thorough { 900 } else { 15 }, ..Default::default() };
        bfs::bfs(m, &cfg, &mut rep);
    }
    rep.notes.push("assume: flags of part (a) are set on the Source before the insert (the state a fresh table would be given); flag flips on paths already listed are part (b)".into());
    rep.notes.push("assume: the ECMP key of EVPN type-2 destinations is not judged against the MAC-mobility step (the ECMP set is only consumed for IP prefixes)".into());
    rep
}
