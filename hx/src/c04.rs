// C04 sub-harness -- currently the SMOKE TEST of the shared generators (mkmsg.rs)
// and wire readers (wire.rs); NOT yet the C04 oracle.
//
// What it proves: every value mkmsg generates is encoded by the sender codec,
// is structurally readable by the independent wire readers, is accepted by the
// receiver codec (negotiate(remote, local)) and comes back equal (NLRI multiset,
// next hop, attributes modulo the fate documented in mkmsg::AttrFate).  A value
// that does not come back is reported as a violation with a replayable case
// string; each one found on the real code is triaged in
// /verif/notes/gen-findings.md (generator bugs were fixed instead).
//
// TODO(C04): the real oracle still has to add
//   * the entry-count ladder 0,1,2,k-1,k,k+1,2k,3k+1 per (family, attr size, add-path)
//     with the per-frame size / "no frame without NLRI while entries remain" clauses;
//   * the attribute-size ladder (mkmsg::attr_block_of_size) up to max+1;
//   * all 1024 capability pairs (mkmsg::codec_pairs_desc) incl. 2-byte-AS
//     reconciliation expectations (an independent model of RFC 6793 §4.2.3);
//   * decode(encode(decode(b))) fixed point; encode_to's returned count == frames;
//   * OPEN capability lists crossing 255 bytes (mkmsg::capability_sets_oversize);
//   * RFC 8277 §2.4 reading of withdrawals (wire::NlriOpts::withdraw).

use crate::mkmsg::{self, NlriSize, PairDesc};
use crate::vx::report::{catch, hex, Report, Violation};
use crate::wire;
use rustybgp_packet::bgp::{
    Attribute, Capability, Family, Message, Nexthop, ParsedMessage, ParsedUpdate, PathNlri, PeerCodec,

};
use std::collections::BTreeMap;

fn fam(i: usize) -> Family {
    mkmsg::families()[i]
}

fn viol(clause: &str, shape: String, what: String, case: &str) -> Violation {
    Violation { sig: format!("C04/{clause}/{shape}"), what, case: case.to_string() }
}

/// Sorted debug strings: multiset comparison without Ord on the subject types.
fn multiset<T: std::fmt::Debug>(v: &[T]) -> Vec<String> {
    let mut s: Vec<String> = v.iter().map(|x| format!("{x:?}")).collect();
    s.sort();
    s
}

struct Decoded {
    reach: Vec<PathNlri>,
    unreach: Vec<PathNlri>,
    nexthops: Vec<Option<Nexthop>>,
    attrs: Vec<Vec<Attribute>>,
    eor: Vec<Family>,
    others: usize,
    err_attrs: usize,
}

/// Encode with the sender, walk with wire.rs, decode with the receiver.
/// Err = (clause, detail).
fn transfer(
    family: Family,
    d: &PairDesc,
    msg: &Message,
    n_entries: usize,
    is_reach: bool,
) -> Result<(Vec<Vec<u8>>, Decoded), (String, String)> {
    let (mut tx, mut rx) = mkmsg::pair_from_desc(family, d);
    let frames = match catch(|| mkmsg::encode(&mut tx, msg)) {
        Err(p) => return Err(("encode-panics".into(), p)),
        Ok(Err(e)) => return Err(("encode-fails".into(), e)),
        Ok(Ok(f)) => f,
    };
    // independent structural walk
    let mut seen = 0usize;
    for (i, f) in frames.iter().enumerate() {
        let fr = wire::read_frame(f, 65535).map_err(|e| ("frame-malformed".to_string(), format!("frame {i}: {e}; bytes={}", hex(f))))?;
        if fr.len != f.len() {
            return Err(("frame-malformed".into(), format!("frame {i}: reader length {} != {}", fr.len, f.len())));
        }
        if let wire::Body::Update(u) = &fr.body {
            let o = wire::NlriOpts::reach(d.tx_addpath());
            let walk = |k: wire::NlriKind, sp: wire::Span| -> Result<usize, (String, String)> {
                wire::walk_nlri(k, o, f, sp).map(|v| v.len()).map_err(|e| ("nlri-malformed".to_string(), format!("frame {i}: {e}; bytes={}", hex(f))))
            };
            seen += walk(wire::NlriKind::Ipv4, u.withdrawn)?;
            seen += walk(wire::NlriKind::Ipv4, u.nlri)?;
            for (afi, safi, sp) in u.mp_reach.iter().map(|m| (m.afi, m.safi, m.nlri)).chain(u.mp_unreach.iter().map(|m| (m.afi, m.safi, m.nlri))) {
                if (afi, safi) != (family.afi(), family.safi()) {
                    return Err(("frame-malformed".into(), format!("frame {i}: MP attribute for {afi}/{safi}, expected {}/{}", family.afi(), family.safi())));
                }
                match wire::nlri_kind(afi, safi) {
                    Some(k) => seen += walk(k, sp)?,
                    None => seen = usize::MAX / 2, // families without an independent walker
                }
            }
        }
    }
    if seen < usize::MAX / 4 && seen != n_entries && (n_entries > 0 || is_reach) {
        return Err(("nlri-count".into(), format!("independent walk found {seen} NLRI in {} frame(s), {n_entries} were submitted", frames.len())));
    }
    // decode with the peer's codec
    let mut out = Decoded { reach: vec![], unreach: vec![], nexthops: vec![], attrs: vec![], eor: vec![], others: 0, err_attrs: 0 };
    for (i, f) in frames.iter().enumerate() {
        let parsed = match catch(|| mkmsg::decode_frame(&mut rx, f)) {
            Err(p) => return Err(("decode-panics".into(), format!("frame {i}: {p}; bytes={}", hex(f)))),
            Ok(Err(n)) => return Err(("decode-rejects".into(), format!("frame {i}: {n}; bytes={}", hex(f)))),
            Ok(Ok(m)) => m,
        };
        match parsed {
            ParsedMessage::Update(ParsedUpdate::EndOfRib(f)) => out.eor.push(f),
            ParsedMessage::Update(ParsedUpdate::Routes { reach, mp_reach, unreach, mp_unreach, attrs, error_attrs }) => {
                out.err_attrs += error_attrs.len();
                let mut any = false;
                for r in reach.into_iter().chain(mp_reach) {
                    if r.family != family {
                        return Err(("wrong-family".into(), format!("decoded reach family {:?}", r.family)));
                    }
                    out.reach.extend(r.entries);
                    out.nexthops.push(r.nexthop);
                    any = true;
                }
                if any {
                    out.attrs.push(attrs);
                }
                for u in unreach.into_iter().chain(mp_unreach) {
                    if u.family != family {
                        return Err(("wrong-family".into(), format!("decoded unreach family {:?}", u.family)));
                    }
                    out.unreach.extend(u.entries);
                }
            }
            _ => out.others += 1,
        }
    }
    Ok((frames, out))
}

/// What a conforming receiver on a 4-octet-AS session holds after decoding `a`.
fn expected_attrs(attrs: &[Attribute]) -> Vec<Attribute> {
    let mut out = Vec::new();
    for a in attrs {
        if a.is_opaque() {
            if a.flags() & 0x40 == 0 {
                continue; // optional non-transitive unknown: discarded
            }
            let body = a.binary().unwrap().clone();
            let flags = if body.len() > 255 { a.flags() | 0x10 } else { a.flags() };
            out.push(Attribute::new_opaque(a.code(), flags, body));
        } else if a.code() == Attribute::AS4_PATH || a.code() == Attribute::AS4_AGGREGATOR {
            continue;
        } else {
            out.push(a.clone());
        }
    }
    out
}

/// One UPDATE case: returns violations (empty = round-trips).
fn check_update(
    case: &str,
    family: Family,
    d: &PairDesc,
    entries: Vec<PathNlri>,
    is_reach: bool,
    nexthop: Option<Nexthop>,
    attrs: &[Attribute],
    shape_extra: &str,
    check_nh: bool,
) -> Vec<Violation> {
    let op = if is_reach { "reach" } else { "unreach" };
    let shape = format!("{}:{op}{shape_extra}", mkmsg::family_name(family));
    let msg = if is_reach { mkmsg::reach(family, entries.clone(), nexthop, attrs) } else { mkmsg::unreach(family, entries.clone()) };
    let (frames, dec) = match transfer(family, d, &msg, entries.len(), is_reach) {
        Ok(x) => x,
        Err((clause, detail)) => return vec![viol(&clause, shape, detail, case)],
    };
    let bytes = frames.first().map(|f| hex(f)).unwrap_or_default();
    let mut vs = Vec::new();
    if dec.err_attrs > 0 {
        vs.push(viol("attr-rejected", shape.clone(), format!("receiver reported {} attribute error(s) on a valid UPDATE", dec.err_attrs), case));
    }
    let want: Vec<PathNlri> = if is_reach {
        entries.clone()
    } else {
        entries.iter().map(|e| PathNlri { path_id: e.path_id, nlri: mkmsg::unreach_canonical(&e.nlri) }).collect()
    };
    let got = if is_reach { &dec.reach } else { &dec.unreach };
    let other = if is_reach { &dec.unreach } else { &dec.reach };
    if multiset(&want) != multiset(got) || !other.is_empty() {
        vs.push(viol("nlri-differs", shape.clone(), format!("sent {:?}; received {op} {:?}, opposite list {:?}", want, got, other), case));
    }
    if is_reach {
        for nh in &dec.nexthops {
            if check_nh && *nh != nexthop {
                let nhs = match (nexthop, nh) {
                    (Some(a), Some(b)) => format!(":{}->{}", nh_class(&a), nh_class(b)),
                    (Some(a), None) => format!(":{}->none", nh_class(&a)),
                    (None, Some(b)) => format!(":none->{}", nh_class(b)),
                    _ => String::new(),
                };
                vs.push(viol("nexthop-differs", format!("{}:{op}{nhs}", mkmsg::family_name(family)), format!("sent next hop {nexthop:?}, received {nh:?}; bytes={bytes}"), case));
                break;
            }
        }
        let want_attrs = expected_attrs(attrs);
        for a in &dec.attrs {
            if mkmsg::attr_keys(a) != mkmsg::attr_keys(&want_attrs) {
                vs.push(viol("attrs-differ", shape.clone(), format!("sent {:?} (expected at receiver {:?}), received {:?}", attrs, want_attrs, a), case));
                break;
            }
        }
    }
    vs
}

fn nh_class(n: &Nexthop) -> &'static str {
    match n {
        Nexthop::V4(_) => "v4",
        Nexthop::V6(_) => "v6",
        Nexthop::V6LinkLocal(..) => "v6+ll",
    }
}

fn open_eq(a: &rustybgp_packet::bgp::Open, b: &rustybgp_packet::bgp::Open) -> bool {
    a.as_number == b.as_number && a.holdtime == b.holdtime && a.router_id == b.router_id && a.capability == b.capability
}

/// Non-UPDATE message: encode, walk, decode, compare.
fn check_simple(case: &str, kind: &str, msg: &Message) -> Vec<Violation> {
    let mut tx = PeerCodec::new();
    let mut rx = PeerCodec::new();
    let shape = kind.to_string();
    let frames = match catch(|| mkmsg::encode(&mut tx, msg)) {
        Err(p) => return vec![viol("encode-panics", shape, p, case)],
        Ok(Err(e)) => return vec![viol("encode-fails", shape, e, case)],
        Ok(Ok(f)) => f,
    };
    if frames.len() != 1 {
        return vec![viol("frame-count", shape, format!("{} frames for one message", frames.len()), case)];
    }
    let f = &frames[0];
    let fr = match wire::read_frame(f, 4096) {
        Ok(fr) => fr,
        Err(e) => return vec![viol("frame-malformed", shape, format!("{e}; bytes={}", hex(f)), case)],
    };
    let parsed = match catch(|| mkmsg::decode_frame(&mut rx, f)) {
        Err(p) => return vec![viol("decode-panics", shape, p, case)],
        Ok(Err(n)) => return vec![viol("decode-rejects", shape, format!("{n}; bytes={}", hex(f)), case)],
        Ok(Ok(m)) => m,
    };
    let same = match (msg, &parsed, &fr.body) {
        (Message::Open(a), ParsedMessage::Open(b), wire::Body::Open(w)) => {
            // wire view: capabilities seen by the independent reader == submitted
            open_eq(a, b) && w.caps.len() == a.capability.len() && w.version == 4 && w.hold == a.holdtime.seconds() && w.id == a.router_id
        }
        (Message::Notification(a), ParsedMessage::Notification(b), wire::Body::Notification { code, subcode, data }) => {
            a == b && *code == a.notification_code() && *subcode == a.notification_subcode() && data.of(f) == a.notification_data()
        }
        (Message::Keepalive, ParsedMessage::Keepalive, wire::Body::Keepalive) => true,
        (Message::RouteRefresh { family: a }, ParsedMessage::RouteRefresh { family: b }, wire::Body::RouteRefresh { afi, subtype, safi }) => {
            a == b && *afi == a.afi() && *safi == a.safi() && *subtype == 0
        }
        _ => false,
    };
    if same {
        vec![]
    } else {
        vec![viol("value-differs", shape, format!("decoded value or independent wire view differs from the submitted message; bytes={}", hex(f)), case)]
    }
}

// ---------------------------------------------------------------------------
// case descriptors:  nlri:<fam>:<idx>:<r|u>   all:<fam>:<r|u>   nh:<fam>:<idx>
//                    attr:<fam>:<set idx>     pair:<fam>:<pair name>:<min|max>:<r|u>
//                    open:<idx>  notif:<idx>  rr:<idx>  keepalive  codeonly:<fam>:<idx>:<r|u>
// ---------------------------------------------------------------------------

fn eval_case(case: &str) -> Result<Vec<Violation>, String> {
    let p: Vec<&str> = case.split(':').collect();
    let num = |i: usize| -> Result<usize, String> { p.get(i).and_then(|s| s.parse().ok()).ok_or(format!("bad case {case}")) };
    let ru = |i: usize| -> Result<bool, String> {
        match p.get(i) {
            Some(&"r") => Ok(true),
            Some(&"u") => Ok(false),
            _ => Err(format!("bad case {case}")),
        }
    };
    let dflt = PairDesc::DEFAULT;
    match p[0] {
        "nlri" | "codeonly" => {
            let f = fam(num(1)?);
            let list = if p[0] == "nlri" { mkmsg::nlris_named(f) } else { mkmsg::nlris_code_only(f) };
            let (name, n) = list.get(num(2)?).ok_or("index")?.clone();
            let _ = name;
            let extra = if mkmsg::nlri_has_label_stack(&n) { ":label-stack" } else { "" };
            let extra = if p[0] == "codeonly" { ":code-only-form".to_string() } else { extra.to_string() };
            Ok(check_update(case, f, &dflt, vec![PathNlri::new(n)], ru(3)?, mkmsg::default_nexthop(f), &mkmsg::base_attrs(), &extra, false))
        }
        "all" => {
            let f = fam(num(1)?);
            let ns: Vec<_> = mkmsg::nlris(f, NlriSize::All).into_iter().filter(|n| !mkmsg::nlri_has_label_stack(n)).collect();
            Ok(check_update(case, f, &dflt, mkmsg::path_entries(&ns, false), ru(2)?, mkmsg::default_nexthop(f), &mkmsg::base_attrs(), ":all-values", false))
        }
        "nh" => {
            let f = fam(num(1)?);
            let c = mkmsg::nexthops(f).get(num(2)?).ok_or("index")?.clone();
            let mut d = dflt;
            d.l_ext_nh = c.needs_ext_nh;
            d.r_ext_nh = c.needs_ext_nh;
            let n = mkmsg::nlris(f, NlriSize::Min).remove(0);
            Ok(check_update(case, f, &d, vec![PathNlri::new(n)], true, c.nexthop, &mkmsg::base_attrs(), "", true))
        }
        "attr" => {
            let f = fam(num(1)?);
            let (name, set) = mkmsg::attribute_sets().get(num(2)?).ok_or("index")?.clone();
            let kind = name.split('#').next().unwrap_or("").to_string();
            let n = mkmsg::nlris(f, NlriSize::Max).remove(0);
            Ok(check_update(case, f, &dflt, vec![PathNlri::new(n)], true, mkmsg::default_nexthop(f), &set, &format!(":attr-{kind}"), false))
        }
        "pair" => {
            let f = fam(num(1)?);
            let d = PairDesc::parse(p.get(2).ok_or("pair")?).ok_or("pair name")?;
            let size = if p.get(3) == Some(&"max") { NlriSize::Max } else { NlriSize::Min };
            let n = mkmsg::nlris(f, size).remove(0);
            let e = mkmsg::path_entries(&[n], d.tx_addpath());
            let nh = mkmsg::default_nexthop(f);
            // base attributes only: no wide AS, so 2-byte sessions need no reconciliation
            Ok(check_update(case, f, &d, e, ru(4)?, nh, &mkmsg::base_attrs(), &format!(":{}", pair_class(&d)), true))
        }
        "open" => Ok(check_simple(case, "open", &mkmsg::opens().get(num(1)?).ok_or("index")?.1)),
        "notif" => Ok(check_simple(case, "notification", &mkmsg::notifications().get(num(1)?).ok_or("index")?.1)),
        "rr" => Ok(check_simple(case, "route-refresh", &mkmsg::route_refreshes().get(num(1)?).ok_or("index")?.1)),
        "keepalive" => Ok(check_simple(case, "keepalive", &mkmsg::keepalive())),
        "eor" => {
            let f = fam(num(1)?);
            let (_, dec) = match transfer(f, &dflt, &Message::eor(f), 0, false) {
                Ok(x) => x,
                Err((c, d)) => return Ok(vec![viol(&c, format!("{}:eor", mkmsg::family_name(f)), d, case)]),
            };
            if dec.eor == vec![f] && dec.reach.is_empty() && dec.unreach.is_empty() {
                Ok(vec![])
            } else {
                Ok(vec![viol("eor-differs", format!("{}:eor", mkmsg::family_name(f)), format!("decoded EoR list {:?}", dec.eor), case)])
            }
        }
        _ => Err(format!("unknown case {case}")),
    }
}

fn pair_class(d: &PairDesc) -> String {
    format!(
        "{}{}{}{}",
        if d.two_byte_as() { "as2" } else { "as4" },
        if d.ext_msg() { "+xmsg" } else { "" },
        if d.ext_nh() { "+xnh" } else { "" },
        if d.tx_addpath() { "+addpath" } else { "" }
    )
}

fn all_cases() -> Vec<String> {
    let fams = mkmsg::families();
    let mut c = Vec::new();
    for (fi, f) in fams.iter().enumerate() {
        for i in 0..mkmsg::nlris_named(*f).len() {
            c.push(format!("nlri:{fi}:{i}:r"));
            c.push(format!("nlri:{fi}:{i}:u"));
        }
        for i in 0..mkmsg::nlris_code_only(*f).len() {
            c.push(format!("codeonly:{fi}:{i}:r"));
            c.push(format!("codeonly:{fi}:{i}:u"));
        }
        c.push(format!("all:{fi}:r"));
        c.push(format!("all:{fi}:u"));
        c.push(format!("eor:{fi}"));
        for i in 0..mkmsg::nexthops(*f).len() {
            c.push(format!("nh:{fi}:{i}"));
        }
        for (name, _, _) in mkmsg::codec_pairs_quick(*f) {
            for sz in ["min", "max"] {
                c.push(format!("pair:{fi}:{name}:{sz}:r"));
                c.push(format!("pair:{fi}:{name}:{sz}:u"));
            }
        }
    }
    let nsets = mkmsg::attribute_sets().len();
    for fi in [0usize, 1, 7] {
        for i in 0..nsets {
            c.push(format!("attr:{fi}:{i}"));
        }
    }
    for i in 0..mkmsg::opens().len() {
        c.push(format!("open:{i}"));
    }
    for i in 0..mkmsg::notifications().len() {
        c.push(format!("notif:{i}"));
    }
    for i in 0..mkmsg::route_refreshes().len() {
        c.push(format!("rr:{i}"));
    }
    c.push("keepalive".into());
    c
}

/// Generator self-checks that do not involve the subject's decoder: failures
/// are machinery errors (the generators are wrong), not findings.
fn selfcheck(rep: &mut Report) -> Result<(), String> {
    // distinctness and min/max ordering of the NLRI sets; bulk injectivity
    for f in mkmsg::families() {
        let all = mkmsg::nlris(f, NlriSize::All);
        let set: std::collections::BTreeSet<String> = all.iter().map(|n| format!("{n:?}")).collect();
        if set.len() != all.len() || all.is_empty() {
            return Err(format!("{}: NLRI values not distinct / empty", mkmsg::family_name(f)));
        }
        let min = mkmsg::nlri_wire_len(&mkmsg::nlris(f, NlriSize::Min)[0]);
        let max = mkmsg::nlri_wire_len(&mkmsg::nlris(f, NlriSize::Max)[0]);
        if all.iter().any(|n| mkmsg::nlri_wire_len(n) < min) || min > max {
            return Err(format!("{}: Min/Max not extremal", mkmsg::family_name(f)));
        }
        for big in [false, true] {
            let bulk = mkmsg::nlri_bulk(f, 3000, big);
            let s: std::collections::BTreeSet<Vec<u8>> = bulk.iter().map(|n| n.encode_to_bytes()).collect();
            if s.len() != bulk.len() {
                return Err(format!("{}: nlri_nth(big={big}) not injective", mkmsg::family_name(f)));
            }
        }
        rep.notes.push(format!(
            "gen: {} nlri values={} min={}B max={}B bulk small={}B big={}B",
            mkmsg::family_name(f), all.len(), min, max,
            mkmsg::nlri_wire_len(&mkmsg::nlri_nth(f, 1, false)), mkmsg::nlri_wire_len(&mkmsg::nlri_nth(f, 1, true))
        ));
    }
    // attr_block_of_size is exact from 16 upwards
    let mut exact = 0;
    for t in (13..=6000usize).chain([65000, 65535]) {
        let (a, n) = mkmsg::attr_block_of_size(t);
        if n != mkmsg::attrs_wire_len(&a) {
            return Err(format!("attr_block_of_size({t}): reported {n} != measured"));
        }
        if t >= 16 && n != t {
            return Err(format!("attr_block_of_size({t}) produced {n}"));
        }
        exact += 1;
    }
    rep.notes.push(format!("gen: attr_block_of_size exact for {exact} targets (16..=6000, 65000, 65535)"));
    // capability sets fit one OPEN; oversize ones do not
    for (n, c) in mkmsg::capability_sets() {
        if mkmsg::caps_wire_len(&c) > 253 {
            return Err(format!("capability set {n} is {} bytes", mkmsg::caps_wire_len(&c)));
        }
    }
    for (n, c) in mkmsg::capability_sets_oversize() {
        if mkmsg::caps_wire_len(&c) <= 253 {
            return Err(format!("oversize capability set {n} is only {} bytes", mkmsg::caps_wire_len(&c)));
        }
    }
    // the 1024 pairs negotiate what their descriptor says
    let mut outcomes = std::collections::BTreeSet::new();
    for f in [Family::IPV4, Family::IPV6_VPN] {
        for (d, tx, rx) in mkmsg::codec_pairs_desc(f) {
            let txs = tx.family_state(f).map(|s| s.addpath_tx);
            let rxs = rx.family_state(f).map(|s| s.addpath_rx);
            if tx.two_byte_as != d.two_byte_as() || rx.two_byte_as != d.two_byte_as()
                || tx.extended_length != d.ext_msg() || rx.extended_length != d.ext_msg()
                || txs != Some(d.tx_addpath()) || rxs != Some(d.tx_addpath())
                || tx.max_message_length() != d.max_len()
                || PairDesc::parse(&d.name()) != Some(d)
            {
                return Err(format!("pair {} of {}: negotiated codec disagrees with the descriptor", d.name(), mkmsg::family_name(f)));
            }
            outcomes.insert(pair_class(&d));
        }
    }
    rep.notes.push(format!("gen: 2x1024 capability pairs negotiate as described; {} distinct outcomes", outcomes.len()));
    let _ = Capability::RouteRefresh;
    Ok(())
}

/// wire.rs readers: totality (no panic on truncations / single-byte mutations of
/// valid input) and acceptance of what the repository's BMP/MRT/RTR encoders emit.
fn wire_selftest(rep: &mut Report) -> Result<(), String> {
    use bytes::BytesMut;
    use rustybgp_packet::{bmp, mrt, rpki};
    use tokio_util::codec::Encoder;
    let mut corpus: Vec<(&'static str, Vec<u8>)> = Vec::new();
    // BGP frames
    let mut tx = PeerCodec::new();
    for (_, m) in mkmsg::opens().into_iter().take(12).chain(mkmsg::notifications().into_iter().take(4)) {
        if let Ok(Ok(fs)) = catch(|| mkmsg::encode(&mut tx, &m)) {
            corpus.extend(fs.into_iter().map(|f| ("bgp", f)));
        }
    }
    for f in mkmsg::families() {
        let (mut tx, _) = mkmsg::default_codec_pair(f);
        for (_, m) in mkmsg::updates(f, 2, true, false, &mkmsg::attribute_sets().last().unwrap().1) {
            if let Ok(Ok(fs)) = catch(|| mkmsg::encode(&mut tx, &m)) {
                corpus.extend(fs.into_iter().map(|f| ("bgp", f)));
            }
        }
    }
    // BMP (the repository's encoder)
    let v4: std::net::IpAddr = "192.0.2.2".parse().unwrap();
    let v6: std::net::IpAddr = "2001:db8::2".parse().unwrap();
    let open = mkmsg::opens()[1].1.clone();
    let mut bmp_ok = 0;
    let mut bmp_msgs: Vec<bmp::Message> = Vec::new();
    for addr in [v4, v6] {
        let h = bmp::PerPeerHeader::new(0, 65001, "192.0.2.2".parse().unwrap(), 0, addr, 1);
        bmp_msgs.push(bmp::Message::PeerUp { header: h.clone(), local_addr: addr, local_port: 179, remote_port: 40000, local_open: open.clone(), remote_open: open.clone() });
        bmp_msgs.push(bmp::Message::PeerDown { header: h.clone(), reason: bmp::PeerDownReason::RemoteUnexpected });
        bmp_msgs.push(bmp::Message::PeerDown { header: h.clone(), reason: bmp::PeerDownReason::LocalFsm(2) });
        bmp_msgs.push(bmp::Message::PeerDown { header: h.clone(), reason: bmp::PeerDownReason::LocalNotification(mkmsg::notifications()[3].1.clone()) });
        bmp_msgs.push(bmp::Message::PeerDown { header: h.clone(), reason: bmp::PeerDownReason::Deconfigured });
        for f in [Family::IPV4, Family::IPV6] {
            for (_, m) in mkmsg::updates(f, 3, true, false, &mkmsg::base_attrs()) {
                bmp_msgs.push(bmp::Message::RouteMonitoring { header: h.clone().with_post_policy(), update: m, addpath: false });
            }
        }
    }
    bmp_msgs.push(bmp::Message::Initiation(vec![(bmp::Message::INFO_TYPE_SYSNAME, b"rtr1".to_vec()), (bmp::Message::INFO_TYPE_SYSDESCR, b"x".to_vec())]));
    bmp_msgs.push(bmp::Message::Termination);
    let n_bmp = bmp_msgs.len();
    for m in &bmp_msgs {
        let mut b = BytesMut::new();
        let mut c = bmp::BmpCodec::new();
        if catch(|| c.encode(m, &mut b)).is_ok() {
            let v = b.to_vec();
            match wire::read_bmp(&v) {
                Ok(x) if x.length == v.len() => bmp_ok += 1,
                Ok(x) => rep.notes.push(format!("wire: BMP type {} length {} != {} bytes emitted", x.msg_type, x.length, v.len())),
                Err(e) => rep.notes.push(format!("wire: BMP reader rejects the encoder's output: {e}")),
            }
            corpus.push(("bmp", v));
        }
    }
    // MRT
    let mut mrt_ok = 0;
    let mut mrt_n = 0;
    for (ra, la) in [(v4, v4), (v6, v6)] {
        for addpath in [false, true] {
            let h = mrt::MpHeader::new(65001, 65002, 0, ra, la, true);
            let m = mrt::Message::Mp { header: h, body: mkmsg::updates(Family::IPV4, 2, true, addpath, &mkmsg::base_attrs())[0].1.clone(), addpath };
            let mut b = BytesMut::new();
            let mut c = mrt::MrtCodec::new();
            if catch(|| c.encode(&m, &mut b)).is_ok() {
                mrt_n += 1;
                let v = b.to_vec();
                match wire::read_mrt(&v) {
                    Ok(x) if x.total_len() == v.len() => mrt_ok += 1,
                    Ok(_) => rep.notes.push("wire: MRT record length differs from bytes emitted".into()),
                    Err(e) => rep.notes.push(format!("wire: MRT reader rejects the encoder's output: {e}")),
                }
                corpus.push(("mrt", v));
            }
        }
    }
    let recs = vec![
        mrt::TableDumpRecord::PeerIndexTable { router_id: "192.0.2.1".parse().unwrap(), peers: vec![
            mrt::PeerEntry { bgp_id: "192.0.2.2".parse().unwrap(), addr: v4, asn: 65001 },
            mrt::PeerEntry { bgp_id: "192.0.2.3".parse().unwrap(), addr: v6, asn: 4_200_000_000 },
        ] },
        mrt::TableDumpRecord::RibIpv4Unicast { seq: 0, prefix: mkmsg::nlris(Family::IPV4, NlriSize::Max).remove(0), entries: vec![
            mrt::RibEntry { peer_index: 0, originated: 1, nexthop: Some(mkmsg::nh_v4()), attrs: std::sync::Arc::new(mkmsg::base_attrs()) },
        ] },
        mrt::TableDumpRecord::RibIpv6Unicast { seq: 1, prefix: mkmsg::nlris(Family::IPV6, NlriSize::Max).remove(0), entries: vec![
            mrt::RibEntry { peer_index: 1, originated: 1, nexthop: Some(mkmsg::nh_v6()), attrs: std::sync::Arc::new(mkmsg::base_attrs()) },
            mrt::RibEntry { peer_index: 0, originated: 2, nexthop: Some(mkmsg::nh_v6_ll()), attrs: std::sync::Arc::new(mkmsg::attribute_sets().last().unwrap().1.clone()) },
        ] },
    ];
    for rcd in &recs {
        let mut b = BytesMut::new();
        if catch(|| mrt::encode_table_dump(7, rcd, &mut b)).is_ok() {
            mrt_n += 1;
            let v = b.to_vec();
            match wire::read_mrt(&v) {
                Ok(x) if x.total_len() == v.len() && !matches!(x.body, wire::MrtBody::Other) => mrt_ok += 1,
                Ok(_) => rep.notes.push("wire: TABLE_DUMP_V2 record not recognised / length differs".into()),
                Err(e) => rep.notes.push(format!("wire: MRT reader rejects encode_table_dump output: {e}")),
            }
            corpus.push(("mrt", v));
        }
    }
    // RTR
    let mut rtr_ok = 0;
    let mut rtr_n = 0;
    for ver in [0u8, 1] {
        let msgs = vec![
            rpki::Message::SerialNotify { session_id: 7, serial_number: 9 },
            rpki::Message::SerialQuery { session_id: 7, serial_number: 9 },
            rpki::Message::ResetQuery,
            rpki::Message::CacheResponse { session_id: 7 },
            rpki::Message::IpPrefix(rpki::Prefix { net: "192.0.2.0/24".parse().unwrap(), flags: 1, max_length: 24, as_number: 65001 }),
            rpki::Message::IpPrefix(rpki::Prefix { net: "2001:db8::/32".parse().unwrap(), flags: 1, max_length: 48, as_number: 65001 }),
            rpki::Message::EndOfData { session_id: 7, serial_number: 9, refresh_interval: 3600, retry_interval: 600, expire_interval: 7200 },
            rpki::Message::CacheReset,
            rpki::Message::ErrorReport { error_code: 2 },
        ];
        for m in &msgs {
            let mut b = BytesMut::new();
            let mut c = rpki::RtrCodec::with_version(ver);
            if catch(|| c.encode(m, &mut b)).is_ok() {
                rtr_n += 1;
                let v = b.to_vec();
                match wire::read_rtr(&v) {
                    Ok(x) if x.length == v.len() => rtr_ok += 1,
                    Ok(_) => rep.notes.push("wire: RTR PDU length differs from bytes emitted".into()),
                    Err(e) => rep.notes.push(format!("wire: RTR reader rejects the encoder's output (v{ver}): {e}")),
                }
                corpus.push(("rtr", v));
            }
        }
    }
    rep.notes.push(format!("wire: repository encoders accepted by the independent readers: BMP {bmp_ok}/{n_bmp}, MRT {mrt_ok}/{mrt_n}, RTR {rtr_ok}/{rtr_n}"));
    // hand-written RFC vectors the readers must accept (independent of the repository)
    let vectors: Vec<(&str, Vec<u8>, fn(&[u8]) -> Result<(), String>)> = vec![
        // RFC 9072 OPEN: opt len 255, marker 255, ext len 0x0009, param type 2 len(2)=6, MP cap
        ("open-rfc9072", {
            let mut v = vec![0xff; 16];
            v.extend_from_slice(&[0, 41, 1, 4, 0xfd, 0xe9, 0, 90, 192, 0, 2, 1, 255, 255, 0, 9, 2, 0, 6, 1, 4, 0, 1, 0, 1]);
            v
        }, |b| wire::read_frame(b, 4096).and_then(|f| match f.body { wire::Body::Open(o) if o.extended && o.caps.len() == 1 => Ok(()), _ => Err("not extended".into()) })),
        // RFC 8210 Error Report: code 2, encapsulated Reset Query (8), text "bad"
        ("rtr-error-report", vec![1, 10, 0, 2, 0, 0, 0, 27, 0, 0, 0, 8, 1, 2, 0, 0, 0, 0, 0, 8, 0, 0, 0, 3, b'b', b'a', b'd'],
            |b| wire::read_rtr(b).map(|_| ())),
        // RFC 8210 Router Key: flags 1, SKI 20, AS 65001, SPKI 3 bytes
        ("rtr-router-key", { let mut v = vec![1, 9, 1, 0, 0, 0, 0, 35]; v.extend_from_slice(&[7; 20]); v.extend_from_slice(&[0, 0, 0xfd, 0xe9, 1, 2, 3]); v },
            |b| wire::read_rtr(b).map(|_| ())),
        // RFC 7854 Stats Report: one counter type 0 (rejected prefixes) len 4
        ("bmp-stats", { let mut v = vec![3, 0, 0, 0, 60, 1]; v.extend_from_slice(&[0; 2]); v.extend_from_slice(&[0; 8]); v.extend_from_slice(&[0; 12]); v.extend_from_slice(&[192, 0, 2, 2, 0, 0, 0xfd, 0xe9, 192, 0, 2, 2, 0, 0, 0, 1, 0, 0, 0, 0]); v.extend_from_slice(&[0, 0, 0, 1, 0, 0, 0, 4, 0, 0, 0, 9]); v },
            |b| wire::read_bmp(b).map(|_| ())),
        // RFC 8050 RIB_IPV4_UNICAST_ADDPATH, one entry, path id 5, ORIGIN only
        ("mrt-rib-addpath", vec![0, 0, 0, 1, 0, 13, 0, 8, 0, 0, 0, 26, 0, 0, 0, 0, 24, 192, 0, 2, 0, 1, 0, 0, 0, 0, 0, 1, 0, 0, 0, 5, 0, 4, 0x40, 1, 1, 0],
            |b| wire::read_mrt(b).and_then(|r| match r.body { wire::MrtBody::Rib { addpath: true, ref entries, .. } if entries[0].path_id == Some(5) => Ok(()), _ => Err("shape".into()) })),
        // RFC 8277 withdraw: compat field 0x800000, 10.0.0.0/8
        ("labeled-withdraw", vec![32, 0x80, 0, 0, 10],
            |b| wire::walk_nlri(wire::NlriKind::LabeledV4, wire::NlriOpts::withdraw(false), b, wire::Span::new(0, b.len())).and_then(|v| if v.len() == 1 && v[0].prefix_bits == 8 { Ok(()) } else { Err("shape".into()) })),
    ];
    for (name, bytes, f) in &vectors {
        f(bytes).map_err(|e| format!("wire self-test vector {name}: {e}"))?;
        corpus.push(("vec", bytes.clone()));
    }
    // totality: every truncation, every byte x {^1, ^0x80, 0, 0xff}
    let mut calls = 0u64;
    let mut accepted = 0u64;
    for (kind, v) in &corpus {
        let run = |b: &[u8]| -> Result<bool, String> {
            catch(|| match *kind {
                "bgp" => wire::read_frame(b, 65535).and_then(|f| wire::update_nlri_fields(b, &f, false).map(|_| ())).is_ok(),
                "bmp" => wire::read_bmp(b).is_ok(),
                "mrt" => wire::read_mrt(b).is_ok(),
                "rtr" => wire::read_rtr(b).is_ok(),
                _ => {
                    let _ = wire::read_frame(b, 65535);
                    let _ = wire::read_bmp(b);
                    let _ = wire::read_mrt(b);
                    let _ = wire::read_rtr(b);
                    for k in [wire::NlriKind::Ipv4, wire::NlriKind::Ipv6, wire::NlriKind::LabeledV4, wire::NlriKind::LabeledV6, wire::NlriKind::VpnV4, wire::NlriKind::VpnV6, wire::NlriKind::Evpn, wire::NlriKind::Rtc] {
                        for ap in [false, true] {
                            let _ = wire::walk_nlri(k, wire::NlriOpts::reach(ap), b, wire::Span::new(0, b.len()));
                            let _ = wire::walk_nlri(k, wire::NlriOpts::withdraw(ap), b, wire::Span::new(0, b.len()));
                        }
                    }
                    true
                }
            })
        };
        for cut in 0..=v.len() {
            calls += 1;
            if run(&v[..cut]).map_err(|p| format!("wire reader panicked on a truncation of a {kind} sample: {p}"))? {
                accepted += 1;
            }
        }
        let step = if v.len() > 600 { 7 } else { 1 };
        for i in (0..v.len()).step_by(step) {
            for m in 0..4 {
                let mut w = v.clone();
                w[i] = match m { 0 => w[i] ^ 1, 1 => w[i] ^ 0x80, 2 => 0, _ => 0xff };
                calls += 1;
                if run(&w).map_err(|p| format!("wire reader panicked on a mutated {kind} sample (offset {i}): {p}"))? {
                    accepted += 1;
                }
            }
        }
    }
    rep.notes.push(format!("wire: totality check: {} samples, {calls} reader calls on truncations/mutations, 0 panics, {accepted} accepted", corpus.len()));
    Ok(())
}

pub fn run(replay: Option<&str>) -> Report {
    let mut rep = Report::new("C04", "hx-c04");
    rep.rule = "SMOKE TEST of the shared generators: one case per generated value (family x NLRI value x reach/unreach, \
        next-hop case, attribute set, 16 negotiated capability outcomes x min/max NLRI, OPEN/NOTIFICATION/ROUTE-REFRESH value); \
        a case = encode with negotiate(local,remote), independent frame/NLRI walk, decode with negotiate(remote,local), compare; \
        distinct = distinct wire encodings produced".to_string();
    if let Some(case) = replay {
        match eval_case(case) {
            Ok(vs) => {
                for v in &vs {
                    eprintln!("replay: {} :: {}", v.sig, v.what);
                }
                if vs.is_empty() {
                    eprintln!("replay: case {case} round-trips");
                }
                rep.evaluations = 1;
                rep.violations_from(vs);
            }
            Err(e) => rep.machinery_error = Some(e),
        }
        return rep;
    }
    if let Err(e) = selfcheck(&mut rep) {
        rep.machinery_error = Some(format!("generator self-check: {e}"));
        return rep;
    }
    if let Err(e) = wire_selftest(&mut rep) {
        rep.machinery_error = Some(format!("wire self-test: {e}"));
        return rep;
    }
    let cases = all_cases();
    let mut per_group: BTreeMap<String, (u64, u64)> = BTreeMap::new();
    let mut distinct = std::collections::BTreeSet::new();
    for (i, case) in cases.iter().enumerate() {
        let vs = match eval_case(case) {
            Ok(v) => v,
            Err(e) => {
                rep.machinery_error = Some(e);
                return rep;
            }
        };
        rep.evaluations += 1;
        let group = {
            let p: Vec<&str> = case.split(':').collect();
            match p[0] {
                "nlri" | "all" | "nh" | "pair" | "eor" | "codeonly" | "attr" => format!("{}:{}", p[0], mkmsg::family_name(fam(p[1].parse().unwrap_or(0)))),
                o => o.to_string(),
            }
        };
        let e = per_group.entry(group).or_insert((0, 0));
        e.0 += 1;
        if vs.is_empty() {
            e.1 += 1;
        }
        distinct.insert(case.clone());
        rep.sample(i as u64, || case.clone());
        rep.violations_from(vs);
    }
    rep.distinct_nontrivial = distinct.len() as u64;
    // one note per kind of case, summed over families, then the per-family NLRI line
    let mut by_kind: BTreeMap<String, (u64, u64)> = BTreeMap::new();
    for (g, (n, ok)) in &per_group {
        let k = g.split(':').next().unwrap().to_string();
        let e = by_kind.entry(k).or_insert((0, 0));
        e.0 += n;
        e.1 += ok;
    }
    for (k, (n, ok)) in &by_kind {
        rep.notes.push(format!("smoke: {k}: {ok}/{n} generated cases round-trip"));
    }
    for (g, (n, ok)) in &per_group {
        if ok != n {
            rep.notes.push(format!("smoke: {g}: only {ok}/{n} round-trip (see violations / notes/gen-findings.md)"));
        }
    }
    rep.notes.push("assume: smoke test only - the C04 oracle (size ladders, frame limits, all 1024 pairs, AS4 reconciliation) is not implemented yet".into());
    rep.exhaustive = true;
    rep
}
