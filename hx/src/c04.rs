// C04 -- encoded BGP messages are well-framed and decode to the same routes at the peer.
//
// Subject: rustybgp_packet::bgp::PeerCodec::{negotiate, encode_to, try_parse}.
// Technique: bounded-exhaustive enumeration (no sampling).  Generators: mkmsg.rs,
// independent frame / attribute / NLRI walkers: wire.rs.
//
// One case = one Message handed to `negotiate(local, remote).encode_to`, the bytes it
// left in the buffer, and what `negotiate(remote, local).try_parse` makes of them.
//
// ORACLE (clauses are evaluated in this order; structural clauses stop at the first
// failure so that only the root cause is reported, value clauses are independent):
//   encode-panics / encode-fails   the encoder returns normally; `Err` is accepted only
//                      for an input that cannot be encoded (one entry does not fit next
//                      to the attribute block) and only if what it left in the buffer is
//                      a sequence of complete, well-formed frames that the peer decodes
//                      to a subset of the submitted routes (the daemon sends the buffer
//                      whatever encode_to returns: event/mod.rs flush_tx `.unwrap_or(1)`)
//   length-field-inconsistent/<field>   independent walk (wire.rs): header / withdrawn /
//                      total-attribute / per-attribute / MP lengths consistent, the NLRI
//                      lists are consumed exactly
//   frame-too-long     every frame <= 4096, or <= 65535 with RFC 8654 negotiated (a frame
//                      whose 16-bit length field wrapped is recognised and reported here)
//   frame-count        the returned Ok(count) equals the frames in the buffer
//   decode-rejects / decode-panics   the peer's codec accepts every frame
//   entries-dropped / entries-duplicated   multiset of (prefix, path-id) delivered ==
//                      submitted (labeled-unicast withdrawals modulo RFC 8277 §2.4).
//                      `Ok` for an input that cannot be encoded is a drop.
//   nexthop-differs    every route-carrying frame delivers the submitted next hop
//   attrs-differ / attr-rejected   attributes equal modulo the documented
//                      canonicalisation: extended-length flag (mkmsg::attr_key),
//                      unknown optional non-transitive attributes discarded, and on
//                      2-byte-AS sessions the RFC 6793 §4.2.3 reconstruction, for which
//                      an independent model is used: the path must come back identical
//                      unless a confederation segment carries a 4-byte ASN or is not
//                      leading (then RFC 6793 guarantees nothing: anything accepted)
//   fixed-point        for every value x obtained by decoding: decode(encode(x)) == x
//                      (same direction: sender codec, then receiver codec; strict ==)
//   as4-reconcile      the sender's 2-byte frame is forwarded by a modelled OLD speaker
//                      (AS4_PATH passed on with the Partial bit, own 2-byte AS prepended
//                      to AS_PATH); a NEW speaker behind it must reconstruct
//                      [old AS] + original path (RFC 6793 §4.2.3; only for paths without
//                      confederation segments)
//   open-capability-length-overflow/<kind>   OPEN whose capabilities need more than the
//                      one-byte lengths can express: either a well-formed OPEN (several
//                      capability parameters or RFC 9072) that the peer decodes to the
//                      same capabilities, or Err with an empty buffer; a panic, a wrapped
//                      length byte or dropped capabilities is the violation
//   frame-too-long/notification   NOTIFICATION data that cannot fit the frame (the daemon echoes
//                      the offending frame): Err with an empty buffer or a frame <= maximum that
//                      carries a prefix of the data is accepted
// NOT alarmed (accepted): order of frames / of entries; packing density; a Reach / Unreach
// with zero entries (never built by the daemon: only the framing clauses apply, an empty
// MP_UNREACH legitimately reads as End-of-RIB); attribute order.
//
// Case descriptors (replay):  u:<fam>:<pair>:<r|u>:<shape>:<attr>:<nh>:<n>
//     shape  s = n small bulk NLRI   b = n maximal-shape bulk NLRI   m<j> = j small then big
//            d = every big NLRI twice with path ids 1, 2 (add-path)   x = largest named value,
//            then big   v<i> = named value i   c<i> = code-only wire form i   A = all named
//     attr   a<size> = mkmsg::attr_block_of_size(size)   t<i> = mkmsg::attribute_sets()[i]
//            e<i> = extra_sets()[i] of this file
//     nh     index into mkmsg::nexthops(family)
//   eor:<fam>:<pair>   open:<generator>   notif:<idx>:<x|n>   notifbig:<len>:<x|n>
//   rr:<idx>:<x|n>   keepalive:<x|n>   as4hop:<fam>:<attr set>

use crate::mkmsg::{self, NlriSize, PairDesc};
use crate::vx::enumr::par_range;
use crate::vx::report::{catch, hex, trunc, Report, Violation};
use crate::wire;
use bytes::BytesMut;
use rustybgp_packet::bgp::{
    Attribute, Capability, Family, HoldTime, Message, Nexthop, Nlri, Notification, Open, ParsedMessage,
    ParsedUpdate, PathNlri, PeerCodec, Update,
};
use std::collections::{BTreeMap, BTreeSet, HashMap, HashSet};
use std::sync::{Arc, Mutex, OnceLock};

fn fam(i: usize) -> Family {
    mkmsg::families()[i]
}

fn viol(clause: &str, shape: String, what: String, case: &str) -> Violation {
    Violation { sig: format!("C04/{clause}/{shape}"), what, case: case.to_string() }
}

fn attribute_sets() -> &'static Vec<(String, Vec<Attribute>)> {
    static S: OnceLock<Vec<(String, Vec<Attribute>)>> = OnceLock::new();
    S.get_or_init(mkmsg::attribute_sets)
}

fn hash64(b: &[u8]) -> u64 {
    use std::hash::Hasher;
    let mut h = std::collections::hash_map::DefaultHasher::new();
    h.write(b);
    h.finish()
}

// ---------------------------------------------------------------------------
// case descriptors
// ---------------------------------------------------------------------------

#[derive(Clone, Copy, Debug, PartialEq, Eq)]
enum Shape {
    Small,
    Big,
    Mix(usize),
    /// j small entries, then big and small ones alternating (a big entry that no longer fits the
    /// frame is followed by a small one that would)
    Alt(usize),
    Dup,
    MaxThenBig,
    Named(usize),
    CodeOnly(usize),
    AllNamed,
}

impl Shape {
    fn name(&self) -> String {
        match self {
            Shape::Small => "s".into(),
            Shape::Big => "b".into(),
            Shape::Mix(j) => format!("m{j}"),
            Shape::Alt(j) => format!("a{j}"),
            Shape::Dup => "d".into(),
            Shape::MaxThenBig => "x".into(),
            Shape::Named(i) => format!("v{i}"),
            Shape::CodeOnly(i) => format!("c{i}"),
            Shape::AllNamed => "A".into(),
        }
    }
    fn parse(s: &str) -> Option<Shape> {
        let num = |t: &str| t.parse::<usize>().ok();
        Some(match s {
            "s" => Shape::Small,
            "b" => Shape::Big,
            "d" => Shape::Dup,
            "x" => Shape::MaxThenBig,
            "A" => Shape::AllNamed,
            _ if s.starts_with('m') => Shape::Mix(num(&s[1..])?),
            _ if s.starts_with('a') && s.len() > 1 && s[1..].chars().all(|c| c.is_ascii_digit()) => Shape::Alt(num(&s[1..])?),
            _ if s.starts_with('v') => Shape::Named(num(&s[1..])?),
            _ if s.starts_with('c') => Shape::CodeOnly(num(&s[1..])?),
            _ => return None,
        })
    }
}

#[derive(Clone, Copy, Debug, PartialEq, Eq)]
enum AttrSpec {
    Block(usize),
    Set(usize),
    /// attribute sets of this file (4-byte ASNs next to confederation segments, sets, aggregator)
    Extra(usize),
}

/// Further AS_PATH / AGGREGATOR shapes for the 2-byte-AS sessions (RFC 6793 §4.2.2-4.2.3,
/// RFC 5065 §3: confederation segments lead the path).
fn extra_sets() -> &'static Vec<(String, Vec<Attribute>)> {
    static S: OnceLock<Vec<(String, Vec<Attribute>)>> = OnceLock::new();
    S.get_or_init(|| {
        let wide = 4_200_000_000u32;
        let o = mkmsg::origin(0);
        vec![
            ("confed+wide#seq".to_string(), vec![o.clone(), mkmsg::as_path(&[(3, vec![64512, 64513]), (2, vec![65001, wide, 65003])])]),
            ("confed+wide#seq+set".to_string(), vec![o.clone(), mkmsg::as_path(&[(3, vec![64512]), (4, vec![64513, 64514]), (2, vec![wide]), (1, vec![65010, wide + 1])])]),
            ("set-wide".to_string(), vec![o.clone(), mkmsg::as_path(&[(2, vec![65001]), (1, vec![wide, 65002])])]),
            ("wide+aggregator-wide".to_string(), vec![o.clone(), mkmsg::as_path(&[(2, vec![wide, 65001])]), mkmsg::aggregator(wide + 7, std::net::Ipv4Addr::new(192, 0, 2, 9)), mkmsg::communities(&[0xfde9_0001])]),
            ("wide+aggregator-narrow".to_string(), vec![o.clone(), mkmsg::as_path(&[(2, vec![wide, 65001])]), mkmsg::aggregator(65001, std::net::Ipv4Addr::new(192, 0, 2, 9))]),
            ("narrow+aggregator-wide".to_string(), vec![o.clone(), mkmsg::as_path(&[(2, vec![65001])]), mkmsg::aggregator(wide, std::net::Ipv4Addr::new(192, 0, 2, 9))]),
            ("255-wide".to_string(), vec![o.clone(), mkmsg::as_path(&[(2, (0..255).map(|i| wide + i).collect())])]),
            ("confed-only+aggregator-wide".to_string(), vec![o, mkmsg::as_path(&[(3, vec![64512])]), mkmsg::aggregator(wide, std::net::Ipv4Addr::new(192, 0, 2, 9))]),
            // a RELAYED attribute set: values as the decoder hands them on after receiving them with
            // the Extended Length bit set on short values (legal, RFC 4271 4.3) - the stored flag octet
            // keeps the bit, the value is short
            ("relayed-extended-length".to_string(), received_with_extended_length()),
        ]
    })
}

fn received_with_extended_length() -> Vec<Attribute> {
    let ext = |flags: u8, code: u8, v: &[u8]| -> Vec<u8> {
        let mut b = vec![flags | 0x10, code];
        b.extend_from_slice(&(v.len() as u16).to_be_bytes());
        b.extend_from_slice(v);
        b
    };
    let mut attrs = Vec::new();
    let plain = |flags: u8, code: u8, v: &[u8]| -> Vec<u8> {
        let mut b = vec![flags, code, v.len() as u8];
        b.extend_from_slice(v);
        b
    };
    attrs.extend(plain(0x40, 1, &[0]));
    attrs.extend(plain(0x40, 2, &[2, 2, 0, 0, 0xfd, 0xe9, 0, 0, 0xfd, 0xea]));
    attrs.extend(plain(0x40, 3, &[192, 0, 2, 1]));
    attrs.extend(ext(0x80, 4, &[0, 0, 0, 50]));
    attrs.extend(ext(0xc0, 8, &[0xfd, 0xe9, 0, 1]));
    attrs.extend(ext(0xc0, 32, &[0, 0, 0xfd, 0xe9, 0, 0, 0, 1, 0, 0, 0, 2]));
    // unknown optional transitive attribute
    attrs.extend(ext(0xc0, 99, &[1, 2, 3]));
    let nlri = [24u8, 10, 9, 9];
    let total = 19 + 2 + 2 + attrs.len() + nlri.len();
    let mut buf = BytesMut::new();
    buf.extend_from_slice(&[0xff; 16]);
    buf.extend_from_slice(&(total as u16).to_be_bytes());
    buf.extend_from_slice(&[2, 0, 0]);
    buf.extend_from_slice(&(attrs.len() as u16).to_be_bytes());
    buf.extend_from_slice(&attrs);
    buf.extend_from_slice(&nlri);
    let mut c = PeerCodec::new();
    c.set_family(Family::IPV4, rustybgp_packet::bgp::FamilyState::default());
    match c.try_parse(&mut buf) {
        Ok(Some(ParsedMessage::Update(rustybgp_packet::bgp::ParsedUpdate::Routes { attrs, error_attrs, .. }))) if error_attrs.is_empty() && attrs.len() >= 5 => attrs,
        other => panic!("harness: the decoder does not accept attributes received with the Extended Length bit: {:?}", other.map(|m| m.is_some())),
    }
}

impl AttrSpec {
    fn name(&self) -> String {
        match self {
            AttrSpec::Block(t) => format!("a{t}"),
            AttrSpec::Set(i) => format!("t{i}"),
            AttrSpec::Extra(i) => format!("e{i}"),
        }
    }
    fn parse(s: &str) -> Option<AttrSpec> {
        let n = s.get(1..)?.parse::<usize>().ok()?;
        match s.as_bytes().first()? {
            b'a' => Some(AttrSpec::Block(n)),
            b't' => Some(AttrSpec::Set(n)),
            b'e' => Some(AttrSpec::Extra(n)),
            _ => None,
        }
    }
    fn attrs(&self) -> Result<Vec<Attribute>, String> {
        match self {
            AttrSpec::Block(t) => Ok(mkmsg::attr_block_of_size(*t).0),
            AttrSpec::Set(i) => attribute_sets().get(*i).map(|x| x.1.clone()).ok_or_else(|| format!("attribute set {i}")),
            AttrSpec::Extra(i) => extra_sets().get(*i).map(|x| x.1.clone()).ok_or_else(|| format!("extra attribute set {i}")),
        }
    }
    /// shape class used in signatures
    fn class(&self) -> String {
        match self {
            AttrSpec::Block(_) => "block".into(),
            AttrSpec::Set(i) => attribute_sets().get(*i).map(|x| x.0.split('#').next().unwrap_or("").to_string()).unwrap_or_default(),
            AttrSpec::Extra(i) => extra_sets().get(*i).map(|x| x.0.split('#').next().unwrap_or("").to_string()).unwrap_or_default(),
        }
    }
}

#[derive(Clone, Debug)]
struct UpdCase {
    fi: usize,
    d: PairDesc,
    reach: bool,
    shape: Shape,
    attr: AttrSpec,
    nh: usize,
    n: usize,
}

impl UpdCase {
    fn name(&self) -> String {
        format!(
            "u:{}:{}:{}:{}:{}:{}:{}",
            self.fi, self.d.name(), if self.reach { "r" } else { "u" }, self.shape.name(), self.attr.name(), self.nh, self.n
        )
    }
    fn parse(s: &str) -> Option<UpdCase> {
        let p: Vec<&str> = s.split(':').collect();
        if p.len() != 8 || p[0] != "u" {
            return None;
        }
        Some(UpdCase {
            fi: p[1].parse().ok().filter(|i| *i < mkmsg::families().len())?,
            d: PairDesc::parse(p[2])?,
            reach: match p[3] { "r" => true, "u" => false, _ => return None },
            shape: Shape::parse(p[4])?,
            attr: AttrSpec::parse(p[5])?,
            nh: p[6].parse().ok()?,
            n: p[7].parse().ok()?,
        })
    }
    fn family(&self) -> Family {
        fam(self.fi)
    }
    /// legacy = RFC 4271 NLRI / withdrawn fields, mp = MP_REACH / MP_UNREACH
    fn kind(&self) -> &'static str {
        if self.family() == Family::IPV4 && !self.d.ext_nh() { "legacy" } else { "mp" }
    }
    fn op(&self) -> &'static str {
        if self.reach { "reach" } else { "unreach" }
    }
}

fn named_nonstack(f: Family) -> Vec<Nlri> {
    mkmsg::nlris(f, NlriSize::All).into_iter().filter(|n| !mkmsg::nlri_has_label_stack(n)).collect()
}

/// The entries of a case.  For the bulk shapes the list for n is a prefix of the list for
/// any larger n.  Err = the descriptor is not meaningful (machinery, not a finding).
fn build_entries(f: Family, shape: Shape, n: usize, addpath: bool) -> Result<Vec<PathNlri>, String> {
    let pid = |i: usize| if addpath { i as u32 + 1 } else { 0 };
    let mut v = Vec::with_capacity(n);
    match shape {
        Shape::Small => v.extend((0..n).map(|i| PathNlri { path_id: pid(i), nlri: mkmsg::nlri_nth(f, i as u32, false) })),
        Shape::Big => v.extend((0..n).map(|i| PathNlri { path_id: pid(i), nlri: mkmsg::nlri_nth(f, i as u32, true) })),
        Shape::Mix(j) => v.extend((0..n).map(|i| PathNlri { path_id: pid(i), nlri: mkmsg::nlri_nth(f, i as u32, i >= j) })),
        Shape::Alt(j) => v.extend((0..n).map(|i| PathNlri { path_id: pid(i), nlri: mkmsg::nlri_nth(f, i as u32, i >= j && (i - j) % 2 == 0) })),
        Shape::Dup => {
            if !addpath {
                return Err("shape d needs add-path".into());
            }
            v.extend((0..n).map(|i| PathNlri { path_id: (i % 2) as u32 + 1, nlri: mkmsg::nlri_nth(f, (i / 2) as u32, true) }));
        }
        Shape::MaxThenBig => {
            let m = mkmsg::nlris(f, NlriSize::Max).remove(0);
            v.extend((0..n).map(|i| PathNlri { path_id: pid(i), nlri: if i == 0 { m.clone() } else { mkmsg::nlri_nth(f, i as u32, true) } }));
        }
        Shape::Named(i) => {
            let (_, x) = mkmsg::nlris_named(f).get(i).cloned().ok_or("named value index")?;
            v.push(PathNlri { path_id: pid(0), nlri: x });
        }
        Shape::CodeOnly(i) => {
            let (_, x) = mkmsg::nlris_code_only(f).get(i).cloned().ok_or("code-only value index")?;
            v.push(PathNlri { path_id: pid(0), nlri: x });
        }
        Shape::AllNamed => v.extend(named_nonstack(f).into_iter().enumerate().map(|(i, x)| PathNlri { path_id: pid(i), nlri: x })),
    }
    Ok(v)
}

fn all_distinct(e: &[PathNlri]) -> bool {
    let mut s: HashSet<&PathNlri> = HashSet::with_capacity(e.len());
    e.iter().all(|x| s.insert(x))
}

// ---------------------------------------------------------------------------
// independent sizing model (used only to steer the enumeration to the frame
// boundaries and to decide whether an input can be encoded at all)
// ---------------------------------------------------------------------------

fn as_path_segments(body: &[u8]) -> Vec<(u8, Vec<u32>)> {
    let mut out = Vec::new();
    let mut p = 0usize;
    while p + 2 <= body.len() {
        let (t, c) = (body[p], body[p + 1] as usize);
        let mut v = Vec::with_capacity(c);
        for i in 0..c {
            let o = p + 2 + 4 * i;
            if o + 4 > body.len() {
                break;
            }
            v.push(u32::from_be_bytes([body[o], body[o + 1], body[o + 2], body[o + 3]]));
        }
        out.push((t, v));
        p += 2 + 4 * c;
    }
    out
}

fn is_confed(t: u8) -> bool {
    t == 3 || t == 4
}

fn enc_len(body: usize) -> usize {
    body + if body > 255 { 4 } else { 3 }
}

/// Wire size of one attribute on a 4-byte or 2-byte-AS session (RFC 4271 §4.3, RFC 6793 §4.2.2).
fn attr_session_len(a: &Attribute, two_byte: bool) -> usize {
    if a.value().is_some() {
        return if a.code() == Attribute::ORIGIN { 4 } else { 7 };
    }
    let l = a.binary().map(|b| b.len()).unwrap_or(0);
    if two_byte && !a.is_opaque() && a.code() == Attribute::AS_PATH {
        let segs = as_path_segments(a.binary().unwrap());
        let l2: usize = segs.iter().map(|(_, v)| 2 + 2 * v.len()).sum();
        let wide = segs.iter().any(|(_, v)| v.iter().any(|x| *x > 65535));
        let l4: usize = segs.iter().filter(|(t, _)| !is_confed(*t)).map(|(_, v)| 2 + 4 * v.len()).sum();
        return enc_len(l2) + if wide { enc_len(l4) } else { 0 };
    }
    if two_byte && !a.is_opaque() && a.code() == Attribute::AGGREGATOR && l == 8 {
        let b = a.binary().unwrap();
        let wide = u32::from_be_bytes([b[0], b[1], b[2], b[3]]) > 65535;
        return enc_len(6) + if wide { enc_len(8) } else { 0 };
    }
    if a.flags() & 0x10 != 0 { l + 4 } else { enc_len(l) }
}

fn attrs_session_len(attrs: &[Attribute], two_byte: bool) -> usize {
    attrs.iter().map(|a| attr_session_len(a, two_byte)).sum()
}

/// Where the NLRI list starts in a frame of this (family, pair, op) with the base
/// attributes, and how many bytes follow the list: read off a one-entry encoding with the
/// independent frame walker.
#[derive(Clone, Copy, Debug)]
struct Probe {
    head: usize,
    trail: usize,
}

fn probe(f: Family, d: &PairDesc, reach: bool, nh: Option<Nexthop>) -> Option<Probe> {
    let (mut tx, _) = mkmsg::pair_from_desc(f, d);
    let e = build_entries(f, Shape::Small, 1, d.tx_addpath()).ok()?;
    let msg = if reach { mkmsg::reach(f, e, nh, &mkmsg::base_attrs()) } else { mkmsg::unreach(f, e) };
    let frames = catch(|| mkmsg::encode(&mut tx, &msg)).ok()?.ok()?;
    if frames.len() != 1 {
        return None;
    }
    let fr = wire::read_frame(&frames[0], 65535).ok()?;
    let wire::Body::Update(u) = &fr.body else { return None };
    let sp = if reach {
        u.mp_reach.as_ref().map(|m| m.nlri).unwrap_or(u.nlri)
    } else {
        u.mp_unreach.as_ref().map(|m| m.nlri).unwrap_or(u.withdrawn)
    };
    if sp.len == 0 {
        return None;
    }
    Some(Probe { head: sp.off, trail: fr.len - sp.end() })
}

/// (count, size) runs of the entry sizes of a bulk shape
fn size_runs(f: Family, shape: Shape, addpath: bool) -> Vec<(usize, usize)> {
    let ap = if addpath { 4 } else { 0 };
    let s = mkmsg::nlri_wire_len(&mkmsg::nlri_nth(f, 1, false)) + ap;
    let b = mkmsg::nlri_wire_len(&mkmsg::nlri_nth(f, 1, true)) + ap;
    match shape {
        Shape::Small => vec![(usize::MAX, s)],
        Shape::Big | Shape::Dup => vec![(usize::MAX, b)],
        Shape::Mix(j) => vec![(j, s), (usize::MAX, b)],
        Shape::Alt(j) => {
            let mut r = vec![(j, s)];
            for _ in 0..40000 {
                r.push((1, b));
                r.push((1, s));
            }
            r
        }
        Shape::MaxThenBig => vec![(1, mkmsg::nlri_wire_len(&mkmsg::nlris(f, NlriSize::Max)[0]) + ap), (usize::MAX, b)],
        _ => vec![],
    }
}

/// how many leading entries fit into `avail` bytes
fn fit(runs: &[(usize, usize)], mut avail: usize) -> usize {
    let mut k = 0usize;
    for (cnt, sz) in runs {
        let take = (avail / sz.max(&1)).min(*cnt);
        k += take;
        avail -= take * sz;
        if take < *cnt {
            break;
        }
    }
    k
}

// ---------------------------------------------------------------------------
// expected values at the receiver
// ---------------------------------------------------------------------------

/// What a conforming receiver holds after decoding `attrs`.  The bool says that
/// the AS_PATH is unconstrained (RFC 6793 gives no guarantee for it).
fn expected_attrs(attrs: &[Attribute], two_byte: bool) -> (Vec<Attribute>, bool) {
    let mut out = Vec::new();
    let mut free = false;
    for a in attrs {
        if a.is_opaque() {
            if a.flags() & 0x40 == 0 {
                continue; // RFC 4271 §5: unrecognised optional non-transitive: quietly ignored
            }
            out.push(a.clone());
        } else if a.code() == Attribute::AS4_PATH || a.code() == Attribute::AS4_AGGREGATOR {
            continue;
        } else {
            if two_byte && a.code() == Attribute::AS_PATH {
                let segs = as_path_segments(a.binary().unwrap());
                let wide = segs.iter().any(|(_, v)| v.iter().any(|x| *x > 65535));
                let wide_in_confed = segs.iter().any(|(t, v)| is_confed(*t) && v.iter().any(|x| *x > 65535));
                let first_plain = segs.iter().position(|(t, _)| !is_confed(*t)).unwrap_or(segs.len());
                let confed_not_leading = segs.iter().skip(first_plain).any(|(t, _)| is_confed(*t));
                if wide && (wide_in_confed || confed_not_leading) {
                    free = true;
                }
            }
            out.push(a.clone());
        }
    }
    (out, free)
}

type Key = (u8, u8, Option<u32>, Option<Vec<u8>>, bool);

fn sorted_keys(v: &[Attribute], skip_as_path: bool) -> Vec<Key> {
    let mut k: Vec<Key> = v.iter().filter(|a| !(skip_as_path && a.code() == Attribute::AS_PATH && !a.is_opaque())).map(mkmsg::attr_key).collect();
    k.sort();
    k
}

fn nh_class(n: &Nexthop) -> &'static str {
    match n {
        Nexthop::V4(_) => "v4",
        Nexthop::V6(_) => "v6",
        Nexthop::V6LinkLocal(..) => "v6+ll",
    }
}

// ---------------------------------------------------------------------------
// encode / split / decode
// ---------------------------------------------------------------------------

enum Enc {
    Panic(String),
    Ret(Result<usize, String>, Vec<u8>),
}

fn encode_raw(tx: &mut PeerCodec, msg: &Message) -> Enc {
    let mut buf: Vec<u8> = Vec::new();
    match catch(|| tx.encode_to(msg, &mut buf)) {
        Err(p) => Enc::Panic(p),
        Ok(r) => Enc::Ret(r.map_err(|e| e.to_string()), buf),
    }
}

fn plausible_header(buf: &[u8], pos: usize) -> bool {
    pos == buf.len()
        || (pos + 19 <= buf.len() && buf[pos..pos + 16].iter().all(|b| *b == 0xff) && (1..=5).contains(&buf[pos + 18]))
}

/// Split the sender's buffer into frames.  A frame longer than 65535 bytes has a wrapped
/// length field: it is recognised when header+65536 leads to a frame boundary and header
/// does not.  Returns (offset, true length, wrapped).
fn split_tolerant(buf: &[u8]) -> Result<Vec<(usize, usize, bool)>, String> {
    let mut out = Vec::new();
    let mut pos = 0usize;
    while pos < buf.len() {
        if buf.len() - pos < 19 {
            return Err(format!("{} trailing byte(s) at offset {pos}: shorter than a header", buf.len() - pos));
        }
        if !buf[pos..pos + 16].iter().all(|b| *b == 0xff) {
            return Err(format!("no marker at offset {pos} (stream desynchronised after {} frame(s))", out.len()));
        }
        let h = u16::from_be_bytes([buf[pos + 16], buf[pos + 17]]) as usize;
        let ok = |l: usize| l >= 19 && pos + l <= buf.len() && plausible_header(buf, pos + l);
        if ok(h) {
            out.push((pos, h, false));
            pos += h;
        } else if ok(h + 65536) {
            out.push((pos, h + 65536, true));
            pos += h + 65536;
        } else {
            return Err(format!("frame {} at offset {pos}: length field {h} does not lead to a frame boundary ({} byte(s) follow)", out.len(), buf.len() - pos));
        }
    }
    Ok(out)
}

/// which length field a wire.rs error message is about (signature class)
fn field_of(err: &str) -> &'static str {
    if err.starts_with("header") {
        "header-length"
    } else if err.contains("withdrawn routes length") {
        "withdrawn-length"
    } else if err.contains("total path attribute length") {
        "total-attribute-length"
    } else if err.starts_with("path attributes") {
        "attribute-length"
    } else if err.starts_with("MP_REACH") || err.starts_with("MP_UNREACH") {
        "mp-attribute"
    } else if err.starts_with("NLRI") {
        "nlri"
    } else if err.starts_with("OPEN") {
        "open-parameters"
    } else {
        "other"
    }
}

/// Canonical view of a decoded message; `==` is the strict comparison of the fixed-point clause.
#[derive(Clone, Debug, PartialEq)]
enum View {
    Open { asn: u32, hold: u16, id: u32, caps: Vec<Capability> },
    Routes { reach: Option<(Family, Vec<PathNlri>, Option<Nexthop>)>, unreach: Option<(Family, Vec<PathNlri>)>, attrs: Vec<Attribute>, errs: usize, both: bool },
    Eor(Family),
    Notification(Notification),
    Keepalive,
    RouteRefresh(Family),
}

fn view_of(m: ParsedMessage) -> View {
    match m {
        ParsedMessage::Open(o) => View::Open { asn: o.as_number, hold: o.holdtime.seconds(), id: o.router_id, caps: o.capability },
        ParsedMessage::Update(ParsedUpdate::EndOfRib(f)) => View::Eor(f),
        ParsedMessage::Update(ParsedUpdate::Routes { reach, mp_reach, unreach, mp_unreach, attrs, error_attrs }) => {
            let both = (reach.is_some() && mp_reach.is_some()) || (unreach.is_some() && mp_unreach.is_some());
            View::Routes {
                reach: reach.or(mp_reach).map(|r| (r.family, r.entries, r.nexthop)),
                unreach: unreach.or(mp_unreach).map(|u| (u.family, u.entries)),
                attrs,
                errs: error_attrs.len(),
                both,
            }
        }
        ParsedMessage::Notification(n) => View::Notification(n),
        ParsedMessage::Keepalive => View::Keepalive,
        ParsedMessage::RouteRefresh { family } => View::RouteRefresh(family),
    }
}

/// Feed the byte stream to the peer exactly as the session loop does.
fn decode_stream(rx: &mut PeerCodec, buf: &[u8]) -> Result<Vec<View>, (usize, String)> {
    let mut b = BytesMut::from(buf);
    let mut out = Vec::new();
    while !b.is_empty() {
        let before = b.len();
        match catch(|| rx.try_parse(&mut b)) {
            Err(p) => return Err((out.len(), format!("panic: {p}"))),
            Ok(Err(n)) => return Err((out.len(), format!("NOTIFICATION {}/{} ({n})", n.notification_code(), n.notification_subcode()))),
            Ok(Ok(None)) => return Err((out.len(), format!("{} byte(s) left that the peer takes for an incomplete frame", b.len()))),
            Ok(Ok(Some(m))) => {
                if b.len() >= before {
                    return Err((out.len(), "peer returned a message without consuming bytes".into()));
                }
                out.push(view_of(m));
            }
        }
    }
    Ok(out)
}

/// The Message that carries the value of a decoded frame (for the fixed-point clause).
fn message_of(v: &View) -> Option<Message> {
    Some(match v {
        View::Open { asn, hold, id, caps } => Message::Open(Open { as_number: *asn, holdtime: HoldTime::new(*hold)?, router_id: *id, capability: caps.clone() }),
        View::Eor(f) => Message::eor(*f),
        View::Notification(n) => Message::Notification(n.clone()),
        View::Keepalive => Message::Keepalive,
        View::RouteRefresh(f) => Message::RouteRefresh { family: *f },
        View::Routes { reach: Some((f, e, nh)), unreach: None, attrs, errs: 0, both: false } => {
            Message::Update(Update::Reach { family: *f, entries: e.clone(), nexthop: *nh, attr: Arc::new(attrs.clone()) })
        }
        View::Routes { reach: None, unreach: Some((f, e)), errs: 0, both: false, .. } => Message::Update(Update::Unreach { family: *f, entries: e.clone() }),
        _ => return None,
    })
}

/// decode(encode(x)) for a decoded value x; Ok(None) = x is not re-encodable as one Message
fn reencode(f: Family, d: &PairDesc, x: &View) -> Result<Option<View>, String> {
    let Some(msg) = message_of(x) else { return Ok(None) };
    let (mut tx, mut rx) = mkmsg::pair_from_desc(f, d);
    let buf = match encode_raw(&mut tx, &msg) {
        Enc::Panic(p) => return Err(format!("encoder panics on the decoded value: {p}")),
        Enc::Ret(Err(e), _) => return Err(format!("encoder fails on the decoded value: {e}")),
        Enc::Ret(Ok(_), b) => b,
    };
    let vs = decode_stream(&mut rx, &buf).map_err(|(i, e)| format!("re-encoded frame {i}: {e}"))?;
    // merge the frames of a split update back into one value
    let mut it = vs.into_iter();
    let Some(mut acc) = it.next() else { return Err("re-encoding produced no frame".into()) };
    for v in it {
        match (&mut acc, v) {
            (View::Routes { reach: Some((fa, ea, na)), unreach: None, attrs: aa, .. }, View::Routes { reach: Some((fb, eb, nb)), unreach: None, attrs: ab, errs: 0, .. })
                if *fa == fb && *na == nb && *aa == ab =>
            {
                ea.extend(eb)
            }
            (View::Routes { reach: None, unreach: Some((fa, ea)), .. }, View::Routes { reach: None, unreach: Some((fb, eb)), errs: 0, .. }) if *fa == fb => ea.extend(eb),
            (_, o) => return Err(format!("re-encoding produced frames that do not merge: {}", trunc(&format!("{o:?}"), 200))),
        }
    }
    Ok(Some(acc))
}

// ---------------------------------------------------------------------------
// UPDATE oracle
// ---------------------------------------------------------------------------

#[derive(Default)]
struct EvalOut {
    viols: Vec<Violation>,
    frames: usize,
    first_entries: Option<usize>,
    max_frame: usize,
    hash: u64,
    /// outcome class for the non-vacuity tally
    class: String,
}

struct Sizing {
    /// bytes of a frame that are not NLRI (for this attribute block), None if the probe failed
    overhead: Option<usize>,
    /// largest entry of the case incl. path id
    max_entry: usize,
}

fn msg_entries(m: &Message) -> &[PathNlri] {
    match m {
        Message::Update(Update::Reach { entries, .. }) | Message::Update(Update::Unreach { entries, .. }) => entries,
        _ => &[],
    }
}

fn take_entries(m: Message) -> Vec<PathNlri> {
    match m {
        Message::Update(Update::Reach { entries, .. }) | Message::Update(Update::Unreach { entries, .. }) => entries,
        _ => Vec::new(),
    }
}

fn same_entry(reach: bool, sent: &PathNlri, got: &PathNlri) -> bool {
    sent == got || (!reach && sent.path_id == got.path_id && mkmsg::unreach_canonical(&sent.nlri) == got.nlri)
}

fn make_msg(c: &UpdCase, entries: Vec<PathNlri>, attrs: &Arc<Vec<Attribute>>, nexthop: Option<Nexthop>) -> Message {
    if c.reach {
        Message::Update(Update::Reach { family: c.family(), entries, nexthop, attr: attrs.clone() })
    } else {
        Message::Update(Update::Unreach { family: c.family(), entries })
    }
}

fn eval_update(c: &UpdCase, msg: &Message, attrs: &[Attribute], nexthop: Option<Nexthop>, sz: &Sizing) -> EvalOut {
    let entries = msg_entries(msg);
    let case = c.name();
    let f = c.family();
    let fname = mkmsg::family_name(f);
    let op = c.op();
    let n = entries.len();
    let max = c.d.max_len();
    let mut out = EvalOut::default();
    let extra = match c.shape {
        Shape::CodeOnly(_) => ":code-only-form",
        _ if entries.iter().any(|e| mkmsg::nlri_has_label_stack(&e.nlri)) => ":label-stack",
        _ => "",
    };
    let encodable = sz.overhead.map(|o| n == 0 || o + sz.max_entry <= max);
    let (mut tx, mut rx) = mkmsg::pair_from_desc(f, &c.d);

    // ---- encoder returns
    let (ret, buf) = match encode_raw(&mut tx, msg) {
        Enc::Panic(p) => {
            let cls = if p.contains("overflow") { "arith-overflow" } else if p.contains("range") || p.contains("index") { "index" } else { "other" };
            out.viols.push(viol("encode-panics", format!("{op}-{}:{cls}", c.kind()), format!("encode_to panics: {p}"), &case));
            out.class = "panic".into();
            return out;
        }
        Enc::Ret(r, b) => (r, b),
    };
    out.hash = hash64(&buf);
    if let Err(e) = &ret {
        if encodable != Some(false) {
            out.viols.push(viol("encode-fails", format!("{fname}:{op}"), format!("encode_to returns Err({e}) for an input that can be encoded ({n} entries, largest {} bytes, {:?} bytes of overhead, limit {max})", sz.max_entry, sz.overhead), &case));
            out.class = "err".into();
            return out;
        }
    }

    // ---- framing
    let spans = match split_tolerant(&buf) {
        Ok(s) => s,
        Err(e) => {
            out.viols.push(viol("length-field-inconsistent", "header-length".into(), format!("the buffer of {} bytes cannot be split into frames: {e}", buf.len()), &case));
            out.class = "desync".into();
            return out;
        }
    };
    out.frames = spans.len();
    let walker = wire::nlri_kind(f.afi(), f.safi());
    let mut walked: Option<usize> = Some(0);
    let mut per_frame: Vec<Option<usize>> = Vec::new();
    for (i, (off, len, wrapped)) in spans.iter().enumerate() {
        out.max_frame = out.max_frame.max(*len);
        let fb = &buf[*off..*off + *len];
        if *wrapped {
            out.viols.push(viol("frame-too-long", format!("{fname}:{op}"), format!("frame {i} of {} is {len} bytes long (limit {max}); its 16-bit length field wrapped to {} so the peer loses framing", spans.len(), len - 65536), &case));
            out.class = "too-long".into();
            return out;
        }
        let fr = match wire::read_frame(fb, 65535) {
            Ok(fr) => fr,
            Err(e) => {
                out.viols.push(viol("length-field-inconsistent", field_of(&e).into(), format!("frame {i} of {}: {e}; frame={}", spans.len(), trunc(&hex(fb), 400)), &case));
                out.class = "malformed".into();
                return out;
            }
        };
        let wire::Body::Update(u) = &fr.body else {
            out.viols.push(viol("length-field-inconsistent", "message-type".into(), format!("frame {i}: type {} instead of UPDATE", fr.msg_type), &case));
            return out;
        };
        // independent NLRI walk (families with a walker): count and exact consumption
        let mut cnt: Option<usize> = Some(0);
        let o = wire::NlriOpts::reach(c.d.tx_addpath());
        let mut lists: Vec<(Option<wire::NlriKind>, wire::Span)> = vec![(Some(wire::NlriKind::Ipv4), u.withdrawn), (Some(wire::NlriKind::Ipv4), u.nlri)];
        for (afi, safi, sp) in u.mp_reach.iter().map(|m| (m.afi, m.safi, m.nlri)).chain(u.mp_unreach.iter().map(|m| (m.afi, m.safi, m.nlri))) {
            if (afi, safi) != (f.afi(), f.safi()) {
                out.viols.push(viol("length-field-inconsistent", "mp-family".into(), format!("frame {i}: MP attribute for {afi}/{safi}, expected {}/{}", f.afi(), f.safi()), &case));
                return out;
            }
            lists.push((walker, sp));
        }
        for (k, sp) in lists {
            if sp.len == 0 {
                continue;
            }
            match k {
                None => cnt = None,
                Some(k) => match wire::walk_nlri(k, o, fb, sp) {
                    Ok(v) => cnt = cnt.map(|c| c + v.len()),
                    Err(e) => {
                        out.viols.push(viol("length-field-inconsistent", format!("nlri:{fname}{extra}"), format!("frame {i}: {e}; frame={}", trunc(&hex(fb), 400)), &case));
                        out.class = "malformed".into();
                        return out;
                    }
                },
            }
        }
        let empty = u.withdrawn.len == 0 && u.nlri.len == 0 && u.mp_reach.as_ref().is_none_or(|m| m.nlri.len == 0) && u.mp_unreach.as_ref().is_none_or(|m| m.nlri.len == 0);
        per_frame.push(if empty { Some(0) } else { cnt });
        walked = match (walked, cnt) {
            (Some(a), Some(b)) => Some(a + b),
            _ => None,
        };
        if *len > max {
            let shape = if empty && n > 0 { format!("attrs-alone:{op}-{}", c.kind()) } else { format!("{fname}:{op}") };
            out.viols.push(viol("frame-too-long", shape, format!("frame {i} of {} is {len} bytes long, the negotiated maximum is {max} ({} entries submitted, {} in this frame)", spans.len(), n, per_frame[i].map(|x| x.to_string()).unwrap_or("?".into())), &case));
            out.class = "too-long".into();
            return out;
        }
    }
    if let Ok(cnt) = &ret {
        if *cnt != spans.len() {
            out.viols.push(viol("frame-count", op.into(), format!("encode_to returned Ok({cnt}) but wrote {} frame(s)", spans.len()), &case));
            out.class = "count".into();
            return out;
        }
    }

    // ---- the peer decodes
    let views = match decode_stream(&mut rx, &buf) {
        Ok(v) => v,
        Err((i, e)) => {
            let clause = if e.starts_with("panic") { "decode-panics" } else { "decode-rejects" };
            let fb = spans.get(i).map(|(o, l, _)| hex(&buf[*o..*o + *l])).unwrap_or_default();
            out.viols.push(viol(clause, format!("{fname}:{op}{extra}"), format!("frame {i} of {}: {e}; bytes={}", spans.len(), trunc(&fb, 400)), &case));
            out.class = "rejected".into();
            return out;
        }
    };
    if views.len() != spans.len() {
        out.viols.push(viol("frame-count", format!("{op}:peer"), format!("the peer found {} message(s) in {} frame(s)", views.len(), spans.len()), &case));
        return out;
    }
    let mut delivered = 0usize; // entries matched in order so far
    let mut in_order = true;
    let mut opposite = 0usize;
    let mut frame_entries: Vec<usize> = Vec::new();
    let mut nhs: Vec<Option<Nexthop>> = Vec::new();
    let mut rattrs: Vec<&Vec<Attribute>> = Vec::new();
    let mut errs = 0usize;
    for v in &views {
        match v {
            View::Routes { reach, unreach, attrs, errs: e, .. } => {
                errs += e;
                let (mine, other): (Option<(&Family, &Vec<PathNlri>)>, Option<(&Family, &Vec<PathNlri>)>) = if c.reach {
                    (reach.as_ref().map(|r| (&r.0, &r.1)), unreach.as_ref().map(|u| (&u.0, &u.1)))
                } else {
                    (unreach.as_ref().map(|u| (&u.0, &u.1)), reach.as_ref().map(|r| (&r.0, &r.1)))
                };
                opposite += other.map(|o| o.1.len()).unwrap_or(0);
                match mine {
                    Some((ff, e)) => {
                        if *ff != f {
                            out.viols.push(viol("wrong-family", format!("{fname}:{op}"), format!("decoded {op} for family {ff:?}"), &case));
                            return out;
                        }
                        frame_entries.push(e.len());
                        for x in e.iter() {
                            if in_order && delivered < n && same_entry(c.reach, &entries[delivered], x) {
                                delivered += 1;
                            } else {
                                in_order = false;
                            }
                        }
                        if c.reach {
                            nhs.push(reach.as_ref().unwrap().2);
                            rattrs.push(attrs);
                        }
                    }
                    None => frame_entries.push(0),
                }
            }
            View::Eor(_) if n == 0 => frame_entries.push(0),
            o => {
                out.viols.push(viol("wrong-message", format!("{fname}:{op}"), format!("the peer decoded {}", trunc(&format!("{o:?}"), 200)), &case));
                return out;
            }
        }
    }
    out.first_entries = frame_entries.first().copied();
    if n == 0 {
        out.class = "zero-entries".into();
        return out; // never built by the daemon: framing clauses only
    }

    // ---- no drop, no duplicate
    let n_got: usize = frame_entries.iter().sum();
    let walked_short = walked.is_some_and(|w| w != n_got);
    if !in_order || delivered != n || opposite > 0 || walked_short {
        let want: Vec<PathNlri> = if c.reach { entries.to_vec() } else { entries.iter().map(|e| PathNlri { path_id: e.path_id, nlri: mkmsg::unreach_canonical(&e.nlri) }).collect() };
        let mut got: Vec<PathNlri> = Vec::with_capacity(n_got);
        for v in &views {
            if let View::Routes { reach, unreach, .. } = v {
                if let Some(e) = if c.reach { reach.as_ref().map(|r| &r.1) } else { unreach.as_ref().map(|u| &u.1) } {
                    got.extend(e.iter().cloned());
                }
            }
        }
        let mut cnt: HashMap<&PathNlri, i64> = HashMap::new();
        for e in &want {
            *cnt.entry(e).or_default() += 1;
        }
        for e in &got {
            *cnt.entry(e).or_default() -= 1;
        }
        let missing: i64 = cnt.values().filter(|v| **v > 0).sum();
        let surplus: i64 = -cnt.values().filter(|v| **v < 0).sum::<i64>();
        let has_empty = frame_entries.iter().any(|x| *x == 0);
        if ret.is_ok() && missing > 0 {
            let cause = if encodable == Some(false) {
                "attributes-leave-no-room-for-one-entry"
            } else if has_empty {
                "frame-without-nlri-ends-the-split"
            } else {
                "other"
            };
            let first_missing = want.iter().find(|e| cnt.get(e).is_some_and(|v| *v > 0));
            out.viols.push(viol(
                "entries-dropped",
                format!("{op}-{}:{cause}", c.kind()),
                format!("encode_to returned Ok({}) but {missing} of {n} entries never reach the peer ({} frame(s) with entry counts {:?}; attribute block {} bytes, overhead {:?}, largest entry {} bytes, limit {max}); first missing: {:?}",
                    spans.len(), spans.len(), trunc(&format!("{frame_entries:?}"), 120), attrs_session_len(attrs, c.d.two_byte_as()), sz.overhead, sz.max_entry, first_missing),
                &case,
            ));
            out.class = "dropped".into();
            return out;
        }
        if surplus > 0 || opposite > 0 {
            out.viols.push(viol("entries-duplicated", format!("{fname}:{op}{extra}"), format!("{surplus} entries delivered that were not submitted / delivered twice, {opposite} in the opposite list; sent {} got {}", trunc(&format!("{want:?}"), 300), trunc(&format!("{got:?}"), 300)), &case));
            out.class = "duplicated".into();
            return out;
        }
        if walked_short && missing == 0 {
            out.viols.push(viol("length-field-inconsistent", format!("nlri-count:{fname}"), format!("the independent walk finds {} NLRI, the peer decoded {}", walked.unwrap(), got.len()), &case));
            return out;
        }
        // ret is Err for an unencodable input: a delivered subset is accepted
    }
    if ret.is_err() {
        out.class = "err-accepted".into();
        return out;
    }
    out.class = format!("ok:{}", match spans.len() { 1 => "1-frame", 2 => "2-frames", 3 => "3-frames", _ => "4+frames" });

    // ---- value clauses
    if errs > 0 {
        out.viols.push(viol("attr-rejected", format!("{}:{}", if c.d.two_byte_as() { "as2" } else { "as4" }, c.attr.class()), format!("the peer reports {errs} attribute error(s) on a valid UPDATE"), &case));
    }
    if c.reach {
        if let Some(nh) = nhs.iter().find(|nh| **nh != nexthop) {
            let cls = match (nexthop, nh) {
                (Some(a), Some(b)) => format!(":{}->{}", nh_class(&a), nh_class(b)),
                (Some(a), None) => format!(":{}->none", nh_class(&a)),
                (None, Some(b)) => format!(":none->{}", nh_class(b)),
                _ => String::new(),
            };
            let fb = spans.first().map(|(o, l, _)| hex(&buf[*o..*o + *l])).unwrap_or_default();
            out.viols.push(viol("nexthop-differs", format!("{fname}:{op}{cls}"), format!("sent next hop {nexthop:?}, received {nh:?}; bytes={}", trunc(&fb, 300)), &case));
        }
        let (want_attrs, free) = expected_attrs(attrs, c.d.two_byte_as());
        let wk = sorted_keys(&want_attrs, free);
        if let Some(a) = rattrs.iter().find(|a| sorted_keys(a, free) != wk) {
            out.viols.push(viol(
                "attrs-differ",
                format!("{}:{}", if c.d.two_byte_as() { "as2" } else { "as4" }, c.attr.class()),
                format!("sent {} (expected at the receiver {}), received {}", trunc(&format!("{attrs:?}"), 400), trunc(&format!("{want_attrs:?}"), 400), trunc(&format!("{a:?}"), 400)),
                &case,
            ));
        }
    }
    // ---- fixed point: every decoded frame (first and last frame only for inputs above 4096 entries)
    let idx: Vec<usize> = if views.len() <= 2 || n <= 4096 { (0..views.len()).collect() } else { vec![0, views.len() - 1] };
    for i in idx {
        match reencode(f, &c.d, &views[i]) {
            Ok(None) => {}
            Ok(Some(y)) if y == views[i] => {}
            Ok(Some(y)) => {
                out.viols.push(viol("fixed-point", format!("{fname}:{op}"), format!("frame {i}: decode(encode(x)) != x for the decoded x = {}; got {}", trunc(&format!("{:?}", views[i]), 300), trunc(&format!("{y:?}"), 300)), &case));
                break;
            }
            Err(e) => {
                out.viols.push(viol("fixed-point", format!("{fname}:{op}"), format!("frame {i}: {e}"), &case));
                break;
            }
        }
    }
    out
}

/// Evaluate one fully specified update case (replay and value cases).
fn eval_upd_case(c: &UpdCase) -> Result<EvalOut, String> {
    let f = c.family();
    let nhc = mkmsg::nexthops(f).get(c.nh).cloned().ok_or("next hop index")?;
    if nhc.needs_ext_nh && !c.d.ext_nh() {
        return Err("this next hop needs RFC 8950 negotiated".into());
    }
    let entries = build_entries(f, c.shape, c.n, c.d.tx_addpath())?;
    if !all_distinct(&entries) {
        return Err("generated entries are not distinct".into());
    }
    let attrs = c.attr.attrs()?;
    let sz = sizing(c, &entries, &attrs, nhc.nexthop);
    let msg = make_msg(c, entries, &Arc::new(attrs.clone()), nhc.nexthop);
    Ok(eval_update(c, &msg, &attrs, nhc.nexthop, &sz))
}

fn sizing(c: &UpdCase, entries: &[PathNlri], attrs: &[Attribute], nh: Option<Nexthop>) -> Sizing {
    let f = c.family();
    let two = c.d.two_byte_as();
    let ap = if c.d.tx_addpath() { 4 } else { 0 };
    let overhead = probe(f, &c.d, c.reach, nh).map(|p| {
        let delta = if c.reach { attrs_session_len(attrs, two) as isize - attrs_session_len(&mkmsg::base_attrs(), two) as isize } else { 0 };
        (p.head as isize + delta) as usize + p.trail
    });
    // bulk shapes have at most three distinct sizes: look at the first entries and the last
    let max_entry = entries.iter().take(130).chain(entries.last()).map(|e| mkmsg::nlri_wire_len(&e.nlri) + ap).max().unwrap_or(0);
    Sizing { overhead, max_entry }
}

fn pair_class(d: &PairDesc) -> String {
    format!(
        "{}{}{}{}",
        if d.two_byte_as() { "as2" } else { "as4" },
        if d.ext_msg() { "+xmsg" } else { "" },
        if d.ext_nh() { "+xnh" } else { "" },
        if d.tx_addpath() { "+addpath" } else { "" }
    )
}

/// Generator self-checks that do not involve the subject's decoder: failures
/// are machinery errors (the generators are wrong), not findings.
fn selfcheck(rep: &mut Report) -> Result<(), String> {
    // distinctness and min/max ordering of the NLRI sets; bulk injectivity
    for f in mkmsg::families() {
        let all = mkmsg::nlris(f, NlriSize::All);
        let set: std::collections::BTreeSet<String> = all.iter().map(|n| format!("{n:?}")).collect();
        if set.len() != all.len() || all.is_empty() {
            return Err(format!("{}: NLRI values not distinct / empty", mkmsg::family_name(f)));
        }
        let min = mkmsg::nlri_wire_len(&mkmsg::nlris(f, NlriSize::Min)[0]);
        let max = mkmsg::nlri_wire_len(&mkmsg::nlris(f, NlriSize::Max)[0]);
        if all.iter().any(|n| mkmsg::nlri_wire_len(n) < min) || min > max {
            return Err(format!("{}: Min/Max not extremal", mkmsg::family_name(f)));
        }
        for big in [false, true] {
            let bulk = mkmsg::nlri_bulk(f, 3000, big);
            // run_group computes the frame capacity from one size per shape
            let l0 = mkmsg::nlri_wire_len(&bulk[0]);
            if bulk.iter().any(|n| mkmsg::nlri_wire_len(n) != l0) {
                return Err(format!("{}: nlri_nth(big={big}) sizes are not uniform", mkmsg::family_name(f)));
            }
            let s: std::collections::BTreeSet<Vec<u8>> = bulk.iter().map(|n| n.encode_to_bytes()).collect();
            if s.len() != bulk.len() {
                return Err(format!("{}: nlri_nth(big={big}) not injective", mkmsg::family_name(f)));
            }
        }
        rep.notes.push(format!(
            "gen: {} nlri values={} min={}B max={}B bulk small={}B big={}B",
            mkmsg::family_name(f), all.len(), min, max,
            mkmsg::nlri_wire_len(&mkmsg::nlri_nth(f, 1, false)), mkmsg::nlri_wire_len(&mkmsg::nlri_nth(f, 1, true))
        ));
    }
    // attr_block_of_size is exact from 16 upwards
    let mut exact = 0;
    for t in (13..=6000usize).chain([65000, 65535]) {
        let (a, n) = mkmsg::attr_block_of_size(t);
        if n != mkmsg::attrs_wire_len(&a) {
            return Err(format!("attr_block_of_size({t}): reported {n} != measured"));
        }
        if t >= 16 && n != t {
            return Err(format!("attr_block_of_size({t}) produced {n}"));
        }
        exact += 1;
    }
    rep.notes.push(format!("gen: attr_block_of_size exact for {exact} targets (16..=6000, 65000, 65535)"));
    // capability sets fit one OPEN; oversize ones do not
    for (n, c) in mkmsg::capability_sets() {
        if mkmsg::caps_wire_len(&c) > 253 {
            return Err(format!("capability set {n} is {} bytes", mkmsg::caps_wire_len(&c)));
        }
    }
    for (n, c) in mkmsg::capability_sets_oversize() {
        if mkmsg::caps_wire_len(&c) <= 253 {
            return Err(format!("oversize capability set {n} is only {} bytes", mkmsg::caps_wire_len(&c)));
        }
    }
    // the 1024 pairs negotiate what their descriptor says
    let mut outcomes = std::collections::BTreeSet::new();
    for f in [Family::IPV4, Family::IPV6_VPN] {
        for (d, tx, rx) in mkmsg::codec_pairs_desc(f) {
            let txs = tx.family_state(f).map(|s| s.addpath_tx);
            let rxs = rx.family_state(f).map(|s| s.addpath_rx);
            if tx.two_byte_as != d.two_byte_as() || rx.two_byte_as != d.two_byte_as()
                || tx.extended_length != d.ext_msg() || rx.extended_length != d.ext_msg()
                || txs != Some(d.tx_addpath()) || rxs != Some(d.tx_addpath())
                || tx.max_message_length() != d.max_len()
                || PairDesc::parse(&d.name()) != Some(d)
            {
                return Err(format!("pair {} of {}: negotiated codec disagrees with the descriptor", d.name(), mkmsg::family_name(f)));
            }
            outcomes.insert(pair_class(&d));
        }
    }
    rep.notes.push(format!("gen: 2x1024 capability pairs negotiate as described; {} distinct outcomes", outcomes.len()));
    let _ = Capability::RouteRefresh;
    Ok(())
}

/// wire.rs readers: totality (no panic on truncations / single-byte mutations of
/// valid input) and acceptance of what the repository's BMP/MRT/RTR encoders emit.
fn wire_selftest(rep: &mut Report) -> Result<(), String> {
    use bytes::BytesMut;
    use rustybgp_packet::{bmp, mrt, rpki};
    use tokio_util::codec::Encoder;
    let mut corpus: Vec<(&'static str, Vec<u8>)> = Vec::new();
    // BGP frames
    let mut tx = PeerCodec::new();
    for (_, m) in mkmsg::opens().into_iter().take(12).chain(mkmsg::notifications().into_iter().take(4)) {
        if let Ok(Ok(fs)) = catch(|| mkmsg::encode(&mut tx, &m)) {
            corpus.extend(fs.into_iter().map(|f| ("bgp", f)));
        }
    }
    for f in mkmsg::families() {
        let (mut tx, _) = mkmsg::default_codec_pair(f);
        for (_, m) in mkmsg::updates(f, 2, true, false, &mkmsg::attribute_sets().last().unwrap().1) {
            if let Ok(Ok(fs)) = catch(|| mkmsg::encode(&mut tx, &m)) {
                corpus.extend(fs.into_iter().map(|f| ("bgp", f)));
            }
        }
    }
    // BMP (the repository's encoder)
    let v4: std::net::IpAddr = "192.0.2.2".parse().unwrap();
    let v6: std::net::IpAddr = "2001:db8::2".parse().unwrap();
    let open = mkmsg::opens()[1].1.clone();
    let mut bmp_ok = 0;
    let mut bmp_msgs: Vec<bmp::Message> = Vec::new();
    for addr in [v4, v6] {
        let h = bmp::PerPeerHeader::new(0, 65001, "192.0.2.2".parse().unwrap(), 0, addr, 1);
        bmp_msgs.push(bmp::Message::PeerUp { header: h.clone(), local_addr: addr, local_port: 179, remote_port: 40000, local_open: open.clone(), remote_open: open.clone() });
        bmp_msgs.push(bmp::Message::PeerDown { header: h.clone(), reason: bmp::PeerDownReason::RemoteUnexpected });
        bmp_msgs.push(bmp::Message::PeerDown { header: h.clone(), reason: bmp::PeerDownReason::LocalFsm(2) });
        bmp_msgs.push(bmp::Message::PeerDown { header: h.clone(), reason: bmp::PeerDownReason::LocalNotification(mkmsg::notifications()[3].1.clone()) });
        bmp_msgs.push(bmp::Message::PeerDown { header: h.clone(), reason: bmp::PeerDownReason::Deconfigured });
        for f in [Family::IPV4, Family::IPV6] {
            for (_, m) in mkmsg::updates(f, 3, true, false, &mkmsg::base_attrs()) {
                bmp_msgs.push(bmp::Message::RouteMonitoring { header: h.clone().with_post_policy(), update: m, addpath: false });
            }
        }
    }
    bmp_msgs.push(bmp::Message::Initiation(vec![(bmp::Message::INFO_TYPE_SYSNAME, b"rtr1".to_vec()), (bmp::Message::INFO_TYPE_SYSDESCR, b"x".to_vec())]));
    bmp_msgs.push(bmp::Message::Termination);
    let n_bmp = bmp_msgs.len();
    for m in &bmp_msgs {
        let mut b = BytesMut::new();
        let mut c = bmp::BmpCodec::new();
        if catch(|| c.encode(m, &mut b)).is_ok() {
            let v = b.to_vec();
            match wire::read_bmp(&v) {
                Ok(x) if x.length == v.len() => bmp_ok += 1,
                Ok(x) => rep.notes.push(format!("wire: BMP type {} length {} != {} bytes emitted", x.msg_type, x.length, v.len())),
                Err(e) => rep.notes.push(format!("wire: BMP reader rejects the encoder's output: {e}")),
            }
            corpus.push(("bmp", v));
        }
    }
    // MRT
    let mut mrt_ok = 0;
    let mut mrt_n = 0;
    for (ra, la) in [(v4, v4), (v6, v6)] {
        for addpath in [false, true] {
            let h = mrt::MpHeader::new(65001, 65002, 0, ra, la, true);
            let m = mrt::Message::Mp { header: h, body: mkmsg::updates(Family::IPV4, 2, true, addpath, &mkmsg::base_attrs())[0].1.clone(), addpath };
            let mut b = BytesMut::new();
            let mut c = mrt::MrtCodec::new();
            if catch(|| c.encode(&m, &mut b)).is_ok() {
                mrt_n += 1;
                let v = b.to_vec();
                match wire::read_mrt(&v) {
                    Ok(x) if x.total_len() == v.len() => mrt_ok += 1,
                    Ok(_) => rep.notes.push("wire: MRT record length differs from bytes emitted".into()),
                    Err(e) => rep.notes.push(format!("wire: MRT reader rejects the encoder's output: {e}")),
                }
                corpus.push(("mrt", v));
            }
        }
    }
    let recs = vec![
        mrt::TableDumpRecord::PeerIndexTable { router_id: "192.0.2.1".parse().unwrap(), peers: vec![
            mrt::PeerEntry { bgp_id: "192.0.2.2".parse().unwrap(), addr: v4, asn: 65001 },
            mrt::PeerEntry { bgp_id: "192.0.2.3".parse().unwrap(), addr: v6, asn: 4_200_000_000 },
        ] },
        mrt::TableDumpRecord::RibIpv4Unicast { seq: 0, prefix: mkmsg::nlris(Family::IPV4, NlriSize::Max).remove(0), entries: vec![
            mrt::RibEntry { peer_index: 0, originated: 1, nexthop: Some(mkmsg::nh_v4()), attrs: std::sync::Arc::new(mkmsg::base_attrs()) },
        ] },
        mrt::TableDumpRecord::RibIpv6Unicast { seq: 1, prefix: mkmsg::nlris(Family::IPV6, NlriSize::Max).remove(0), entries: vec![
            mrt::RibEntry { peer_index: 1, originated: 1, nexthop: Some(mkmsg::nh_v6()), attrs: std::sync::Arc::new(mkmsg::base_attrs()) },
            mrt::RibEntry { peer_index: 0, originated: 2, nexthop: Some(mkmsg::nh_v6_ll()), attrs: std::sync::Arc::new(mkmsg::attribute_sets().last().unwrap().1.clone()) },
        ] },
    ];
    for rcd in &recs {
        let mut b = BytesMut::new();
        if catch(|| mrt::encode_table_dump(7, rcd, &mut b)).is_ok() {
            mrt_n += 1;
            let v = b.to_vec();
            match wire::read_mrt(&v) {
                Ok(x) if x.total_len() == v.len() && !matches!(x.body, wire::MrtBody::Other) => mrt_ok += 1,
                Ok(_) => rep.notes.push("wire: TABLE_DUMP_V2 record not recognised / length differs".into()),
                Err(e) => rep.notes.push(format!("wire: MRT reader rejects encode_table_dump output: {e}")),
            }
            corpus.push(("mrt", v));
        }
    }
    // RTR
    let mut rtr_ok = 0;
    let mut rtr_n = 0;
    for ver in [0u8, 1] {
        let msgs = vec![
            rpki::Message::SerialNotify { session_id: 7, serial_number: 9 },
            rpki::Message::SerialQuery { session_id: 7, serial_number: 9 },
            rpki::Message::ResetQuery,
            rpki::Message::CacheResponse { session_id: 7 },
            rpki::Message::IpPrefix(rpki::Prefix { net: "192.0.2.0/24".parse().unwrap(), flags: 1, max_length: 24, as_number: 65001 }),
            rpki::Message::IpPrefix(rpki::Prefix { net: "2001:db8::/32".parse().unwrap(), flags: 1, max_length: 48, as_number: 65001 }),
            rpki::Message::EndOfData { session_id: 7, serial_number: 9, refresh_interval: 3600, retry_interval: 600, expire_interval: 7200 },
            rpki::Message::CacheReset,
            rpki::Message::ErrorReport { error_code: 2 },
        ];
        for m in &msgs {
            let mut b = BytesMut::new();
            let mut c = rpki::RtrCodec::with_version(ver);
            if catch(|| c.encode(m, &mut b)).is_ok() {
                rtr_n += 1;
                let v = b.to_vec();
                match wire::read_rtr(&v) {
                    Ok(x) if x.length == v.len() => rtr_ok += 1,
                    Ok(_) => rep.notes.push("wire: RTR PDU length differs from bytes emitted".into()),
                    Err(e) => rep.notes.push(format!("wire: RTR reader rejects the encoder's output (v{ver}): {e}")),
                }
                corpus.push(("rtr", v));
            }
        }
    }
    rep.notes.push(format!("wire: repository encoders accepted by the independent readers: BMP {bmp_ok}/{n_bmp}, MRT {mrt_ok}/{mrt_n}, RTR {rtr_ok}/{rtr_n}"));
    // hand-written RFC vectors the readers must accept (independent of the repository)
    let vectors: Vec<(&str, Vec<u8>, fn(&[u8]) -> Result<(), String>)> = vec![
        // RFC 9072 OPEN: opt len 255, marker 255, ext len 0x0009, param type 2 len(2)=6, MP cap
        ("open-rfc9072", {
            let mut v = vec![0xff; 16];
            v.extend_from_slice(&[0, 41, 1, 4, 0xfd, 0xe9, 0, 90, 192, 0, 2, 1, 255, 255, 0, 9, 2, 0, 6, 1, 4, 0, 1, 0, 1]);
            v
        }, |b| wire::read_frame(b, 4096).and_then(|f| match f.body { wire::Body::Open(o) if o.extended && o.caps.len() == 1 => Ok(()), _ => Err("not extended".into()) })),
        // RFC 8210 Error Report: code 2, encapsulated Reset Query (8), text "bad"
        ("rtr-error-report", vec![1, 10, 0, 2, 0, 0, 0, 27, 0, 0, 0, 8, 1, 2, 0, 0, 0, 0, 0, 8, 0, 0, 0, 3, b'b', b'a', b'd'],
            |b| wire::read_rtr(b).map(|_| ())),
        // RFC 8210 Router Key: flags 1, SKI 20, AS 65001, SPKI 3 bytes
        ("rtr-router-key", { let mut v = vec![1, 9, 1, 0, 0, 0, 0, 35]; v.extend_from_slice(&[7; 20]); v.extend_from_slice(&[0, 0, 0xfd, 0xe9, 1, 2, 3]); v },
            |b| wire::read_rtr(b).map(|_| ())),
        // RFC 7854 Stats Report: one counter type 0 (rejected prefixes) len 4
        ("bmp-stats", { let mut v = vec![3, 0, 0, 0, 60, 1]; v.extend_from_slice(&[0; 2]); v.extend_from_slice(&[0; 8]); v.extend_from_slice(&[0; 12]); v.extend_from_slice(&[192, 0, 2, 2, 0, 0, 0xfd, 0xe9, 192, 0, 2, 2, 0, 0, 0, 1, 0, 0, 0, 0]); v.extend_from_slice(&[0, 0, 0, 1, 0, 0, 0, 4, 0, 0, 0, 9]); v },
            |b| wire::read_bmp(b).map(|_| ())),
        // RFC 8050 RIB_IPV4_UNICAST_ADDPATH, one entry, path id 5, ORIGIN only
        ("mrt-rib-addpath", vec![0, 0, 0, 1, 0, 13, 0, 8, 0, 0, 0, 26, 0, 0, 0, 0, 24, 192, 0, 2, 0, 1, 0, 0, 0, 0, 0, 1, 0, 0, 0, 5, 0, 4, 0x40, 1, 1, 0],
            |b| wire::read_mrt(b).and_then(|r| match r.body { wire::MrtBody::Rib { addpath: true, ref entries, .. } if entries[0].path_id == Some(5) => Ok(()), _ => Err("shape".into()) })),
        // RFC 8277 withdraw: compat field 0x800000, 10.0.0.0/8
        ("labeled-withdraw", vec![32, 0x80, 0, 0, 10],
            |b| wire::walk_nlri(wire::NlriKind::LabeledV4, wire::NlriOpts::withdraw(false), b, wire::Span::new(0, b.len())).and_then(|v| if v.len() == 1 && v[0].prefix_bits == 8 { Ok(()) } else { Err("shape".into()) })),
    ];
    for (name, bytes, f) in &vectors {
        f(bytes).map_err(|e| format!("wire self-test vector {name}: {e}"))?;
        corpus.push(("vec", bytes.clone()));
    }
    // totality: every truncation, every byte x {^1, ^0x80, 0, 0xff}
    let mut calls = 0u64;
    let mut accepted = 0u64;
    for (kind, v) in &corpus {
        let run = |b: &[u8]| -> Result<bool, String> {
            catch(|| match *kind {
                "bgp" => wire::read_frame(b, 65535).and_then(|f| wire::update_nlri_fields(b, &f, false).map(|_| ())).is_ok(),
                "bmp" => wire::read_bmp(b).is_ok(),
                "mrt" => wire::read_mrt(b).is_ok(),
                "rtr" => wire::read_rtr(b).is_ok(),
                _ => {
                    let _ = wire::read_frame(b, 65535);
                    let _ = wire::read_bmp(b);
                    let _ = wire::read_mrt(b);
                    let _ = wire::read_rtr(b);
                    for k in [wire::NlriKind::Ipv4, wire::NlriKind::Ipv6, wire::NlriKind::LabeledV4, wire::NlriKind::LabeledV6, wire::NlriKind::VpnV4, wire::NlriKind::VpnV6, wire::NlriKind::Evpn, wire::NlriKind::Rtc] {
                        for ap in [false, true] {
                            let _ = wire::walk_nlri(k, wire::NlriOpts::reach(ap), b, wire::Span::new(0, b.len()));
                            let _ = wire::walk_nlri(k, wire::NlriOpts::withdraw(ap), b, wire::Span::new(0, b.len()));
                        }
                    }
                    true
                }
            })
        };
        for cut in 0..=v.len() {
            calls += 1;
            if run(&v[..cut]).map_err(|p| format!("wire reader panicked on a truncation of a {kind} sample: {p}"))? {
                accepted += 1;
            }
        }
        let step = if v.len() > 600 { 7 } else { 1 };
        for i in (0..v.len()).step_by(step) {
            for m in 0..4 {
                let mut w = v.clone();
                w[i] = match m { 0 => w[i] ^ 1, 1 => w[i] ^ 0x80, 2 => 0, _ => 0xff };
                calls += 1;
                if run(&w).map_err(|p| format!("wire reader panicked on a mutated {kind} sample (offset {i}): {p}"))? {
                    accepted += 1;
                }
            }
        }
    }
    rep.notes.push(format!("wire: totality check: {} samples, {calls} reader calls on truncations/mutations, 0 panics, {accepted} accepted", corpus.len()));
    Ok(())
}

// ---------------------------------------------------------------------------
// groups: one (family, pair, op, shape, attribute block, next hop) with its entry-count ladder
// ---------------------------------------------------------------------------

/// the attribute-size band around "exactly one entry still fits": block sizes such that
/// overhead + first entry == limit + delta for every delta in BAND_LO..=BAND_HI
/// (the encoder's largest per-entry reservation is 64 bytes)
const BAND_LO: isize = -70;
const BAND_HI: isize = 2;

#[derive(Clone, Copy, Debug)]
enum GroupAttr {
    Fixed(AttrSpec),
    Band(isize),
}

#[derive(Clone, Copy, Debug, PartialEq)]
enum CountSel {
    /// 0,1,2,k-1,k,k+1,2k,3k+1
    Ladder,
    /// 1,2,k,k+1
    Short,
    /// k,k+1,k+2
    Fill,
}

#[derive(Clone, Debug)]
struct Group {
    fi: usize,
    d: PairDesc,
    reach: bool,
    shape: Shape,
    attr: GroupAttr,
    nh: usize,
    counts: CountSel,
}

#[derive(Default)]
struct Acc {
    viols: BTreeMap<String, ((usize, usize, usize), Violation, u64)>,
    wire: HashSet<u64>,
    tally: BTreeMap<String, u64>,
    evals: u64,
    samples: Vec<String>,
    machinery: Option<String>,
}

impl Acc {
    fn add_viols(&mut self, weight: (usize, usize, usize), vs: Vec<Violation>) {
        for v in vs {
            match self.viols.get_mut(&v.sig) {
                Some((w, old, n)) => {
                    *n += 1;
                    if (weight, &v.case) < (*w, &old.case) {
                        *w = weight;
                        *old = v;
                    }
                }
                None => {
                    self.viols.insert(v.sig.clone(), (weight, v, 1));
                }
            }
        }
    }
    fn tally(&mut self, k: &str) {
        *self.tally.entry(k.to_string()).or_default() += 1;
    }
}

/// per-work-item result, merged into the shared accumulator in one step
#[derive(Default)]
struct Local {
    viols: Vec<((usize, usize, usize), Violation)>,
    hashes: Vec<u64>,
    tally: Vec<String>,
    evals: u64,
    sample: Option<String>,
    machinery: Option<String>,
}

impl Local {
    fn take(&mut self, c: &UpdCase, attr_len: usize, o: EvalOut, sub: &str) {
        self.evals += 1;
        let name = c.name();
        for v in o.viols {
            // witness preference: small attribute block, few entries, pair close to the default one
            let dd = PairDesc::DEFAULT;
            let dev = [c.d.l_as4 != dd.l_as4, c.d.r_as4 != dd.r_as4, c.d.l_ext_msg, c.d.r_ext_msg, c.d.l_ext_nh, c.d.r_ext_nh, c.d.l_addpath != 0, c.d.r_addpath != 0].iter().filter(|x| **x).count();
            self.viols.push(((dev * 100_000 + attr_len, c.n, name.len()), v));
        }
        if o.hash != 0 {
            self.hashes.push(o.hash);
        }
        self.tally.push(format!("{sub}: outcome {}", o.class));
        if o.frames > 0 {
            let lim = c.d.max_len();
            let rel = if o.max_frame > lim { "above the limit" } else if o.max_frame == lim { "exactly the limit" } else if o.max_frame + 70 >= lim { "within 70 bytes below the limit" } else { "well below the limit" };
            self.tally.push(format!("{sub}: largest frame {rel}"));
        }
        if self.sample.is_none() {
            self.sample = Some(name);
        }
    }
}

fn ladder_counts(sel: CountSel, k: Option<usize>) -> Vec<usize> {
    let mut v: Vec<usize> = match (sel, k) {
        (CountSel::Ladder, None) => vec![0, 1, 2],
        (CountSel::Ladder, Some(0)) => vec![0, 1, 2, 3],
        (CountSel::Ladder, Some(k)) => vec![0, 1, 2, k - 1, k, k + 1, 2 * k, 3 * k + 1],
        (CountSel::Short, None) | (CountSel::Short, Some(0)) => vec![1, 2],
        (CountSel::Short, Some(k)) => vec![1, 2, k, k + 1],
        (CountSel::Fill, None) | (CountSel::Fill, Some(0)) => vec![1, 2, 3],
        (CountSel::Fill, Some(k)) => vec![k, k + 1, k + 2],
    };
    v.sort();
    v.dedup();
    v
}

fn run_group(g: &Group, sub: &str, l: &mut Local) {
    let f = fam(g.fi);
    let two = g.d.two_byte_as();
    let ap = g.d.tx_addpath();
    let max = g.d.max_len();
    let Some(nhc) = mkmsg::nexthops(f).get(g.nh).cloned() else {
        l.machinery = Some(format!("group {g:?}: next hop index"));
        return;
    };
    let p = probe(f, &g.d, g.reach, nhc.nexthop);
    let runs = size_runs(f, g.shape, ap);
    if runs.is_empty() {
        l.machinery = Some(format!("group {g:?}: not a bulk shape"));
        return;
    }
    let base_s = attrs_session_len(&mkmsg::base_attrs(), two) as isize;
    let spec = match g.attr {
        GroupAttr::Fixed(s) => s,
        GroupAttr::Band(delta) => {
            let Some(p) = p else {
                l.tally.push(format!("{sub}: group skipped (probe failed)"));
                return;
            };
            let a_s = max as isize + delta - runs[0].1 as isize - p.trail as isize - p.head as isize + base_s;
            let a4 = a_s + if two { 2 } else { 0 };
            if a4 < 16 {
                l.tally.push(format!("{sub}: group skipped (block too small)"));
                return;
            }
            AttrSpec::Block(a4 as usize)
        }
    };
    let attrs = match spec.attrs() {
        Ok(a) => a,
        Err(e) => {
            l.machinery = Some(e);
            return;
        }
    };
    if let AttrSpec::Block(t) = spec {
        if t >= 16 && mkmsg::attrs_wire_len(&attrs) != t {
            l.machinery = Some(format!("attr_block_of_size({t}) is not exact"));
            return;
        }
    }
    let attr_len = attrs_session_len(&attrs, two);
    let attrs_arc = Arc::new(attrs.clone());
    let overhead = p.map(|p| {
        let delta = if g.reach { attr_len as isize - base_s } else { 0 };
        (p.head as isize + delta) as usize + p.trail
    });
    let k = overhead.map(|o| fit(&runs, max.saturating_sub(o)));
    let max_entry = runs.iter().map(|r| r.1).max().unwrap_or(0);
    let sz = Sizing { overhead, max_entry };
    let mut counts = ladder_counts(g.counts, k);
    let mut done: BTreeSet<usize> = BTreeSet::new();
    let mut all: Vec<PathNlri>;
    let mut round = 0;
    while !counts.is_empty() && round < 2 {
        round += 1;
        let n_max = *counts.iter().max().unwrap();
        {
            all = match build_entries(f, g.shape, n_max, ap) {
                Ok(e) => e,
                Err(e) => {
                    l.machinery = Some(format!("group {g:?}: {e}"));
                    return;
                }
            };
            if !all_distinct(&all) {
                l.machinery = Some(format!("group {g:?}: generated entries are not distinct"));
                return;
            }
        }
        let mut k_sub: Option<usize> = None;
        counts.sort();
        for n in counts.iter().rev() {
            if !done.insert(*n) {
                continue;
            }
            let c = UpdCase { fi: g.fi, d: g.d, reach: g.reach, shape: g.shape, attr: spec, nh: g.nh, n: *n };
            // descending counts: the list for n is a prefix of the list for any larger n
            all.truncate(*n);
            let msg = make_msg(&c, std::mem::take(&mut all), &attrs_arc, nhc.nexthop);
            let o = eval_update(&c, &msg, &attrs, nhc.nexthop, &sz);
            all = take_entries(msg);
            if *n == n_max && o.frames > 1 {
                k_sub = o.first_entries;
            }
            l.take(&c, mkmsg::attrs_wire_len(&attrs), o, sub);
        }
        // the encoder's own split point, when it differs from what fits
        counts = match (k_sub, g.counts) {
            (Some(ks), CountSel::Ladder) if ks > 0 && Some(ks) != k => vec![ks.saturating_sub(1), ks, ks + 1, 2 * ks, 2 * ks + 1].into_iter().filter(|n| !done.contains(n)).collect(),
            (Some(ks), CountSel::Fill) if ks > 0 && Some(ks) != k => vec![ks, ks + 1].into_iter().filter(|n| !done.contains(n)).collect(),
            _ => vec![],
        };
        if !counts.is_empty() {
            l.tally.push(format!("{sub}: encoder splits at a different count than what fits"));
        }
    }
}

// ---------------------------------------------------------------------------
// OPEN
// ---------------------------------------------------------------------------

/// RFC 5492 §4 capability value, written from the RFCs (3392/4760, 8950 §3, 4724 §3,
/// 6793 §3, 7911 §4, 9494 §3.1, draft-walton-bgp-hostname-capability)
fn cap_wire(c: &Capability) -> (u8, Vec<u8>) {
    let fam3 = |f: &Family| vec![(f.afi() >> 8) as u8, f.afi() as u8, f.safi()];
    match c {
        Capability::MultiProtocol(f) => (1, vec![(f.afi() >> 8) as u8, f.afi() as u8, 0, f.safi()]),
        Capability::RouteRefresh => (2, vec![]),
        Capability::ExtendedNexthop(v) => (5, v.iter().flat_map(|(f, a)| vec![(f.afi() >> 8) as u8, f.afi() as u8, 0, f.safi(), (*a >> 8) as u8, *a as u8]).collect()),
        Capability::ExtendedMessage => (6, vec![]),
        Capability::GracefulRestart { flags, restart_time, families } => {
            let w = (*flags as u16) << 12 | *restart_time;
            let mut b = vec![(w >> 8) as u8, w as u8];
            for (f, fl) in families {
                b.extend(fam3(f));
                b.push(*fl);
            }
            (64, b)
        }
        Capability::FourOctetAsNumber(a) => (65, a.to_be_bytes().to_vec()),
        Capability::AddPath(v) => (69, v.iter().flat_map(|(f, m)| { let mut b = fam3(f); b.push(*m); b }).collect()),
        Capability::EnhancedRouteRefresh => (70, vec![]),
        Capability::LongLivedGracefulRestart(v) => (71, v.iter().flat_map(|(f, fl, t)| { let mut b = fam3(f); b.push(*fl); b.extend_from_slice(&t.to_be_bytes()[1..]); b }).collect()),
        Capability::Fqdn { hostname, domain } => {
            let mut b = vec![hostname.len() as u8];
            b.extend_from_slice(hostname.as_bytes());
            b.push(domain.len() as u8);
            b.extend_from_slice(domain.as_bytes());
            (73, b)
        }
        Capability::Unknown { code, bin } => (*code, bin.clone()),
    }
}

fn cap_kind_name(c: &Capability) -> &'static str {
    match c {
        Capability::MultiProtocol(_) => "multiprotocol",
        Capability::RouteRefresh => "route-refresh",
        Capability::ExtendedNexthop(_) => "extended-nexthop",
        Capability::ExtendedMessage => "extended-message",
        Capability::GracefulRestart { .. } => "graceful-restart",
        Capability::FourOctetAsNumber(_) => "as4",
        Capability::AddPath(_) => "add-path",
        Capability::EnhancedRouteRefresh => "enhanced-route-refresh",
        Capability::LongLivedGracefulRestart(_) => "llgr",
        Capability::Fqdn { .. } => "fqdn",
        Capability::Unknown { .. } => "unknown",
    }
}

fn mk_open(asn: u32, caps: Vec<Capability>) -> Message {
    Message::Open(Open { as_number: asn, holdtime: HoldTime::new(90).unwrap(), router_id: 0xc000_0201, capability: caps })
}

/// capability list the daemon derives from a peer configuration
/// (daemon/src/event/peer.rs build_local_cap): the first n families
fn daemon_caps(n: usize, ap: bool, gr: bool, llgr: bool, v6_transport: bool) -> Vec<Capability> {
    let fams: Vec<Family> = mkmsg::families().into_iter().take(n).collect();
    let mut v = Vec::new();
    if fams.is_empty() {
        v.push(Capability::MultiProtocol(if v6_transport { Family::IPV6 } else { Family::IPV4 }));
    } else {
        for f in &fams {
            v.push(Capability::MultiProtocol(*f));
        }
        if ap {
            v.push(Capability::AddPath(fams.iter().map(|f| (*f, 3u8)).collect()));
        }
        if v6_transport {
            let e: Vec<(Family, u16)> = fams.iter().filter(|f| f.afi() == Family::AFI_IP && **f != Family::IPV4_SRPOLICY).map(|f| (*f, Family::AFI_IP6)).collect();
            if !e.is_empty() {
                v.push(Capability::ExtendedNexthop(e));
            }
        }
    }
    if gr {
        v.push(Capability::GracefulRestart { flags: 0x4, restart_time: 120, families: fams.iter().map(|f| (*f, 0u8)).collect() });
    }
    if llgr {
        v.push(Capability::LongLivedGracefulRestart(fams.iter().map(|f| (*f, 0u8, 3600u32)).collect()));
    }
    v.push(Capability::FourOctetAsNumber(65001));
    v.push(Capability::ExtendedMessage);
    v
}

fn open_of_case(case: &str) -> Result<Message, String> {
    let p: Vec<&str> = case.split(':').collect();
    let num = |i: usize| -> Result<usize, String> { p.get(i).and_then(|s| s.parse().ok()).ok_or(format!("bad case {case}")) };
    match p.get(1).copied() {
        Some("set") => mkmsg::opens().get(num(2)?).map(|x| x.1.clone()).ok_or("index".into()),
        Some("over") => mkmsg::capability_sets_oversize().get(num(2)?).map(|x| mk_open(65001, x.1.clone())).ok_or("index".into()),
        Some("daemon") => Ok(mk_open(65001, daemon_caps(num(2)?, num(3)? != 0, num(4)? != 0, num(5)? != 0, num(6)? != 0))),
        Some("unk") => Ok(mk_open(65001, vec![Capability::Unknown { code: 200, bin: vec![7; num(2)?] }])),
        Some("fqdn") => Ok(mk_open(65001, vec![Capability::Fqdn { hostname: "h".repeat(num(2)?), domain: "d".repeat(num(3)?) }])),
        Some("fill") => {
            // MP(ipv4) + AS4 + two unknown capabilities: total capability bytes = <total>
            let total = num(2)?;
            if total < 16 {
                return Err("fill total < 16".into());
            }
            let a = (total - 16).min(200);
            let b = total - 16 - a;
            if b > 200 {
                return Err("fill total too large".into());
            }
            Ok(mk_open(65001, vec![
                Capability::MultiProtocol(Family::IPV4),
                Capability::FourOctetAsNumber(65001),
                Capability::Unknown { code: 200, bin: vec![7; a] },
                Capability::Unknown { code: 201, bin: vec![8; b] },
            ]))
        }
        _ => Err(format!("unknown case {case}")),
    }
}

fn check_open(case: &str, msg: &Message) -> Vec<Violation> {
    let Message::Open(o) = msg else { return vec![] };
    let want: Vec<(u8, Vec<u8>)> = o.capability.iter().map(cap_wire).collect();
    let total: usize = want.iter().map(|(_, b)| 2 + b.len()).sum();
    let single = o.capability.iter().zip(&want).find(|(_, (_, b))| b.len() > 255).map(|(c, _)| cap_kind_name(c));
    // RFC 5492 §4 / RFC 4271 §4.2: one capability parameter holds at most 255 bytes, all
    // parameters together (2 bytes of parameter header) at most 255
    let overflow: Option<String> = match single {
        Some(k) => Some(format!("single:{k}")),
        None if total > 253 => Some("sum".into()),
        None => None,
    };
    let ovf = |what: String| -> Vec<Violation> {
        let kind = overflow.clone().unwrap();
        vec![viol("open-capability-length-overflow", kind, format!("{} capabilities, {total} capability bytes: {what}", o.capability.len()), case)]
    };
    let mut tx = PeerCodec::new();
    let mut rx = PeerCodec::new();
    let (ret, buf) = match encode_raw(&mut tx, msg) {
        Enc::Panic(p) => {
            return if overflow.is_some() { ovf(format!("encode_to panics: {p}")) } else { vec![viol("encode-panics", "open".into(), p, case)] };
        }
        Enc::Ret(r, b) => (r, b),
    };
    if let Err(e) = ret {
        if overflow.is_none() {
            return vec![viol("encode-fails", "open".into(), format!("Err({e}) for an OPEN that fits ({total} capability bytes)"), case)];
        }
        if !buf.is_empty() {
            return ovf(format!("Err({e}) but {} byte(s) were left in the buffer (the daemon sends them): {}", buf.len(), trunc(&hex(&buf), 200)));
        }
        return vec![]; // accepted: clean refusal
    }
    let garbled = |what: String| -> Vec<Violation> {
        if overflow.is_some() { ovf(what) } else { vec![viol("length-field-inconsistent", "open-parameters".into(), what, case)] }
    };
    if single.is_some() {
        return ovf(format!("Ok although a capability value longer than 255 bytes cannot be expressed; bytes={}", trunc(&hex(&buf), 200)));
    }
    let spans = match split_tolerant(&buf) {
        Ok(s) if s.len() == 1 && !s[0].2 => s,
        Ok(s) => return garbled(format!("{} frames for one OPEN", s.len())),
        Err(e) => return garbled(format!("buffer cannot be split into frames: {e}; bytes={}", trunc(&hex(&buf), 200))),
    };
    let fb = &buf[..spans[0].1];
    let fr = match wire::read_frame(fb, 4096) {
        Ok(fr) => fr,
        Err(e) => return garbled(format!("{e}; bytes={}", trunc(&hex(fb), 200))),
    };
    let wire::Body::Open(w) = &fr.body else { return garbled("not an OPEN".into()) };
    let seen: Vec<(u8, Vec<u8>)> = w.caps.iter().map(|c| (c.code, c.value.of(fb).to_vec())).collect();
    if seen != want {
        return garbled(format!(
            "the capabilities on the wire differ from the submitted ones: {} of {} present, optional-parameter length byte {} ; bytes={}",
            seen.len(), want.len(), w.opt_len, trunc(&hex(fb), 200)
        ));
    }
    let asn16 = if o.as_number > 65535 { 23456 } else { o.as_number as u16 };
    if w.version != 4 || w.my_as != asn16 || w.hold != o.holdtime.seconds() || w.id != o.router_id {
        return vec![viol("value-differs", "open".into(), format!("fixed OPEN fields differ on the wire; bytes={}", trunc(&hex(fb), 120)), case)];
    }
    let views = match decode_stream(&mut rx, &buf) {
        Ok(v) => v,
        Err((_, e)) => {
            return if overflow.is_some() { ovf(format!("the OPEN is well-formed (RFC 5492 / RFC 9072) but the peer's decoder rejects it: {e}")) } else { vec![viol("decode-rejects", "open".into(), format!("{e}; bytes={}", trunc(&hex(fb), 200)), case)] };
        }
    };
    let expect = View::Open { asn: o.as_number, hold: o.holdtime.seconds(), id: o.router_id, caps: o.capability.clone() };
    if views.len() != 1 || views[0] != expect {
        return vec![viol("value-differs", "open".into(), format!("decoded {} instead of the submitted OPEN", trunc(&format!("{views:?}"), 300)), case)];
    }
    match reencode(Family::IPV4, &PairDesc::DEFAULT, &views[0]) {
        Ok(Some(y)) if y == views[0] => vec![],
        Ok(y) => vec![viol("fixed-point", "open".into(), format!("decode(encode(x)) = {} for x = {}", trunc(&format!("{y:?}"), 200), trunc(&format!("{:?}", views[0]), 200)), case)],
        Err(e) => vec![viol("fixed-point", "open".into(), e, case)],
    }
}

// ---------------------------------------------------------------------------
// NOTIFICATION / KEEPALIVE / ROUTE-REFRESH / End-of-RIB
// ---------------------------------------------------------------------------

fn xmsg_desc(x: &str) -> Result<PairDesc, String> {
    let mut d = PairDesc::DEFAULT;
    match x {
        "x" => {
            d.l_ext_msg = true;
            d.r_ext_msg = true;
        }
        "n" => {}
        _ => return Err("x|n expected".into()),
    }
    Ok(d)
}

/// One-frame message: encode, independent walk, size, decode, compare, fixed point.
fn check_simple(case: &str, kind: &str, f: Family, d: &PairDesc, msg: &Message) -> Vec<Violation> {
    let shape = kind.to_string();
    let (mut tx, mut rx) = mkmsg::pair_from_desc(f, d);
    let max = d.max_len();
    let (ret, buf) = match encode_raw(&mut tx, msg) {
        Enc::Panic(p) => return vec![viol("encode-panics", shape, p, case)],
        Enc::Ret(r, b) => (r, b),
    };
    let too_long = |len: usize, extra: &str| vec![viol("frame-too-long", shape.clone(), format!("the {kind} frame is {len} bytes long, the negotiated maximum is {max}{extra}"), case)];
    // a NOTIFICATION whose data cannot fit may be refused (Err, nothing written)
    let payload_fits = match msg {
        Message::Notification(n) => 21 + n.notification_data().len() <= max,
        _ => true,
    };
    if let Err(e) = &ret {
        if payload_fits || !buf.is_empty() {
            return vec![viol("encode-fails", shape, format!("Err({e}), {} byte(s) left in the buffer", buf.len()), case)];
        }
        return vec![];
    }
    let spans = match split_tolerant(&buf) {
        Ok(s) => s,
        Err(e) => {
            return if payload_fits { vec![viol("length-field-inconsistent", "header-length".into(), format!("{e}; bytes={}", trunc(&hex(&buf), 200)), case)] } else { too_long(buf.len(), " and its 16-bit length field does not describe it") };
        }
    };
    if spans.len() != 1 || ret.as_ref().ok() != Some(&1) {
        return vec![viol("frame-count", shape, format!("{} frame(s), returned {:?} for one message", spans.len(), ret), case)];
    }
    if spans[0].2 || spans[0].1 > max {
        return too_long(spans[0].1, if spans[0].2 { " (length field wrapped)" } else { "" });
    }
    let fb = &buf[..];
    let fr = match wire::read_frame(fb, 65535) {
        Ok(fr) => fr,
        Err(e) => return vec![viol("length-field-inconsistent", field_of(&e).into(), format!("{e}; bytes={}", trunc(&hex(fb), 200)), case)],
    };
    let views = match decode_stream(&mut rx, &buf) {
        Ok(v) if v.len() == 1 => v,
        Ok(v) => return vec![viol("frame-count", format!("{shape}:peer"), format!("the peer found {} messages", v.len()), case)],
        Err((_, e)) => return vec![viol("decode-rejects", shape, format!("{e}; bytes={}", trunc(&hex(fb), 200)), case)],
    };
    let same = match (msg, &views[0], &fr.body) {
        (Message::Notification(a), View::Notification(b), wire::Body::Notification { code, subcode, data }) if payload_fits => {
            a == b && *code == a.notification_code() && *subcode == a.notification_subcode() && data.of(fb) == a.notification_data()
        }
        // data that cannot fit (echo of a maximal received frame): a prefix of it is accepted
        (Message::Notification(a), View::Notification(b), wire::Body::Notification { code, subcode, data }) => {
            *code == a.notification_code() && *subcode == a.notification_subcode() && a.notification_data().starts_with(data.of(fb))
                && b.notification_code() == *code && b.notification_subcode() == *subcode && b.notification_data() == data.of(fb)
        }
        (Message::Keepalive, View::Keepalive, wire::Body::Keepalive) => true,
        (Message::RouteRefresh { family: a }, View::RouteRefresh(b), wire::Body::RouteRefresh { afi, subtype, safi }) => a == b && *afi == a.afi() && *safi == a.safi() && *subtype == 0,
        (Message::Update(Update::EndOfRib(a)), View::Eor(b), wire::Body::Update(u)) => {
            a == b && u.withdrawn.len == 0 && u.nlri.len == 0 && if *a == Family::IPV4 { u.attr_block.len == 0 } else { u.mp_unreach.as_ref().is_some_and(|m| (m.afi, m.safi, m.nlri.len) == (a.afi(), a.safi(), 0)) && u.attrs.len() == 1 }
        }
        _ => false,
    };
    if !same {
        return vec![viol("value-differs", shape, format!("decoded {} / independent wire view differ from the submitted message; bytes={}", trunc(&format!("{:?}", views[0]), 200), trunc(&hex(fb), 200)), case)];
    }
    match reencode(f, d, &views[0]) {
        Ok(Some(y)) if y == views[0] => vec![],
        Ok(y) => vec![viol("fixed-point", shape, format!("decode(encode(x)) = {} for x = {}", trunc(&format!("{y:?}"), 200), trunc(&format!("{:?}", views[0]), 200)), case)],
        Err(e) => vec![viol("fixed-point", shape, e, case)],
    }
}

// ---------------------------------------------------------------------------
// RFC 6793: a NEW speaker behind an OLD one
// ---------------------------------------------------------------------------

const OLD_AS: u16 = 64999;

/// What an OLD (2-byte) eBGP speaker does to the attributes when it propagates the route
/// (RFC 4271 §5.1.2 prepending in 2-byte form; RFC 6793 §4.1: AS4_PATH / AS4_AGGREGATOR are
/// unknown optional transitive attributes to it: passed on with the Partial bit).
fn old_speaker_forward(frame: &[u8]) -> Result<Vec<u8>, String> {
    let fr = wire::read_frame(frame, 65535)?;
    let wire::Body::Update(u) = &fr.body else { return Err("not an UPDATE".into()) };
    let mut block: Vec<u8> = Vec::new();
    for a in &u.attrs {
        let mut body = a.value.of(frame).to_vec();
        let mut flags = a.flags & !0x10;
        if a.code == 2 {
            if body.len() >= 2 && body[0] == 2 && body[1] < 255 {
                body[1] += 1;
                body.splice(2..2, OLD_AS.to_be_bytes());
            } else {
                let mut nb = vec![2u8, 1];
                nb.extend_from_slice(&OLD_AS.to_be_bytes());
                nb.extend_from_slice(&body);
                body = nb;
            }
        } else if a.code == 17 || a.code == 18 {
            flags |= 0x20;
        }
        if body.len() > 255 {
            block.push(flags | 0x10);
            block.push(a.code);
            block.extend_from_slice(&(body.len() as u16).to_be_bytes());
        } else {
            block.push(flags);
            block.push(a.code);
            block.push(body.len() as u8);
        }
        block.extend_from_slice(&body);
    }
    let nlri = u.nlri.of(frame);
    let total = 19 + 2 + 2 + block.len() + nlri.len();
    if total > 65535 || block.len() > 65535 {
        return Err("forwarded frame too long".into());
    }
    let mut out = vec![0xffu8; 16];
    out.extend_from_slice(&(total as u16).to_be_bytes());
    out.push(2);
    out.extend_from_slice(&[0, 0]);
    out.extend_from_slice(&(block.len() as u16).to_be_bytes());
    out.extend_from_slice(&block);
    out.extend_from_slice(nlri);
    Ok(out)
}

fn check_as4hop(case: &str, fi: usize, set: usize) -> Result<Vec<Violation>, String> {
    let f = fam(fi);
    let (name, attrs) = attribute_sets().get(set).cloned().ok_or("attribute set index")?;
    let kind = name.split('#').next().unwrap_or("").to_string();
    let path = attrs.iter().find(|a| a.code() == Attribute::AS_PATH && !a.is_opaque()).ok_or("no AS_PATH")?;
    let segs = as_path_segments(path.binary().unwrap());
    if segs.iter().any(|(t, _)| is_confed(*t)) {
        return Ok(vec![]); // an external OLD speaker never sees confederation segments
    }
    // sender: NEW, its peer OLD; final receiver: NEW, its peer OLD
    let to_old = PairDesc { r_as4: false, ..PairDesc::DEFAULT };
    let from_old = PairDesc { l_as4: false, ..PairDesc::DEFAULT };
    let (mut tx, _) = mkmsg::pair_from_desc(f, &to_old);
    let (_, mut rx) = mkmsg::pair_from_desc(f, &from_old);
    let e = build_entries(f, Shape::Small, 1, false)?;
    let nh = mkmsg::default_nexthop(f);
    let msg = mkmsg::reach(f, e.clone(), nh, &attrs);
    let frames = match catch(|| mkmsg::encode(&mut tx, &msg)) {
        Ok(Ok(fr)) if fr.len() == 1 => fr,
        other => return Ok(vec![viol("as4-reconcile", format!("{kind}:encode"), format!("sender did not produce one frame: {:?}", other.map(|r| r.map(|f| f.len()))), case)]),
    };
    let fwd = old_speaker_forward(&frames[0])?;
    let views = match decode_stream(&mut rx, &fwd) {
        Ok(v) => v,
        Err((_, e)) => return Ok(vec![viol("as4-reconcile", format!("{kind}:decode-rejects"), format!("the NEW speaker rejects what the OLD speaker forwarded: {e}; bytes={}", trunc(&hex(&fwd), 300)), case)]),
    };
    let Some(View::Routes { reach: Some((_, got_e, _)), attrs: got, errs, .. }) = views.first() else {
        return Ok(vec![viol("as4-reconcile", format!("{kind}:no-route"), format!("decoded {}", trunc(&format!("{views:?}"), 300)), case)]);
    };
    // expected: [OLD_AS] prepended to the original path (RFC 6793 §4.2.3: AS_PATH has one
    // hop more than AS4_PATH, that leading hop is taken from AS_PATH)
    let mut want_segs = segs.clone();
    match want_segs.first_mut() {
        Some((2, v)) if v.len() < 255 => v.insert(0, OLD_AS as u32),
        _ => want_segs.insert(0, (2, vec![OLD_AS as u32])),
    }
    let (mut want, _) = expected_attrs(&attrs, true);
    for a in want.iter_mut() {
        if a.code() == Attribute::AS_PATH && !a.is_opaque() {
            *a = mkmsg::as_path(&want_segs);
        }
    }
    let mut vs = Vec::new();
    if *errs > 0 || got_e != &e {
        vs.push(viol("as4-reconcile", format!("{kind}:route"), format!("{errs} attribute errors, entries {got_e:?}"), case));
    }
    // the path is compared as a sequence of hops: adjacent AS_SEQUENCE segments are one sequence
    // however they are cut (the reconstruction prepends whole segments, RFC 6793 §4.2.3)
    let flat = |v: &[Attribute]| -> Option<Vec<(u8, Vec<u32>)>> {
        let a = v.iter().find(|a| a.code() == Attribute::AS_PATH && !a.is_opaque())?;
        let mut out: Vec<(u8, Vec<u32>)> = Vec::new();
        for (t, asns) in as_path_segments(a.binary()?) {
            match out.last_mut() {
                Some((2, l)) if t == 2 => l.extend(asns),
                _ => out.push((t, asns)),
            }
        }
        Some(out)
    };
    if sorted_keys(got, true) != sorted_keys(&want, true) || flat(got) != flat(&want) {
        vs.push(viol("as4-reconcile", format!("{kind}:attrs"), format!("behind an OLD speaker (AS {OLD_AS}) expected {}, the NEW speaker holds {}", trunc(&format!("{want:?}"), 400), trunc(&format!("{got:?}"), 400)), case));
    }
    Ok(vs)
}

// ---------------------------------------------------------------------------
// replay / single case evaluation
// ---------------------------------------------------------------------------

fn eval_other(case: &str) -> Result<Vec<Violation>, String> {
    let p: Vec<&str> = case.split(':').collect();
    let num = |i: usize| -> Result<usize, String> { p.get(i).and_then(|s| s.parse().ok()).ok_or(format!("bad case {case}")) };
    match p[0] {
        "open" => Ok(check_open(case, &open_of_case(case)?)),
        "notif" => {
            let d = xmsg_desc(p.get(2).copied().unwrap_or(""))?;
            Ok(check_simple(case, "notification", Family::IPV4, &d, &mkmsg::notifications().get(num(1)?).ok_or("index")?.1))
        }
        "notifbig" => {
            let d = xmsg_desc(p.get(2).copied().unwrap_or(""))?;
            // the daemon echoes the offending message: Notification::RouteRefreshInvalidLength { data: whole frame }
            let m = Message::Notification(Notification::RouteRefreshInvalidLength { data: vec![0x5a; num(1)?] });
            Ok(check_simple(case, "notification", Family::IPV4, &d, &m))
        }
        "rr" => {
            let d = xmsg_desc(p.get(2).copied().unwrap_or(""))?;
            let (_, m) = mkmsg::route_refreshes().get(num(1)?).cloned().ok_or("index")?;
            let Message::RouteRefresh { family } = m else { return Err("rr".into()) };
            Ok(check_simple(case, "route-refresh", family, &d, &m))
        }
        "keepalive" => Ok(check_simple(case, "keepalive", Family::IPV4, &xmsg_desc(p.get(1).copied().unwrap_or(""))?, &mkmsg::keepalive())),
        "eor" => {
            let fi = num(1)?;
            let d = PairDesc::parse(p.get(2).ok_or("pair")?).ok_or("pair name")?;
            let f = *mkmsg::families().get(fi).ok_or("family index")?;
            Ok(check_simple(case, &format!("eor:{}", mkmsg::family_name(f)), f, &d, &Message::eor(f)))
        }
        "as4hop" => check_as4hop(case, num(1)?, num(2)?),
        _ => Err(format!("unknown case {case}")),
    }
}

// ---------------------------------------------------------------------------
// enumeration
// ---------------------------------------------------------------------------

enum Work {
    Group(Group),
    Upd(UpdCase),
    Other(String),
}

fn quick_descs(f: Family) -> Vec<PairDesc> {
    mkmsg::codec_pairs_quick(f).into_iter().filter_map(|(n, _, _)| PairDesc::parse(&n)).collect()
}

fn all_descs(f: Family) -> Vec<PairDesc> {
    mkmsg::codec_pairs_desc(f).into_iter().map(|(d, _, _)| d).collect()
}

struct Sub {
    name: &'static str,
    rule: String,
    work: Vec<Work>,
}

fn sub_values(thorough: bool) -> Sub {
    let mut w = Vec::new();
    let fams = mkmsg::families();
    let dflt = PairDesc::DEFAULT;
    let blk = AttrSpec::Block(13);
    for (fi, f) in fams.iter().enumerate() {
        for reach in [true, false] {
            for i in 0..mkmsg::nlris_named(*f).len() {
                w.push(Work::Upd(UpdCase { fi, d: dflt, reach, shape: Shape::Named(i), attr: blk, nh: 0, n: 1 }));
            }
            for i in 0..mkmsg::nlris_code_only(*f).len() {
                w.push(Work::Upd(UpdCase { fi, d: dflt, reach, shape: Shape::CodeOnly(i), attr: blk, nh: 0, n: 1 }));
            }
            w.push(Work::Upd(UpdCase { fi, d: dflt, reach, shape: Shape::AllNamed, attr: blk, nh: 0, n: named_nonstack(*f).len() }));
        }
        // every RFC-valid next hop of the family under every negotiated outcome that allows it
        for d in quick_descs(*f) {
            for (nh, c) in mkmsg::nexthops(*f).iter().enumerate() {
                if c.needs_ext_nh && !d.ext_nh() {
                    continue;
                }
                for shape in [Shape::Small, Shape::Big] {
                    w.push(Work::Upd(UpdCase { fi, d, reach: true, shape, attr: blk, nh, n: 2 }));
                }
            }
            w.push(Work::Other(format!("eor:{fi}:{}", d.name())));
        }
    }
    // every attribute kind / value: all 16 outcomes; quick on 4 families, thorough on all
    let attr_fams: Vec<usize> = if thorough { (0..fams.len()).collect() } else { vec![0, 1, 7, 8] };
    for fi in attr_fams {
        for d in quick_descs(fams[fi]) {
            for i in 0..attribute_sets().len() {
                w.push(Work::Upd(UpdCase { fi, d, reach: true, shape: Shape::Big, attr: AttrSpec::Set(i), nh: 0, n: 2 }));
            }
        }
    }
    for i in 0..attribute_sets().len() {
        for fi in [0usize, 1, 7] {
            w.push(Work::Other(format!("as4hop:{fi}:{i}")));
        }
    }
    for fi in [0usize, 1, 7] {
        for d in quick_descs(fams[fi]) {
            for i in 0..extra_sets().len() {
                w.push(Work::Upd(UpdCase { fi, d, reach: true, shape: Shape::Small, attr: AttrSpec::Extra(i), nh: 0, n: 1 }));
            }
        }
    }
    Sub {
        name: "values",
        rule: "every named NLRI value x {reach, unreach}; every RFC-valid next hop x 16 negotiated outcomes x {small, big} NLRI; every attribute set (mkmsg's and 8 further AS_PATH / AGGREGATOR shapes: 4-byte ASNs next to confederation segments, sets, aggregator) x 16 outcomes (2-byte-AS sessions checked against the RFC 6793 model); End-of-RIB x 16 outcomes; every attribute set forwarded by a modelled OLD speaker to a NEW one".into(),
        work: w,
    }
}

fn ladder_shapes(f: Family, d: &PairDesc) -> Vec<Shape> {
    let mut v = vec![Shape::Small, Shape::Big];
    let mx = mkmsg::nlri_wire_len(&mkmsg::nlris(f, NlriSize::Max)[0]);
    if mx != mkmsg::nlri_wire_len(&mkmsg::nlri_nth(f, 1, true)) {
        v.push(Shape::MaxThenBig);
    }
    if d.tx_addpath() {
        v.push(Shape::Dup);
    }
    v
}

fn sub_ladder(fams: &[usize], sizes: &[usize], sizes_xmsg: &[usize]) -> Sub {
    let mut w = Vec::new();
    for &fi in fams {
        let f = fam(fi);
        for d in quick_descs(f) {
            for shape in ladder_shapes(f, &d) {
                for &a in if d.ext_msg() { sizes_xmsg } else { sizes } {
                    w.push(Work::Group(Group { fi, d, reach: true, shape, attr: GroupAttr::Fixed(AttrSpec::Block(a)), nh: 0, counts: CountSel::Ladder }));
                }
                w.push(Work::Group(Group { fi, d, reach: false, shape, attr: GroupAttr::Fixed(AttrSpec::Block(13)), nh: 0, counts: CountSel::Ladder }));
            }
        }
    }
    Sub {
        name: "ladder",
        rule: format!("families {fams:?} x 16 negotiated outcomes x shapes {{small, big, largest named + big, duplicate prefixes under add-path}} x (reach with attribute blocks of {sizes:?} bytes ({sizes_xmsg:?} with extended messages) | unreach) x entry counts 0,1,2,k-1,k,k+1,2k,3k+1 (k = entries that fit one frame, computed from a one-entry probe; plus the encoder's own split point when it differs)"),
        work: w,
    }
}

fn sub_band(fams: &[usize], step: usize) -> Sub {
    let mut w = Vec::new();
    for &fi in fams {
        let f = fam(fi);
        for d in quick_descs(f) {
            for shape in [Shape::Small, Shape::Big] {
                for delta in (BAND_LO..=BAND_HI).rev().step_by(step) {
                    w.push(Work::Group(Group { fi, d, reach: true, shape, attr: GroupAttr::Band(delta), nh: 0, counts: CountSel::Ladder }));
                }
            }
        }
    }
    Sub {
        name: "attr-band",
        rule: format!("families {fams:?} x 16 outcomes x {{small, big}} x attribute block sized so that overhead + one entry = limit + delta for delta in {BAND_HI}..={BAND_LO} step {step} x the entry-count ladder"),
        work: w,
    }
}

fn sub_align(fams: &[usize], xmsg_too: bool) -> Sub {
    let mut w = Vec::new();
    for &fi in fams {
        let f = fam(fi);
        for d in quick_descs(f) {
            if d.ext_msg() && !xmsg_too {
                continue;
            }
            let b = mkmsg::nlri_wire_len(&mkmsg::nlri_nth(f, 1, true)) + if d.tx_addpath() { 4 } else { 0 };
            for reach in [true, false] {
                for j in 0..b.min(128) {
                    w.push(Work::Group(Group { fi, d, reach, shape: Shape::Mix(j), attr: GroupAttr::Fixed(AttrSpec::Block(13)), nh: 0, counts: CountSel::Fill }));
                    w.push(Work::Group(Group { fi, d, reach, shape: Shape::Alt(j), attr: GroupAttr::Fixed(AttrSpec::Block(13)), nh: 0, counts: CountSel::Fill }));
                }
            }
        }
    }
    Sub {
        name: "align",
        rule: format!("families {fams:?} x {} outcomes x {{reach, unreach}} x j small entries followed by big ones, and j small entries followed by alternating big / small ones, for j in 0..min(big size, 128) (every alignment of the last entry against the frame limit) x counts k,k+1,k+2", if xmsg_too { "16" } else { "the 8 non-extended-message" }),
        work: w,
    }
}

fn sub_pairs(fams: &[usize]) -> Sub {
    let mut w = Vec::new();
    for &fi in fams {
        let f = fam(fi);
        for d in all_descs(f) {
            for shape in [Shape::Small, Shape::Big] {
                for reach in [true, false] {
                    w.push(Work::Group(Group { fi, d, reach, shape, attr: GroupAttr::Fixed(AttrSpec::Block(13)), nh: 0, counts: CountSel::Short }));
                }
            }
            for (nh, c) in mkmsg::nexthops(f).iter().enumerate().skip(1) {
                if c.needs_ext_nh && !d.ext_nh() {
                    continue;
                }
                w.push(Work::Upd(UpdCase { fi, d, reach: true, shape: Shape::Big, attr: AttrSpec::Block(13), nh, n: 2 }));
            }
            // a 4-byte AS path and aggregator under every pairing
            for (i, (name, _)) in attribute_sets().iter().enumerate() {
                if name == "as_path#3" || name == "aggregator#1" {
                    w.push(Work::Upd(UpdCase { fi, d, reach: true, shape: Shape::Small, attr: AttrSpec::Set(i), nh: 0, n: 1 }));
                }
            }
        }
    }
    Sub {
        name: "pairs-1024",
        rule: format!("families {fams:?} x all 1024 (local, remote) capability pairs x {{small, big}} x {{reach, unreach}} x counts 1,2,k,k+1; every further valid next hop; a 4-byte AS_PATH and AGGREGATOR"),
        work: w,
    }
}

fn sub_open() -> Sub {
    let mut w: Vec<String> = Vec::new();
    for i in 0..mkmsg::opens().len() {
        w.push(format!("open:set:{i}"));
    }
    for i in 0..mkmsg::capability_sets_oversize().len() {
        w.push(format!("open:over:{i}"));
    }
    for n in 0..=mkmsg::families().len() {
        for bits in 0..16u32 {
            w.push(format!("open:daemon:{n}:{}:{}:{}:{}", bits & 1, bits >> 1 & 1, bits >> 2 & 1, bits >> 3 & 1));
        }
    }
    for total in 16..=20 {
        w.push(format!("open:fill:{total}"));
    }
    for total in 230..=300 {
        w.push(format!("open:fill:{total}"));
    }
    for len in (0..=4).chain(249..=258) {
        w.push(format!("open:unk:{len}"));
    }
    for (h, d) in [(0, 0), (1, 0), (64, 64), (126, 126), (126, 127), (127, 127), (200, 53), (200, 54), (255, 0), (255, 255)] {
        w.push(format!("open:fqdn:{h}:{d}"));
    }
    Sub {
        name: "open",
        rule: "every mkmsg OPEN (each capability kind, duplicates, hold / id / AS boundary values); the daemon's capability list for its first n families, n = 0..19, x add-path x GR x LLGR x IPv6 transport (extended next hop); capability bytes 16..20 and every total 230..300; one unknown capability of 0..4 and 249..258 bytes; FQDN length boundaries".into(),
        work: w.into_iter().map(Work::Other).collect(),
    }
}

fn sub_simple() -> Sub {
    let mut w: Vec<String> = Vec::new();
    for x in ["n", "x"] {
        for i in 0..mkmsg::notifications().len() {
            w.push(format!("notif:{i}:{x}"));
        }
        for i in 0..mkmsg::route_refreshes().len() {
            w.push(format!("rr:{i}:{x}"));
        }
        w.push(format!("keepalive:{x}"));
        let max: usize = if x == "x" { 65535 } else { 4096 };
        // data of a NOTIFICATION that echoes a received frame: up to a whole maximal frame
        for len in [max - 23, max - 22, max - 21, max - 20, max - 19, max - 1, max] {
            w.push(format!("notifbig:{len}:{x}"));
        }
    }
    Sub {
        name: "simple",
        rule: "every NOTIFICATION variant, ROUTE-REFRESH for every family, KEEPALIVE, with and without extended messages; NOTIFICATION data length (echo of a received frame) around limit-21 and up to a maximal frame".into(),
        work: w.into_iter().map(Work::Other).collect(),
    }
}

fn run_sub(s: &Sub, rep: &mut Report, acc: &Mutex<Acc>) {
    let t0 = std::time::Instant::now();
    let before = {
        let a = acc.lock().unwrap();
        (a.evals, a.wire.len(), a.viols.len())
    };
    par_range(s.work.len() as u64, rep, |i, _| {
        let mut l = Local::default();
        match &s.work[i as usize] {
            Work::Group(g) => run_group(g, s.name, &mut l),
            Work::Upd(c) => match eval_upd_case(c) {
                Ok(o) => {
                    let al = c.attr.attrs().map(|a| mkmsg::attrs_wire_len(&a)).unwrap_or(0);
                    l.take(c, al, o, s.name)
                }
                Err(e) => l.machinery = Some(format!("{}: {e}", c.name())),
            },
            Work::Other(case) => match eval_other(case) {
                Ok(vs) => {
                    l.evals += 1;
                    l.tally.push(format!("{}: outcome {}", s.name, if vs.is_empty() { "ok" } else { "violation" }));
                    l.hashes.push(hash64(case.as_bytes()));
                    l.sample = Some(case.clone());
                    for v in vs {
                        let w0 = if case.starts_with("open:daemon") { 0 } else if case.starts_with("open:") { 1 } else { 0 };
                        l.viols.push(((w0, 0, case.len()), v));
                    }
                }
                Err(e) => l.machinery = Some(format!("{case}: {e}")),
            },
        }
        let mut a = acc.lock().unwrap();
        a.evals += l.evals;
        for (w, v) in l.viols {
            a.add_viols(w, vec![v]);
        }
        a.wire.extend(l.hashes);
        for t in l.tally {
            a.tally(&t);
        }
        if let Some(sm) = l.sample {
            if i % 997 == 0 && a.samples.len() < 12 {
                a.samples.push(sm);
            }
        }
        if a.machinery.is_none() {
            a.machinery = l.machinery;
        }
    });
    let a = acc.lock().unwrap();
    rep.notes.push(format!(
        "{}: {} work items, {} cases evaluated, {} new distinct wire encodings, {} new violation signatures, {:.1}s -- {}",
        s.name, s.work.len(), a.evals - before.0, a.wire.len() - before.1, a.viols.len() - before.2, t0.elapsed().as_secs_f64(), s.rule
    ));
}

pub fn run(replay: Option<&str>) -> Report {
    let mut rep = Report::new("C04", "hx-c04");
    rep.rule = "a case = one Message (OPEN / UPDATE reach, unreach, End-of-RIB / NOTIFICATION / KEEPALIVE / ROUTE-REFRESH) x one (local, remote) capability pair: \
        encode with negotiate(local, remote).encode_to, independent frame / attribute / NLRI walk of the bytes left in the buffer, decode with \
        negotiate(remote, local).try_parse, compare with the submitted value, re-encode every decoded value; UPDATE cases are enumerated per \
        (family, pair, op, NLRI shape, attribute block) over an entry-count ladder around the measured frame capacity and over an attribute-size band \
        around 'one entry still fits'; distinct = distinct byte strings produced by the encoder (cases that negotiate the same outcome collapse)".to_string();
    if let Some(case) = replay {
        let r = match UpdCase::parse(case) {
            Some(c) => eval_upd_case(&c).map(|o| {
                eprintln!("replay: {} frame(s), largest {} bytes (limit {}), first frame carries {:?} entries, outcome {}", o.frames, o.max_frame, c.d.max_len(), o.first_entries, o.class);
                o.viols
            }),
            None => eval_other(case),
        };
        match r {
            Ok(vs) => {
                for v in &vs {
                    eprintln!("replay: {} :: {}", v.sig, v.what);
                }
                if vs.is_empty() {
                    eprintln!("replay: case {case} satisfies every clause");
                }
                rep.evaluations = 1;
                rep.violations_from(vs);
            }
            Err(e) => rep.machinery_error = Some(e),
        }
        return rep;
    }
    if let Err(e) = selfcheck(&mut rep) {
        rep.machinery_error = Some(format!("generator self-check: {e}"));
        return rep;
    }
    if let Err(e) = wire_selftest(&mut rep) {
        rep.machinery_error = Some(format!("wire self-test: {e}"));
        return rep;
    }
    let thorough = rep.thorough();
    let nf = mkmsg::families().len();
    let all: Vec<usize> = (0..nf).collect();
    let mut subs = vec![sub_values(thorough), sub_open(), sub_simple()];
    if thorough {
        subs.push(sub_ladder(&all, &[13, 40, 255, 256, 1000, 4000], &[13, 40, 255, 256, 1000, 4000, 65000]));
        subs.push(sub_band(&all, 1));
        subs.push(sub_align(&all, true));
        // ipv4 (legacy + RFC 8950), ipv6, ipv6-vpn, l2vpn-evpn
        subs.push(sub_pairs(&[0, 1, 7, 8]));
    } else {
        subs.push(sub_ladder(&all, &[13, 255, 256], &[13]));
        subs.push(sub_band(&all, 3));
        subs.push(sub_align(&all, false));
    }
    let acc = Mutex::new(Acc::default());
    for s in &subs {
        run_sub(s, &mut rep, &acc);
    }
    let acc = acc.into_inner().unwrap();
    rep.evaluations = acc.evals;
    rep.distinct_nontrivial = acc.wire.len() as u64;
    rep.samples = acc.samples;
    for (k, n) in &acc.tally {
        rep.notes.push(format!("tally: {k}: {n}"));
    }
    for (_, (_, v, n)) in acc.viols {
        rep.violations.insert(v.sig.clone(), (v, n));
    }
    rep.machinery_error = acc.machinery;
    rep.notes.push("assume: the NLRI content of flowspec / BGP-LS / MUP / SR-policy is read with the repository's own decoder under the peer's codec (no independent walker for these families); framing, lengths and attribute structure are read independently for all families".into());
    rep.notes.push("assume: an Err from encode_to is accepted only for an input that cannot be encoded and only if the buffer holds nothing but complete well-formed frames; Reach / Unreach with zero entries are checked for framing only".into());
    rep.notes.push("assume: 1024 capability pairs are run on 4 families (thorough); elsewhere the 32 pairs that reach every negotiated outcome (2-byte AS, extended message, extended next hop, add-path none / both / send-only / receive-only)".into());
    rep.exhaustive = true;
    rep
}
