// C06 (change stream reproduces the RIB) and C15 (counters match the RIB):
// explicit-state BFS over the real rustybgp_table::Table mutator API.
//
// The same model serves both properties; `oracle` selects which invariant
// set is evaluated (so that each check is self-contained).

use crate::universe::*;
use crate::vx::bfs::{self, BfsCfg, Model};
use crate::vx::report::{Report, Violation};
use rustybgp_packet::bgp::Nexthop;
use rustybgp_packet::{Attribute, Family, Nlri};
use rustybgp_table::{InsertResult, NlriChange, PeerRole, Source, Table, TableQuery};
use std::collections::{BTreeMap, BTreeSet};
use std::net::IpAddr;
use std::sync::atomic::{AtomicU64, Ordering};
use std::sync::Arc;

#[derive(Clone, Debug, PartialEq)]
pub enum Op {
    /// insert by the *current session* of peer (0 = A, 1 = B, 2 = local)
    Insert { peer: u8, pfx: u8, rid: u32, attr: u8, nh: u8, filtered: bool, fresh: bool },
    Remove { peer: u8, pfx: u8, rid: u32 },
    /// session of peer ends without GR: Table::drop for the family, next session = new Source
    Drop { peer: u8 },
    /// session of peer ends with GR: Table::restale, next session = new Source
    Restale { peer: u8 },
    DropStale { peer: u8 },
    /// LLGR period starts (daemon's mark_llgr_stale): restale_llgr then drop_no_llgr
    MarkLlgr { peer: u8 },
    RestaleLlgrOnly { peer: u8 },
    DropNoLlgrOnly { peer: u8 },
    DropLlgrStale { peer: u8 },
    NhValid { nh: u8, up: bool },
    /// a new session of the peer reaches Established (new Source, new limit counter)
    Reconnect { peer: u8 },
    StartDeferral,
    EndDeferral,
}

fn op_str(o: &Op) -> String {
    let p = |x: &u8| ["A", "B", "L"][*x as usize];
    match o {
        Op::Insert { peer, pfx, rid, attr, nh, filtered, fresh } => format!(
            "insert({},P{},id{},{}{},N{}{})",
            p(peer),
            pfx + 1,
            rid,
            ATTR_NAMES[*attr as usize],
            if *fresh { "~" } else { "" },
            nh + 1,
            if *filtered { ",filtered" } else { "" }
        ),
        Op::Remove { peer, pfx, rid } => format!("remove({},P{},id{})", p(peer), pfx + 1, rid),
        Op::Drop { peer } => format!("drop({})", p(peer)),
        Op::Restale { peer } => format!("restale({})", p(peer)),
        Op::DropStale { peer } => format!("drop_stale({})", p(peer)),
        Op::MarkLlgr { peer } => format!("mark_llgr({})", p(peer)),
        Op::RestaleLlgrOnly { peer } => format!("restale_llgr({})", p(peer)),
        Op::DropNoLlgrOnly { peer } => format!("drop_no_llgr({})", p(peer)),
        Op::DropLlgrStale { peer } => format!("drop_llgr_stale({})", p(peer)),
        Op::NhValid { nh, up } => format!("nexthop(N{},{})", nh + 1, if *up { "up" } else { "down" }),
        Op::Reconnect { peer } => format!("reconnect({})", p(peer)),
        Op::StartDeferral => "start_deferral".into(),
        Op::EndDeferral => "end_deferral".into(),
    }
}

const ATTR_NAMES: [&str; 5] = ["X", "Y", "N", "S", "Z"];

fn attr_content(i: u8) -> Vec<Attribute> {
    match i {
        // X: better (LOCAL_PREF 200)
        0 => vec![origin(0), seq(1), local_pref(200)],
        // Y: worse
        1 => vec![origin(0), seq(2), local_pref(100)],
        // N: like Y but carries NO_LLGR
        2 => vec![origin(0), seq(2), local_pref(100), communities(&[NO_LLGR])],
        // S: like Y but carries LLGR_STALE (propagated from another helper)
        3 => vec![origin(0), seq(2), local_pref(100), communities(&[LLGR_STALE])],
        // Z: ties with X on every step before router-id
        _ => vec![origin(0), seq(1), local_pref(200), med(5)],
    }
}

const FAMILY: Family = Family::IPV4;

fn prefix(i: u8) -> Nlri {
    v4(10, 1 + i, 0, 0, 24)
}

/// What a consumer holds of a path: id, source, attributes, next hop and whether the source was
/// LLGR-stale when it was told (the exporter adds LLGR_STALE from that flag, so it is part of
/// the exportable state: a path that turns LLGR-stale while it stays best must be re-notified).
type Snap = (u32, usize, Vec<Attribute>, Option<Nexthop>, bool);

fn snap(p: &rustybgp_table::Path) -> Snap {
    (p.local_path_id, Arc::as_ptr(&p.source) as usize, p.attr.as_ref().clone(), p.nexthop, p.source.is_llgr_stale())
}

pub struct Sys {
    t: Table,
    sessions: [Vec<Arc<Source>>; 2],
    counters: [Vec<Arc<AtomicU64>>; 2],
    local: Arc<Source>,
    /// whether the peer currently has an established session
    up: [bool; 2],
    pool: Vec<Arc<Vec<Attribute>>>,
    invalid: BTreeSet<u8>,
    deferring: bool,
    ever_deferred: bool,
    best_view: BTreeMap<String, Snap>,
    ap_view: BTreeMap<String, Vec<Snap>>,
    ids: BTreeMap<String, u32>,
    /// destination id the table hands to the next new prefix (probed after every step): makes the
    /// hidden state of the id allocator part of the canonical state
    next_id: Option<u32>,
    probe_src: Arc<Source>,
    /// oracle clauses currently false: a clause is reported only on the step that breaks it
    broken: BTreeSet<String>,
}

pub struct TableModel {
    pub name: String,
    pub ops: Vec<Op>,
    pub oracle: &'static str,
    /// prefix limit for peer A's sessions (None = no limit)
    pub limit: Option<u32>,
    pub max_sessions: usize,
}

impl Sys {
    fn cur(&self, peer: u8) -> Arc<Source> {
        match peer {
            0 | 1 => self.sessions[peer as usize].last().unwrap().clone(),
            _ => self.local.clone(),
        }
    }
    fn cur_counter(&self, peer: u8) -> Option<Arc<AtomicU64>> {
        match peer {
            0 | 1 => Some(self.counters[peer as usize].last().unwrap().clone()),
            _ => None,
        }
    }
    fn addr(&self, peer: u8) -> IpAddr {
        self.cur(peer).remote_addr
    }
    fn new_session(&mut self, peer: u8) {
        let s = mk_source(peer);
        self.sessions[peer as usize].push(s);
        self.counters[peer as usize].push(Arc::new(AtomicU64::new(0)));
        self.up[peer as usize] = true;
    }
    fn is_up(&self, peer: u8) -> bool {
        peer >= 2 || self.up[peer as usize]
    }
    fn session_end(&mut self, peer: u8) {
        self.up[peer as usize] = false;
    }
}

fn mk_source(peer: u8) -> Arc<Source> {
    match peer {
        0 => source(1, PeerRole::Ebgp, 0x0a000001),
        _ => source(2, PeerRole::Ibgp, 0x0a000002),
    }
}

impl TableModel {
    fn apply_changes(&self, sys: &mut Sys, changes: &[NlriChange], out: &mut Vec<(String, String)>, opname: &str) {
        for c in changes {
            let key = format!("{}", c.net);
            if self.oracle == "C06" {
                // dest id consistency: the id carried must be the id this destination has/had
                if let Some(old) = sys.ids.get(&key) {
                    if *old != c.dest_id {
                        out.push((
                            "C06/dest-id-changed".into(),
                            format!("{opname}: notification for {key} carries dest_id {} but earlier notifications used {}", c.dest_id, old),
                        ));
                    }
                }
            }
            if c.current_paths.is_empty() {
                sys.ids.remove(&key);
            } else {
                sys.ids.insert(key.clone(), c.dest_id);
            }
            if c.best_changed {
                match c.new_best() {
                    Some(p) => {
                        // a non-add-path consumer never sees the local path id
                        let mut b = snap(p);
                        b.0 = 0;
                        sys.best_view.insert(key.clone(), b);
                    }
                    None => {
                        sys.best_view.remove(&key);
                    }
                }
            }
            if c.any_changed {
                if c.current_paths.is_empty() {
                    sys.ap_view.remove(&key);
                } else {
                    sys.ap_view.insert(key.clone(), c.current_paths.iter().map(snap).collect());
                }
            }
        }
    }

    fn check_c06(&self, sys: &Sys, out: &mut Vec<(String, String)>, opname: &str) {
        if sys.deferring {
            return;
        }
        let dump = sys.t.collect_loc_rib_paths(&FAMILY);
        let mut best: BTreeMap<String, Snap> = BTreeMap::new();
        let mut all: BTreeMap<String, Vec<Snap>> = BTreeMap::new();
        let mut ids: BTreeMap<u32, String> = BTreeMap::new();
        for c in &dump {
            let key = format!("{}", c.net);
            if let Some(other) = ids.insert(c.dest_id, key.clone()) {
                out.push((
                    "C06/dest-id-duplicate".into(),
                    format!("{opname}: live destinations {other} and {key} share dest_id {}", c.dest_id),
                ));
            }
            let mut b = snap(c.new_best().unwrap());
            b.0 = 0;
            best.insert(key.clone(), b);
            all.insert(key, c.current_paths.iter().map(snap).collect());
        }
        if best != sys.best_view {
            let class = diff_class(&best, &sys.best_view);
            out.push((
                format!("C06/best-fold-mismatch/{}/{}", op_kind(opname), class),
                format!(
                    "after {opname}: folding best_changed notifications gives {} but the RIB's best paths are {}",
                    show_best(&sys.best_view),
                    show_best(&best)
                ),
            ));
        }
        if all != sys.ap_view {
            let class = diff_class(&all, &sys.ap_view);
            out.push((
                format!("C06/addpath-fold-mismatch/{}/{}", op_kind(opname), class),
                format!(
                    "after {opname}: folding any_changed notifications gives {} but the RIB's ranked lists are {}",
                    show_all(&sys.ap_view),
                    show_all(&all)
                ),
            ));
        }
    }

    fn check_c15(&self, sys: &Sys, out: &mut Vec<(String, String)>, opname: &str) {
        // recount from the RIB itself
        let mut n_dest = 0usize;
        let mut n_path = 0usize;
        let mut n_acc = 0usize;
        let mut per_peer: BTreeMap<IpAddr, (BTreeSet<String>, u64, BTreeSet<String>)> = BTreeMap::new();
        for d in sys.t.destinations(TableQuery::Global, FAMILY, vec![], true) {
            n_dest += 1;
            for p in &d.paths {
                n_path += 1;
                if !p.filtered {
                    n_acc += 1;
                }
                let e = per_peer.entry(p.source.remote_addr).or_default();
                e.0.insert(format!("{}", d.net));
                if !p.filtered {
                    e.1 += 1;
                    e.2.insert(format!("{}", d.net));
                }
            }
        }
        let st = sys.t.state(FAMILY);
        if st.num_destination != n_dest {
            out.push((
                format!("C15/state-destinations/{}", if st.num_destination > n_dest { "overcount" } else { "undercount" }),
                format!("after {opname}: state().num_destination={} but {} prefixes have a path", st.num_destination, n_dest),
            ));
        }
        if st.num_path != n_path || st.num_accepted != n_acc {
            out.push((
                "C15/state-paths".into(),
                format!("after {opname}: state() paths={} accepted={} but recount gives {} / {}", st.num_path, st.num_accepted, n_path, n_acc),
            ));
        }
        for peer in 0..3u8 {
            let addr = sys.addr(peer);
            let (rx, acc) = match sys.t.peer_stats(&addr) {
                Some(it) => {
                    let mut r = (0u64, 0u64);
                    for (f, s) in it {
                        if f == FAMILY {
                            r = (s.received, s.accepted);
                        }
                    }
                    r
                }
                None => (0, 0),
            };
            let (want_rx, want_acc) = per_peer.get(&addr).map(|e| (e.0.len() as u64, e.1)).unwrap_or((0, 0));
            if rx != want_rx {
                out.push((
                    format!("C15/peer-received/{}/{}", op_kind(opname), cmp_class(rx, want_rx)),
                    format!("after {opname}: peer_stats({addr}).received={rx} but the peer has paths for {want_rx} prefixes"),
                ));
            }
            if acc != want_acc {
                out.push((
                    format!("C15/peer-accepted/{}/{}", op_kind(opname), cmp_class(acc, want_acc)),
                    format!("after {opname}: peer_stats({addr}).accepted={acc} but the peer has {want_acc} unfiltered paths"),
                ));
            }
        }
        if self.limit.is_some() && sys.is_up(0) {
            let addr = sys.addr(0);
            let cur_ptr = Arc::as_ptr(&sys.cur(0)) as usize;
            let c = sys.counters[0].last().unwrap().load(Ordering::Relaxed);
            // reading R1: all prefixes the peer has in the RIB (stale leftovers included)
            let all = per_peer.get(&addr).map(|e| e.0.len() as u64).unwrap_or(0);
            // reading R2: prefixes announced by the session the counter belongs to
            let mut sess: BTreeSet<String> = BTreeSet::new();
            let mut sess_acc: BTreeSet<String> = BTreeSet::new();
            for d in sys.t.destinations(TableQuery::Global, FAMILY, vec![], true) {
                for p in &d.paths {
                    if Arc::as_ptr(&p.source) as usize == cur_ptr {
                        sess.insert(format!("{}", d.net));
                        if !p.filtered {
                            sess_acc.insert(format!("{}", d.net));
                        }
                    }
                }
            }
            let sess_n = sess.len() as u64;
            if c > (1u64 << 63) {
                out.push((
                    "C15/limit-counter-underflow".into(),
                    format!("after {opname}: the session's prefix-limit counter wrapped below zero ({c:#x}); peer has {all} prefixes in the RIB, {sess_n} from this session"),
                ));
            } else if c != all && c != sess_n {
                out.push((
                    format!("C15/limit-counter/{}/{}", op_kind(opname), if c > all.max(sess_n) { "overcount" } else { "undercount" }),
                    format!("after {opname}: the session's prefix-limit counter is {c} but the peer has {all} distinct prefixes in the RIB ({sess_n} announced by this session)"),
                ));
            }
            let max = self.limit.unwrap() as u64;
            if sess_acc.len() as u64 > max {
                out.push((
                    "C15/limit-exceeded-silently".into(),
                    format!("after {opname}: the session holds {} distinct accepted prefixes, maximum {max}, and PrefixLimitExceeded was not returned", sess_acc.len()),
                ));
            }
        }
    }
}

fn cmp_class(got: u64, want: u64) -> &'static str {
    if got > (1u64 << 63) {
        "underflow"
    } else if got > want {
        "overcount"
    } else {
        "undercount"
    }
}

fn op_kind(opname: &str) -> String {
    opname.split('(').next().unwrap_or(opname).to_string()
}

fn diff_class<T: PartialEq>(rib: &BTreeMap<String, T>, view: &BTreeMap<String, T>) -> &'static str {
    for (k, v) in view {
        match rib.get(k) {
            None => return "stale-entry-kept",
            Some(r) if r != v => return "outdated-entry",
            _ => {}
        }
    }
    for k in rib.keys() {
        if !view.contains_key(k) {
            return "entry-missing";
        }
    }
    "?"
}

fn show_snap(s: &Snap) -> String {
    let lp = s.2.iter().find(|a| a.code() == Attribute::LOCAL_PREF).and_then(|a| a.value()).unwrap_or(0);
    format!("[id{} src@{:x} lp{} nattr{} nh{:?}{}]", s.0, s.1 & 0xfffff, lp, s.2.len(), s.3.map(|n| n.addr()), if s.4 { " llgr-stale-source" } else { "" })
}
fn show_best(m: &BTreeMap<String, Snap>) -> String {
    let v: Vec<String> = m.iter().map(|(k, s)| format!("{k}->{}", show_snap(s))).collect();
    format!("{{{}}}", v.join(", "))
}
fn show_all(m: &BTreeMap<String, Vec<Snap>>) -> String {
    let v: Vec<String> = m
        .iter()
        .map(|(k, s)| format!("{k}->{}", s.iter().map(show_snap).collect::<Vec<_>>().join("")))
        .collect();
    format!("{{{}}}", v.join(", "))
}

impl Model for TableModel {
    type Sys = Sys;
    fn name(&self) -> String {
        self.name.clone()
    }
    fn n_ops(&self) -> usize {
        self.ops.len()
    }
    fn op_name(&self, op: usize) -> String {
        op_str(&self.ops[op])
    }
    fn init(&self) -> Sys {
        Sys {
            t: Table::new(0),
            sessions: [vec![mk_source(0)], vec![mk_source(1)]],
            counters: [vec![Arc::new(AtomicU64::new(0))], vec![Arc::new(AtomicU64::new(0))]],
            local: Source::local(),
            up: [true, true],
            pool: (0..5).map(|i| Arc::new(attr_content(i))).collect(),
            invalid: BTreeSet::new(),
            deferring: false,
            ever_deferred: false,
            best_view: BTreeMap::new(),
            ap_view: BTreeMap::new(),
            ids: BTreeMap::new(),
            next_id: None,
            probe_src: source(9, PeerRole::Ebgp, 0x0a000009),
            broken: BTreeSet::new(),
        }
    }

    fn step(&self, sys: &mut Sys, op: usize, out: &mut Vec<(String, String)>) -> bool {
        let o = &self.ops[op];
        let name = op_str(o);
        let mut changes: Vec<NlriChange> = Vec::new();
        match o {
            Op::Insert { peer, pfx, rid, attr, nh, filtered, fresh } => {
                if !sys.is_up(*peer) {
                    return false;
                }
                let src = sys.cur(*peer);
                let a = if *fresh { Arc::new(attr_content(*attr)) } else { sys.pool[*attr as usize].clone() };
                let counter = sys.cur_counter(*peer);
                let limit = match (self.limit, *peer, &counter) {
                    (Some(max), 0, Some(c)) => Some((max, c)),
                    _ => None,
                };
                let r = sys.t.insert(
                    src,
                    FAMILY,
                    prefix(*pfx),
                    *rid,
                    nh4(1 + *nh),
                    a,
                    None,
                    *filtered,
                    sys.invalid.contains(nh),
                    limit,
                    0,
                );
                match r {
                    InsertResult::Changed(c) => changes.push(c),
                    InsertResult::NoChange => {}
                    InsertResult::PrefixLimitExceeded => {
                        // the daemon sends CEASE and closes the session; modelled as a non-GR drop
                        let addr = sys.addr(*peer);
                        let (cs, _) = sys.t.drop(addr, FAMILY);
                        changes.extend(cs);
                        sys.session_end(*peer);
                    }
                }
            }
            Op::Remove { peer, pfx, rid } => {
                if !sys.is_up(*peer) {
                    return false;
                }
                let src = sys.cur(*peer);
                let counter = if self.limit.is_some() && *peer == 0 { sys.cur_counter(*peer) } else { None };
                let (c, _) = sys.t.remove(src, FAMILY, prefix(*pfx), *rid, counter.as_ref());
                changes.extend(c);
            }
            Op::Drop { peer } => {
                if !sys.is_up(*peer) {
                    return false;
                }
                let addr = sys.addr(*peer);
                let (cs, _) = sys.t.drop(addr, FAMILY);
                changes.extend(cs);
                sys.session_end(*peer);
            }
            Op::Restale { peer } => {
                if !sys.is_up(*peer) {
                    return false;
                }
                let addr = sys.addr(*peer);
                changes.extend(sys.t.restale(addr, FAMILY));
                sys.session_end(*peer);
            }
            Op::Reconnect { peer } => {
                if sys.is_up(*peer) || sys.sessions[*peer as usize].len() >= self.max_sessions {
                    return false;
                }
                sys.new_session(*peer);
            }
            Op::DropStale { peer } => {
                // restart-timer expiry while down, or End-of-RIB on the new session
                let addr = sys.addr(*peer);
                let (cs, _) = sys.t.drop_stale(addr, FAMILY, None);
                changes.extend(cs);
            }
            Op::MarkLlgr { peer } => {
                // LLGR period begins: either directly when an LLGR-only session
                // drops (peer up -> session ends) or when the GR restart timer
                // expires (peer already down).  Never while a new session is up
                // after a restart (the timer is cancelled then).
                if sys.is_up(*peer) && sys.sessions[*peer as usize].len() > 1 {
                    return false;
                }
                let addr = sys.addr(*peer);
                changes.extend(sys.t.restale_llgr(addr, FAMILY));
                self.apply_changes(sys, &changes, out, &name);
                changes.clear();
                let (cs, _) = sys.t.drop_no_llgr(addr, FAMILY, None);
                changes.extend(cs);
                sys.session_end(*peer);
            }
            Op::RestaleLlgrOnly { peer } => {
                if sys.is_up(*peer) {
                    return false;
                }
                let addr = sys.addr(*peer);
                changes.extend(sys.t.restale_llgr(addr, FAMILY));
            }
            Op::DropNoLlgrOnly { peer } => {
                if sys.is_up(*peer) {
                    return false;
                }
                let addr = sys.addr(*peer);
                let (cs, _) = sys.t.drop_no_llgr(addr, FAMILY, None);
                changes.extend(cs);
            }
            Op::DropLlgrStale { peer } => {
                let addr = sys.addr(*peer);
                let (cs, _) = sys.t.drop_llgr_stale(addr, FAMILY, None);
                changes.extend(cs);
            }
            Op::NhValid { nh, up } => {
                if *up == !sys.invalid.contains(nh) {
                    return false; // no change in reachability: NHT reports transitions only
                }
                if *up {
                    sys.invalid.remove(nh);
                } else {
                    sys.invalid.insert(*nh);
                }
                let a = nh4(1 + *nh).unwrap().addr();
                changes.extend(sys.t.update_nexthop_validity(a, *up));
            }
            Op::StartDeferral => {
                // only at start-up, before any route (how the daemon uses it)
                if sys.deferring || sys.ever_deferred || sys.t.state(FAMILY).num_destination != 0 {
                    return false;
                }
                sys.t.start_deferral(FAMILY);
                sys.deferring = true;
                sys.ever_deferred = true;
            }
            Op::EndDeferral => {
                if !sys.deferring {
                    return false;
                }
                let cs = sys.t.end_deferral(FAMILY);
                // every destination with an eligible path exactly once
                let mut seen = BTreeSet::new();
                for c in &cs {
                    if !seen.insert(format!("{}", c.net)) && self.oracle == "C06" {
                        out.push(("C06/end-deferral-duplicate".into(), format!("end_deferral announced {} twice", c.net)));
                    }
                }
                sys.deferring = false;
                changes.extend(cs);
            }
        }
        self.apply_changes(sys, &changes, out, &name);
        let mut cur: Vec<(String, String)> = Vec::new();
        match self.oracle {
            "C06" => self.check_c06(sys, &mut cur, &name),
            _ => self.check_c15(sys, &mut cur, &name),
        }
        if self.oracle == "C06" {
            // Probe the id allocator: a prefix no op uses is inserted and removed again (its
            // notifications go nowhere).  The id it was given must not belong to a live
            // destination, and it is part of the fingerprint: two states that look alike but
            // would number the next prefix differently are different states.
            let probe = prefix(240);
            let _ = sys.t.insert(sys.probe_src.clone(), FAMILY, probe.clone(), 0, nh4(9), sys.pool[0].clone(), None, false, false, None, 0);
            let dump = sys.t.collect_loc_rib_paths(&FAMILY);
            sys.next_id = dump.iter().find(|c| c.net == probe).map(|c| c.dest_id);
            if let Some(id) = sys.next_id {
                if let Some(c) = dump.iter().find(|c| c.net != probe && c.dest_id == id) {
                    cur.push(("C06/dest-id-duplicate/next-allocation".into(), format!("{name}: the next new prefix would be given dest_id {id}, which the live destination {} is using", c.net)));
                }
            }
            let _ = sys.t.remove(sys.probe_src.clone(), FAMILY, probe, 0, None);
        }
        // report a clause only on the step that breaks it (root cause), not on
        // every later state that inherits the damage
        let mut now = BTreeSet::new();
        for (sig, what) in cur {
            let clause = sig.split('/').nth(1).unwrap_or("").to_string();
            if !sys.broken.contains(&clause) && !now.contains(&clause) {
                out.push((sig, what));
            }
            now.insert(clause);
        }
        sys.broken = now;
        true
    }

    fn fingerprint(&self, sys: &Sys) -> Vec<u8> {
        use std::fmt::Write;
        let mut s = String::new();
        let mut srcs: Vec<usize> = Vec::new();
        for v in &sys.sessions {
            for x in v {
                srcs.push(Arc::as_ptr(x) as usize);
            }
            srcs.push(0);
        }
        srcs.push(Arc::as_ptr(&sys.local) as usize);
        let sid = |p: usize| srcs.iter().position(|x| *x == p).unwrap_or(99);
        let mut arcs: Vec<usize> = sys.pool.iter().map(|a| Arc::as_ptr(a) as usize).collect();
        let mut aid = |p: usize| match arcs.iter().position(|x| *x == p) {
            Some(i) => i,
            None => {
                arcs.push(p);
                arcs.len() - 1
            }
        };
        // RIB content, entry order kept (rank order is behaviour)
        let mut dests: Vec<(String, String)> = Vec::new();
        for d in sys.t.destinations(TableQuery::Global, FAMILY, vec![], true) {
            let mut e = String::new();
            for p in &d.paths {
                let _ = write!(
                    e,
                    "({},{},{},{},{},{})",
                    sid(Arc::as_ptr(&p.source) as usize),
                    p.remote_path_id,
                    aid(Arc::as_ptr(&p.attr) as usize),
                    crate::vx::report::hex(&attr_bytes(&p.attr)).len(),
                    p.filtered,
                    p.stale
                );
                let _ = write!(e, "{}", crate::vx::bfs::hash128(&attr_bytes(&p.attr)) as u32);
            }
            dests.push((format!("{}", d.net), e));
        }
        dests.sort();
        let _ = write!(s, "D{:?}", dests);
        // nexthops / local ids / dest ids through the pre-policy and eligible views
        let mut reach: Vec<String> = sys
            .t
            .iter_reach(FAMILY)
            .map(|r| format!("{}:{}:{}:{:?}", r.net.nlri, sid(Arc::as_ptr(&r.source) as usize), r.net.path_id, r.nexthop.map(|n| n.addr())))
            .collect();
        reach.sort();
        let _ = write!(s, "R{:?}N{:?}", reach, sys.next_id);
        let mut elig: Vec<String> = sys
            .t
            .collect_loc_rib_paths(&FAMILY)
            .iter()
            .map(|c| {
                format!(
                    "{}#{}:{:?}",
                    c.net,
                    c.dest_id,
                    c.current_paths.iter().map(|p| (p.local_path_id, sid(Arc::as_ptr(&p.source) as usize))).collect::<Vec<_>>()
                )
            })
            .collect();
        elig.sort();
        let _ = write!(s, "E{:?}", elig);
        for v in &sys.sessions {
            for x in v {
                let _ = write!(s, "s{}{}", x.is_stale() as u8, x.is_llgr_stale() as u8);
            }
            s.push('|');
        }
        for v in &sys.counters {
            let _ = write!(s, "c{}", v.last().unwrap().load(Ordering::Relaxed));
        }
        for peer in 0..3u8 {
            if let Some(it) = sys.t.peer_stats(&sys.addr(peer)) {
                for (f, st) in it {
                    if f == FAMILY {
                        let _ = write!(s, "p{}:{}:{}", peer, st.received, st.accepted);
                    }
                }
            }
        }
        let st = sys.t.state(FAMILY);
        let _ = write!(s, "T{}:{}:{}", st.num_destination, st.num_path, st.num_accepted);
        let _ = write!(s, "I{:?}d{}{}u{:?}", sys.invalid, sys.deferring, sys.ever_deferred, sys.up);
        // oracle shadow state (views keyed the same way)
        let vs = |x: &Snap| format!("{}:{}:{}:{:?}", x.0, sid(x.1), crate::vx::bfs::hash128(&attr_bytes(&x.2)) as u32, x.3.map(|n| n.addr()));
        for (k, v) in &sys.best_view {
            let _ = write!(s, "b{}={}", k, vs(v));
        }
        for (k, v) in &sys.ap_view {
            let _ = write!(s, "a{}=", k);
            for x in v {
                let _ = write!(s, "{}", vs(x));
            }
        }
        let _ = write!(s, "i{:?}B{:?}", sys.ids, sys.broken);
        s.into_bytes()
    }

    fn observe(&self, sys: &Sys) -> u64 {
        let mut s = String::new();
        for c in sys.t.collect_loc_rib_paths(&FAMILY) {
            use std::fmt::Write;
            let _ = write!(s, "{}:{};", c.net, c.current_paths.len());
        }
        let mut v: Vec<&str> = s.split(';').collect();
        v.sort();
        bfs::hash128(v.join(";").as_bytes()) as u64
    }
}

fn ins(peer: u8, pfx: u8, rid: u32, attr: u8, nh: u8) -> Op {
    Op::Insert { peer, pfx, rid, attr, nh, filtered: false, fresh: false }
}
fn insf(peer: u8, pfx: u8, rid: u32, attr: u8, nh: u8) -> Op {
    Op::Insert { peer, pfx, rid, attr, nh, filtered: true, fresh: false }
}
fn insfresh(peer: u8, pfx: u8, rid: u32, attr: u8, nh: u8) -> Op {
    Op::Insert { peer, pfx, rid, attr, nh, filtered: false, fresh: true }
}
fn rem(peer: u8, pfx: u8, rid: u32) -> Op {
    Op::Remove { peer, pfx, rid }
}

pub fn packs(oracle: &'static str) -> Vec<TableModel> {
    let mk = |name: &str, ops: Vec<Op>, limit: Option<u32>| TableModel {
        name: format!("{}-{}", oracle.to_lowercase(), name),
        ops,
        oracle,
        limit,
        max_sessions: 3,
    };
    vec![
        mk(
            "idreuse",
            vec![
                ins(0, 0, 0, 0, 0), ins(0, 1, 0, 0, 0), ins(0, 2, 0, 0, 0),
                rem(0, 0, 0), rem(0, 1, 0), rem(0, 2, 0),
                ins(1, 0, 0, 1, 0), rem(1, 0, 0), insf(0, 0, 0, 0, 0), insf(1, 1, 0, 1, 0),
                Op::Drop { peer: 0 }, Op::Reconnect { peer: 0 },
            ],
            None,
        ),
        mk(
            "addpath",
            vec![
                ins(0, 0, 0, 0, 0), ins(0, 0, 1, 1, 0), ins(0, 0, 0, 1, 0), ins(0, 0, 1, 0, 1),
                insfresh(0, 0, 0, 0, 0), insf(0, 0, 0, 0, 0), insf(0, 0, 1, 1, 0),
                rem(0, 0, 0), rem(0, 0, 1),
                ins(1, 0, 0, 4, 0), ins(1, 0, 0, 1, 1), insf(1, 0, 0, 1, 0), rem(1, 0, 0),
                ins(2, 0, 0, 1, 0), rem(2, 0, 0),
            ],
            None,
        ),
        mk(
            "gr",
            vec![
                ins(0, 0, 0, 0, 0), ins(0, 1, 0, 1, 0), ins(0, 0, 0, 1, 0), insf(0, 1, 0, 1, 0),
                rem(0, 0, 0), rem(0, 1, 0),
                ins(1, 0, 0, 4, 0), ins(1, 1, 0, 0, 0), rem(1, 0, 0), rem(1, 1, 0),
                Op::Restale { peer: 0 }, Op::Reconnect { peer: 0 }, Op::DropStale { peer: 0 }, Op::Drop { peer: 0 },
            ],
            None,
        ),
        mk(
            "llgr",
            vec![
                ins(0, 0, 0, 0, 0), ins(0, 1, 0, 2, 0), ins(0, 0, 1, 2, 0), rem(0, 0, 0), rem(0, 1, 0),
                ins(1, 0, 0, 1, 0), ins(1, 0, 0, 3, 0), ins(1, 1, 0, 1, 0), rem(1, 0, 0), insf(1, 0, 0, 0, 0),
                Op::Restale { peer: 0 }, Op::MarkLlgr { peer: 0 }, Op::DropLlgrStale { peer: 0 }, Op::DropStale { peer: 0 }, Op::Reconnect { peer: 0 },
                Op::RestaleLlgrOnly { peer: 0 }, Op::DropNoLlgrOnly { peer: 0 },
            ],
            None,
        ),
        mk(
            "nht",
            vec![
                ins(0, 0, 0, 0, 0), ins(0, 0, 0, 0, 1), ins(0, 1, 0, 1, 0), rem(0, 0, 0), rem(0, 1, 0),
                ins(1, 0, 0, 1, 0), ins(1, 0, 0, 4, 1), rem(1, 0, 0), insf(1, 0, 0, 1, 0),
                Op::NhValid { nh: 0, up: false }, Op::NhValid { nh: 0, up: true },
                Op::NhValid { nh: 1, up: false }, Op::NhValid { nh: 1, up: true },
                Op::Restale { peer: 0 }, Op::DropStale { peer: 0 }, Op::Reconnect { peer: 0 },
            ],
            None,
        ),
        mk(
            "deferral",
            vec![
                Op::StartDeferral, Op::EndDeferral,
                ins(0, 0, 0, 0, 0), ins(0, 1, 0, 1, 0), insf(0, 0, 0, 0, 0), rem(0, 0, 0), rem(0, 1, 0),
                ins(1, 0, 0, 1, 0), rem(1, 0, 0), Op::Drop { peer: 0 }, Op::Reconnect { peer: 0 },
            ],
            None,
        ),
        mk(
            "limit",
            vec![
                ins(0, 0, 0, 0, 0), ins(0, 1, 0, 0, 0), ins(0, 2, 0, 0, 0), ins(0, 0, 1, 1, 0), insf(0, 1, 0, 0, 0),
                rem(0, 0, 0), rem(0, 1, 0), rem(0, 2, 0), rem(0, 0, 1),
                Op::Restale { peer: 0 }, Op::DropStale { peer: 0 }, Op::Drop { peer: 0 }, Op::Reconnect { peer: 0 },
                ins(1, 0, 0, 1, 0),
            ],
            Some(2),
        ),
        mk(
            "limit1",
            vec![
                ins(0, 0, 0, 0, 0), ins(0, 1, 0, 0, 0), insf(0, 0, 0, 0, 0), insf(0, 1, 0, 0, 0),
                rem(0, 0, 0), rem(0, 1, 0),
                Op::Restale { peer: 0 }, Op::DropStale { peer: 0 }, Op::MarkLlgr { peer: 0 }, Op::DropLlgrStale { peer: 0 }, Op::Reconnect { peer: 0 },
            ],
            Some(1),
        ),
    ]
}

// ---------------------------------------------------------------------------
// Cross-family model: two families in one Table, per-family deferral, a next
// hop shared across families.  Catches per-family state that is wrongly
// applied table-wide (or vice versa).

#[derive(Clone, Debug)]
pub enum Op2 {
    Insert { peer: u8, fam: u8, attr: u8 },
    Remove { peer: u8, fam: u8 },
    Drop { peer: u8 },
    /// the session ends with graceful restart for the OTHER family only: this family is dropped at once
    DropFam { peer: u8, fam: u8 },
    NhValid { up: bool },
    StartDeferral(u8),
    EndDeferral(u8),
}

pub struct TwoFamModel {
    pub ops: Vec<Op2>,
    oracle: &'static str,
}

pub struct Sys2 {
    t: Table,
    src: [Arc<Source>; 2],
    pool: Vec<Arc<Vec<Attribute>>>,
    nh_down: bool,
    deferring: [bool; 2],
    ever: [bool; 2],
    best_view: BTreeMap<String, Snap>,
    ap_view: BTreeMap<String, Vec<Snap>>,
    broken: BTreeSet<String>,
}

const FAMS2: [Family; 2] = [Family::IPV4, Family::IPV6];

fn net2(f: u8) -> Nlri {
    if f == 0 { v4(10, 9, 0, 0, 24) } else { v6(9, 48) }
}

impl Model for TwoFamModel {
    type Sys = Sys2;
    fn name(&self) -> String {
        "c06-twofam".into()
    }
    fn n_ops(&self) -> usize {
        self.ops.len()
    }
    fn op_name(&self, op: usize) -> String {
        let p = |x: &u8| ["A", "B"][*x as usize];
        let f = |x: &u8| ["v4", "v6"][*x as usize];
        match &self.ops[op] {
            Op2::Insert { peer, fam, attr } => format!("insert({},{},{})", p(peer), f(fam), ATTR_NAMES[*attr as usize]),
            Op2::Remove { peer, fam } => format!("remove({},{})", p(peer), f(fam)),
            Op2::Drop { peer } => format!("drop({})", p(peer)),
            Op2::DropFam { peer, fam } => format!("drop_family({},{})", p(peer), f(fam)),
            Op2::NhValid { up } => format!("nexthop(N1,{})", if *up { "up" } else { "down" }),
            Op2::StartDeferral(x) => format!("start_deferral({})", f(x)),
            Op2::EndDeferral(x) => format!("end_deferral({})", f(x)),
        }
    }
    fn init(&self) -> Sys2 {
        Sys2 {
            t: Table::new(0),
            src: [mk_source(0), mk_source(1)],
            pool: (0..5).map(|i| Arc::new(attr_content(i))).collect(),
            nh_down: false,
            deferring: [false; 2],
            ever: [false; 2],
            best_view: BTreeMap::new(),
            ap_view: BTreeMap::new(),
            broken: BTreeSet::new(),
        }
    }
    fn step(&self, sys: &mut Sys2, op: usize, out: &mut Vec<(String, String)>) -> bool {
        let name = self.op_name(op);
        let mut changes: Vec<NlriChange> = Vec::new();
        match &self.ops[op] {
            Op2::Insert { peer, fam, attr } => {
                let r = sys.t.insert(sys.src[*peer as usize].clone(), FAMS2[*fam as usize], net2(*fam), 0, nh4(1), sys.pool[*attr as usize].clone(), None, false, sys.nh_down, None, 0);
                if let InsertResult::Changed(c) = r {
                    changes.push(c);
                }
            }
            Op2::Remove { peer, fam } => {
                let (c, _) = sys.t.remove(sys.src[*peer as usize].clone(), FAMS2[*fam as usize], net2(*fam), 0, None);
                changes.extend(c);
            }
            Op2::Drop { peer } => {
                let addr = sys.src[*peer as usize].remote_addr;
                for f in FAMS2 {
                    let (cs, _) = sys.t.drop(addr, f);
                    changes.extend(cs);
                }
                sys.src[*peer as usize] = mk_source(*peer);
            }
            Op2::DropFam { peer, fam } => {
                let addr = sys.src[*peer as usize].remote_addr;
                let (cs, _) = sys.t.drop(addr, FAMS2[*fam as usize]);
                changes.extend(cs);
            }
            Op2::NhValid { up } => {
                if *up != sys.nh_down {
                    return false;
                }
                sys.nh_down = !*up;
                changes.extend(sys.t.update_nexthop_validity(nh4(1).unwrap().addr(), *up));
            }
            Op2::StartDeferral(f) => {
                let i = *f as usize;
                if sys.deferring[i] || sys.ever[i] || sys.t.state(FAMS2[i]).num_destination != 0 {
                    return false;
                }
                sys.t.start_deferral(FAMS2[i]);
                sys.deferring[i] = true;
                sys.ever[i] = true;
            }
            Op2::EndDeferral(f) => {
                let i = *f as usize;
                if !sys.deferring[i] {
                    return false;
                }
                changes.extend(sys.t.end_deferral(FAMS2[i]));
                sys.deferring[i] = false;
            }
        }
        for c in &changes {
            let key = format!("{}", c.net);
            if c.best_changed {
                match c.new_best() {
                    Some(p) => {
                        let mut b = snap(p);
                        b.0 = 0;
                        sys.best_view.insert(key.clone(), b);
                    }
                    None => {
                        sys.best_view.remove(&key);
                    }
                }
            }
            if c.any_changed {
                if c.current_paths.is_empty() {
                    sys.ap_view.remove(&key);
                } else {
                    sys.ap_view.insert(key, c.current_paths.iter().map(snap).collect());
                }
            }
        }
        let mut cur = Vec::new();
        for (i, f) in FAMS2.iter().enumerate() {
            if sys.deferring[i] {
                continue;
            }
            let key = format!("{}", net2(i as u8));
            let dump = sys.t.collect_loc_rib_paths(f);
            let best = dump.first().map(|c| {
                let mut b = snap(c.new_best().unwrap());
                b.0 = 0;
                b
            });
            let all: Option<Vec<Snap>> = dump.first().map(|c| c.current_paths.iter().map(snap).collect());
            if sys.best_view.get(&key) != best.as_ref() {
                cur.push((
                    format!("C06/best-fold-mismatch/{}/cross-family-{}", op_kind(&name), ["v4", "v6"][i]),
                    format!("after {name}: folded best for {key} is {:?}, the RIB says {:?}", sys.best_view.get(&key).map(show_snap), best.as_ref().map(show_snap)),
                ));
            }
            if sys.ap_view.get(&key) != all.as_ref() {
                cur.push((
                    format!("C06/addpath-fold-mismatch/{}/cross-family-{}", op_kind(&name), ["v4", "v6"][i]),
                    format!("after {name}: folded ranked list for {key} differs from the RIB's ({} vs {} paths)", sys.ap_view.get(&key).map(|v| v.len()).unwrap_or(0), all.as_ref().map(|v| v.len()).unwrap_or(0)),
                ));
            }
        }
        if self.oracle == "C15" {
            // per peer and family: the statistics against a recount from the RIB (the fold clauses are C06's)
            cur.clear();
            for (pi, src) in sys.src.iter().enumerate() {
                for (i, f) in FAMS2.iter().enumerate() {
                    let (mut rx, mut acc) = (0u64, 0u64);
                    for d in sys.t.destinations(TableQuery::Global, *f, vec![], true) {
                        let mine: Vec<_> = d.paths.iter().filter(|p| p.source.remote_addr == src.remote_addr).collect();
                        if !mine.is_empty() {
                            rx += 1;
                        }
                        acc += mine.iter().filter(|p| !p.filtered).count() as u64;
                    }
                    let got = sys.t.peer_stats(&src.remote_addr).and_then(|mut it| it.find(|(ff, _)| ff == f).map(|(_, st)| (st.received, st.accepted))).unwrap_or((0, 0));
                    if got != (rx, acc) {
                        cur.push((
                            format!("C15/peer-stats/cross-family/{}/{}", op_kind(&name), ["v4", "v6"][i]),
                            format!("after {name}: peer_stats({}) for {} reports received={} accepted={} but the RIB holds {} prefixes / {} accepted paths of that peer", ["A", "B"][pi], ["v4", "v6"][i], got.0, got.1, rx, acc),
                        ));
                    }
                }
            }
        }
        let mut now = BTreeSet::new();
        for (sig, what) in cur {
            let clause = format!("{}{}", sig.split('/').nth(1).unwrap_or(""), sig.rsplit('-').next().unwrap_or(""));
            if !sys.broken.contains(&clause) && !now.contains(&clause) {
                out.push((sig, what));
            }
            now.insert(clause);
        }
        sys.broken = now;
        true
    }
    fn observe(&self, sys: &Sys2) -> u64 {
        // vacuity check: number of paths per family
        FAMS2.iter().enumerate().map(|(i, f)| (sys.t.destinations(TableQuery::Global, *f, vec![], true).map(|d| d.paths.len() as u64).sum::<u64>()) * 10u64.pow(i as u32)).sum()
    }
    fn fingerprint(&self, sys: &Sys2) -> Vec<u8> {
        use std::fmt::Write;
        let mut s = String::new();
        for f in FAMS2 {
            for d in sys.t.destinations(TableQuery::Global, f, vec![], true) {
                for p in &d.paths {
                    let _ = write!(s, "{}:{}:{}:{};", d.net, p.source.remote_addr, bfs::hash128(&attr_bytes(&p.attr)) as u16, p.filtered);
                }
            }
            s.push('|');
            for c in sys.t.collect_loc_rib_paths(&f) {
                let _ = write!(s, "{}:{:?};", c.net, c.current_paths.iter().map(|p| (p.local_path_id, p.source.remote_addr)).collect::<Vec<_>>());
            }
            s.push('|');
        }
        let vs = |x: &Snap| format!("{}:{}:{:?}", x.0, bfs::hash128(&attr_bytes(&x.2)) as u16, x.3.map(|n| n.addr()));
        let _ = write!(s, "{}{:?}{:?}", sys.nh_down, sys.deferring, sys.ever);
        for (k, v) in &sys.best_view {
            let _ = write!(s, "b{k}={}", vs(v));
        }
        for (k, v) in &sys.ap_view {
            let _ = write!(s, "a{k}={:?}", v.iter().map(vs).collect::<Vec<_>>());
        }
        let _ = write!(s, "{:?}", sys.broken);
        s.into_bytes()
    }
}

pub fn twofam(oracle: &'static str) -> TwoFamModel {
    let mut ops = Vec::new();
    for fam in 0..2u8 {
        ops.push(Op2::Insert { peer: 0, fam, attr: 0 });
        ops.push(Op2::Insert { peer: 1, fam, attr: 1 });
        ops.push(Op2::Remove { peer: 0, fam });
        ops.push(Op2::Remove { peer: 1, fam });
        ops.push(Op2::StartDeferral(fam));
        ops.push(Op2::EndDeferral(fam));
    }
    ops.push(Op2::Drop { peer: 0 });
    ops.push(Op2::DropFam { peer: 0, fam: 0 });
    ops.push(Op2::DropFam { peer: 0, fam: 1 });
    ops.push(Op2::NhValid { up: false });
    ops.push(Op2::NhValid { up: true });
    TwoFamModel { ops, oracle }
}

pub fn run(oracle: &'static str, replay: Option<&str>) -> Report {
    let mut rep = Report::new(oracle, &format!("hx-{}", oracle.to_lowercase()));
    let models = packs(oracle);
    if let Some(case) = replay {
        let Some((name, hist)) = bfs::decode_case(case) else {
            rep.machinery_error = Some("bad replay case".into());
            return rep;
        };
        if name == "c06-twofam" {
            let m = twofam(oracle);
            eprintln!("replay {}", bfs::render(&m, &hist));
            rep.evaluations = 1;
            rep.violations_from(bfs::replay(&m, &hist, true));
            return rep;
        }
        let Some(m) = models.iter().find(|m| m.name == name) else {
            rep.machinery_error = Some(format!("unknown model {name}"));
            return rep;
        };
        eprintln!("replay {}", bfs::render(m, &hist));
        let vs: Vec<Violation> = bfs::replay(m, &hist, true);
        rep.evaluations = 1;
        rep.violations_from(vs);
        return rep;
    }
    let depth = if rep.thorough() { 30 } else { 8 };
    rep.rule = format!(
        "explicit-state BFS over real Table mutators; state = history, canonical fingerprint of RIB+stats+counters+fold views; {} packs, depth {}; non-trivial = distinct canonical state other than the initial one",
        models.len(),
        depth
    );
    for m in &models {
        let cfg = BfsCfg { max_depth: depth, max_secs: if rep.thorough() { 1500 } else { 40 }, ..Default::default() };
        bfs::bfs(m, &cfg, &mut rep);
    }
    {
        let cfg = BfsCfg { max_depth: if oracle == "C06" { depth + 1 } else { depth.min(9) }, max_secs: if rep.thorough() { 600 } else { 20 }, ..Default::default() };
        bfs::bfs(&twofam(oracle), &cfg, &mut rep);
    }
    rep
}
