// C19 oracle -- shared by the packet-level harness (hx/src/c19.rs) and the
// daemon-level harness (hd/ev_c19.rs).  Crate-agnostic like mkmsg.rs / wire.rs:
// std + `rustybgp_packet::` paths only; the including module must provide
// `mkmsg` and `wire` as siblings (`super::mkmsg`, `super::wire`).
//
// Input: the BYTES of one BMP message / MRT record plus the INTENT (what was
// monitored).  Output: findings (clause, shape class, expected-vs-observed).
// Structure is read by wire.rs (written from RFC 7854 / 8671 / 9069 / 6396 /
// 8050); the embedded BGP PDUs are parsed back by the repository's own BGP
// parser under a codec built from the settings the RECORD states (MRT subtype;
// BMP per-peer A flag; add-path as negotiated for the monitored session, which
// for BMP is what the Peer Up OPENs state) and compared with the intent.
//
// Root-cause-only: a record that cannot be read structurally yields exactly one
// finding; content comparisons are made only on records that can be read.

use super::mkmsg;
use super::wire;
use rustybgp_packet::bgp::{
    Attribute, Family, FamilyState, Message, Nexthop, Nlri, Notification, Open, ParsedMessage, ParsedUpdate, PathNlri,
    PeerCodec,
};
use std::net::IpAddr;

#[derive(Clone, Debug)]
pub struct Finding {
    /// oracle clause, e.g. "multiple-pdus-in-record"
    pub clause: String,
    /// shape class of the witness ("" = none)
    pub shape: String,
    pub what: String,
}

fn finding(clause: &str, shape: impl Into<String>, what: impl Into<String>) -> Finding {
    Finding { clause: clause.to_string(), shape: shape.into(), what: what.into() }
}

pub fn hexs(b: &[u8]) -> String {
    let mut s = String::with_capacity(b.len() * 2);
    for x in b.iter().take(160) {
        s.push_str(&format!("{x:02x}"));
    }
    if b.len() > 160 {
        s.push_str(&format!("..(+{}B)", b.len() - 160));
    }
    s
}

/// Run `f`, turning a panic into Err (the including crate installs the quiet hook).
fn guarded<R>(f: impl FnOnce() -> R) -> Result<R, String> {
    std::panic::catch_unwind(std::panic::AssertUnwindSafe(f)).map_err(|e| {
        if let Some(s) = e.downcast_ref::<&str>() {
            s.to_string()
        } else if let Some(s) = e.downcast_ref::<String>() {
            s.clone()
        } else {
            "panic".to_string()
        }
    })
}

#[derive(Clone, Copy, Debug, PartialEq, Eq)]
pub enum Kind {
    Reach,
    Unreach,
    Eor,
}

impl Kind {
    pub fn name(&self) -> &'static str {
        match self {
            Kind::Reach => "reach",
            Kind::Unreach => "unreach",
            Kind::Eor => "eor",
        }
    }
}

/// What was monitored: the intended content of one Route Monitoring / BGP4MP record.
#[derive(Clone, Debug)]
pub struct UpdateIntent {
    pub family: Family,
    pub kind: Kind,
    pub entries: Vec<PathNlri>,
    pub nexthop: Option<Nexthop>,
    pub attrs: Vec<Attribute>,
    /// add-path negotiated for (session, family): path ids are on the wire
    pub addpath: bool,
    /// label for the attribute set (signature shape of attribute mismatches)
    pub attr_class: String,
}

impl UpdateIntent {
    pub fn to_message(&self) -> Message {
        match self.kind {
            Kind::Reach => mkmsg::reach(self.family, self.entries.clone(), self.nexthop, &self.attrs),
            Kind::Unreach => mkmsg::unreach(self.family, self.entries.clone()),
            Kind::Eor => Message::eor(self.family),
        }
    }
    fn has_label_stack(&self) -> bool {
        self.entries.iter().any(|e| mkmsg::nlri_has_label_stack(&e.nlri))
    }
    /// `<family>:<kind>`, or `label-stack:<kind>` for NLRI with more than one label
    /// (one root cause whatever the family)
    pub fn shape(&self) -> String {
        if self.has_label_stack() {
            format!("label-stack:{}", self.kind.name())
        } else {
            format!("{}:{}", mkmsg::family_name(self.family), self.kind.name())
        }
    }
}

pub fn nh_class(n: &Option<Nexthop>) -> &'static str {
    match n {
        None => "none",
        Some(Nexthop::V4(_)) => "v4",
        Some(Nexthop::V6(_)) => "v6",
        Some(Nexthop::V6LinkLocal(..)) => "v6+ll",
    }
}

/// Sorted debug strings: multiset comparison without Ord on the subject types.
fn multiset<T: std::fmt::Debug>(v: &[T]) -> Vec<String> {
    let mut s: Vec<String> = v.iter().map(|x| format!("{x:?}")).collect();
    s.sort();
    s
}

/// What a conforming receiver on a 4-octet-AS session holds after decoding `a`
/// (documented fates of mkmsg::AttrFate: unknown optional non-transitive is
/// dropped, AS4_* never reaches a RIB, extended-length flag is canonicalised by
/// attr_key).
pub fn expected_attrs(attrs: &[Attribute]) -> Vec<Attribute> {
    let mut out = Vec::new();
    for a in attrs {
        if a.is_opaque() {
            if a.flags() & 0x40 == 0 {
                continue;
            }
            out.push(a.clone());
        } else if a.code() == Attribute::AS4_PATH || a.code() == Attribute::AS4_AGGREGATOR {
            continue;
        } else {
            out.push(a.clone());
        }
    }
    out
}

#[derive(Default, Debug)]
pub struct Decoded {
    pub reach: Vec<PathNlri>,
    pub unreach: Vec<PathNlri>,
    /// one per frame that carried reachable NLRI
    pub nexthops: Vec<Option<Nexthop>>,
    pub attrs: Vec<Vec<Attribute>>,
    pub eor: Vec<Family>,
    pub err_attr_codes: Vec<u8>,
    pub frames: usize,
    pub max_frame: usize,
}

/// Codec a reader of the record builds from what the record states.
pub fn reader_codec(family: Family, addpath: bool, two_byte_as: bool) -> PeerCodec {
    let mut c = PeerCodec::new();
    // legacy NLRI fields are IPv4 unicast: the parser wants that family known
    c.set_family(Family::IPV4, FamilyState { addpath_rx: false, addpath_tx: false });
    c.set_family(family, FamilyState { addpath_rx: addpath, addpath_tx: addpath });
    c.two_byte_as = two_byte_as;
    c
}

/// Parse every PDU with the repository's parser.  Err = the first PDU that does not parse.
pub fn decode_pdus(pdus: &[&[u8]], family: Family, addpath: bool, two_byte_as: bool, shape: &str) -> Result<Decoded, Finding> {
    let mut codec = reader_codec(family, addpath, two_byte_as);
    let mut out = Decoded::default();
    for (i, f) in pdus.iter().enumerate() {
        out.frames += 1;
        out.max_frame = out.max_frame.max(f.len());
        let parsed = match guarded(|| codec.parse_message(f)) {
            Err(p) => return Err(finding("pdu-parse-panics", shape, format!("PDU {i} of {}: the repository's parser panicked: {p}; pdu={}", pdus.len(), hexs(f)))),
            Ok(Err(n)) => {
                return Err(finding(
                    "pdu-does-not-parse",
                    shape,
                    format!("PDU {i} of {} ({} bytes) is rejected by the repository's BGP parser (add-path={addpath}): {n}; pdu={}", pdus.len(), f.len(), hexs(f)),
                ))
            }
            Ok(Ok(m)) => m,
        };
        match parsed {
            ParsedMessage::Update(ParsedUpdate::EndOfRib(f)) => out.eor.push(f),
            ParsedMessage::Update(ParsedUpdate::Routes { reach, mp_reach, unreach, mp_unreach, attrs, error_attrs }) => {
                out.err_attr_codes.extend(error_attrs.iter().map(|e| e.attr_code));
                let mut any = false;
                for r in reach.into_iter().chain(mp_reach) {
                    if r.family != family {
                        return Err(finding("wrong-family", shape, format!("PDU {i}: reachable NLRI decoded for family {:?}", r.family)));
                    }
                    out.reach.extend(r.entries);
                    out.nexthops.push(r.nexthop);
                    any = true;
                }
                if any {
                    out.attrs.push(attrs);
                }
                for u in unreach.into_iter().chain(mp_unreach) {
                    if u.family != family {
                        return Err(finding("wrong-family", shape, format!("PDU {i}: withdrawn NLRI decoded for family {:?}", u.family)));
                    }
                    out.unreach.extend(u.entries);
                }
            }
            _ => return Err(finding("pdu-not-update", shape, format!("PDU {i} is not an UPDATE"))),
        }
    }
    Ok(out)
}

/// Compare what the PDUs of ONE record decode to with what was monitored.
pub fn compare_update(dec: &Decoded, it: &UpdateIntent) -> Vec<Finding> {
    let mut vs = Vec::new();
    let shape = it.shape();
    match it.kind {
        Kind::Eor => {
            if dec.eor != vec![it.family] || !dec.reach.is_empty() || !dec.unreach.is_empty() {
                vs.push(finding("eor-differs", shape, format!("monitored End-of-RIB for {:?}; record decodes to EoR {:?}, {} reach, {} unreach", it.family, dec.eor, dec.reach.len(), dec.unreach.len())));
            }
            return vs;
        }
        _ => {}
    }
    let is_reach = it.kind == Kind::Reach;
    let want: Vec<PathNlri> = if is_reach {
        it.entries.iter().map(|e| PathNlri { path_id: if it.addpath { e.path_id } else { 0 }, nlri: e.nlri.clone() }).collect()
    } else {
        it.entries.iter().map(|e| PathNlri { path_id: if it.addpath { e.path_id } else { 0 }, nlri: mkmsg::unreach_canonical(&e.nlri) }).collect()
    };
    let got = if is_reach { &dec.reach } else { &dec.unreach };
    let other = if is_reach { &dec.unreach } else { &dec.reach };
    // next hop first: a missing NEXT_HOP also shows up as an attribute error
    let mut nh_bad = false;
    if is_reach {
        for nh in &dec.nexthops {
            if *nh != it.nexthop {
                nh_bad = true;
                let fam = mkmsg::family_name(it.family);
                if nh.is_none() {
                    // an IPv6 next hop of an AFI-1 family (RFC 8950 session): one root cause for v6 / v6+ll
                    let cls = if it.family.afi() == Family::AFI_IP && !matches!(it.nexthop, Some(Nexthop::V4(_)) | None) { "ipv6-nexthop" } else { nh_class(&it.nexthop) };
                    vs.push(finding(
                        "nexthop-lost",
                        format!("{fam}:{cls}"),
                        format!("monitored next hop {:?}; the record's UPDATE carries no next hop (parser reports attribute errors {:?})", it.nexthop, dec.err_attr_codes),
                    ));
                } else {
                    let padded = match (&it.nexthop, nh) {
                        (Some(Nexthop::V4(a)), Some(Nexthop::V6(b))) => b.octets()[..4] == a.octets() && b.octets()[4..].iter().all(|x| *x == 0),
                        _ => false,
                    };
                    let shape = if padded { "v4->v6:zero-padded".to_string() } else { format!("{fam}:{}->{}", nh_class(&it.nexthop), nh_class(nh)) };
                    vs.push(finding(
                        "nexthop-differs",
                        shape,
                        format!("monitored next hop {:?}; the record's UPDATE decodes to {:?}", it.nexthop, nh),
                    ));
                }
                break;
            }
        }
    }
    if multiset(&want) != multiset(got) || !other.is_empty() {
        let wire_attrs = mkmsg::attrs_wire_len(&it.attrs);
        // cause class: attributes alone exceed what the embedded codec puts into a frame
        // (with a margin for the frame header, the MP_REACH_NLRI header and one NLRI)
        let shape2 = if is_reach && wire_attrs >= 3800 && got.is_empty() { "reach:no-room-beside-attributes".to_string() } else { shape.clone() };
        let (nw, ng) = (want.len(), got.len());
        let lost = multiset(&want).iter().filter(|w| !multiset(got).contains(w)).count();
        vs.push(finding(
            "nlri-differs",
            shape2,
            format!(
                "monitored {nw} {} NLRI (attribute block {wire_attrs} bytes); the record's {} PDU(s) (largest {} bytes) decode to {ng} ({lost} of the monitored ones missing, {} in the opposite list); first monitored {:?}, first decoded {:?}",
                it.kind.name(), dec.frames, dec.max_frame, other.len(), want.first(), got.first()
            ),
        ));
    }
    if is_reach {
        let err: Vec<u8> = dec.err_attr_codes.iter().copied().filter(|c| !(nh_bad && *c == Attribute::NEXTHOP)).collect();
        if !err.is_empty() {
            vs.push(finding("attr-rejected", format!("{}:{}", mkmsg::family_name(it.family), it.attr_class), format!("the repository's parser reports attribute errors (codes {:?}) on the record's UPDATE", err)));
        }
        let want_attrs = expected_attrs(&it.attrs);
        for a in &dec.attrs {
            if mkmsg::attr_keys(a) != mkmsg::attr_keys(&want_attrs) {
                let wc: Vec<u8> = want_attrs.iter().map(|x| x.code()).collect();
                let gc: Vec<u8> = a.iter().map(|x| x.code()).collect();
                vs.push(finding("attrs-differ", it.attr_class.clone(), format!("monitored attribute codes {wc:?}; decoded {gc:?} (values differ if the code lists agree)")));
                break;
            }
        }
    }
    vs
}

// ===========================================================================
// BMP
// ===========================================================================

#[derive(Clone, Debug)]
pub struct PeerHdrIntent {
    /// 0 global, 3 Loc-RIB
    pub peer_type: u8,
    /// L (0x40) and O (0x10) as requested
    pub flags: u8,
    pub addr: IpAddr,
    pub asn: u32,
    pub bgp_id: u32,
}

pub fn bmp_type_name(t: u8) -> &'static str {
    match t {
        0 => "route-monitoring",
        1 => "stats-report",
        2 => "peer-down",
        3 => "peer-up",
        4 => "initiation",
        5 => "termination",
        6 => "route-mirroring",
        _ => "unknown",
    }
}

fn addr16(a: &IpAddr) -> [u8; 16] {
    match a {
        IpAddr::V4(v) => {
            let mut o = [0u8; 16];
            o[12..].copy_from_slice(&v.octets());
            o
        }
        IpAddr::V6(v) => v.octets(),
    }
}

/// RFC 7854 §4.1: the message length field counts the whole message; `bytes`
/// must be exactly one message.  Then the structural reader.
pub fn bmp_read(bytes: &[u8]) -> Result<wire::BmpMsg, Finding> {
    if bytes.len() < 6 {
        return Err(finding("length-mismatch", "short", format!("{} bytes emitted, shorter than the common header", bytes.len())));
    }
    let t = bmp_type_name(bytes[5]);
    let len = u32::from_be_bytes([bytes[1], bytes[2], bytes[3], bytes[4]]) as usize;
    if len != bytes.len() {
        return Err(finding("length-mismatch", t, format!("common header length {len}, message is {} bytes", bytes.len())));
    }
    wire::read_bmp(bytes).map_err(|e| finding("malformed", t, format!("{e}; bytes={}", hexs(bytes))))
}

/// RFC 7854 §4.2: V flag <=> the peer address is IPv6 (16 significant bytes);
/// the other header fields carry what was asked for.
pub fn check_per_peer(m: &wire::BmpMsg, h: &PeerHdrIntent) -> Vec<Finding> {
    let mut vs = Vec::new();
    let t = bmp_type_name(m.msg_type);
    let Some(p) = &m.per_peer else {
        return vec![finding("per-peer-header-missing", t, "message type requires a per-peer header")];
    };
    if p.peer_type != h.peer_type {
        vs.push(finding("per-peer-header-differs", "peer-type", format!("peer type {} written, {} intended", p.peer_type, h.peer_type)));
    }
    if h.peer_type != 3 {
        let want_v = h.addr.is_ipv6();
        if p.v_flag() != want_v {
            vs.push(finding("v-flag-address-mismatch", t, format!("peer address {} but V flag = {}", h.addr, p.v_flag())));
        }
        if p.address != addr16(&h.addr) {
            vs.push(finding("per-peer-header-differs", "address", format!("peer address bytes {} written for {}", hexs(&p.address), h.addr)));
        }
        if (p.flags & 0x50) != (h.flags & 0x50) {
            vs.push(finding("per-peer-header-differs", "flags", format!("flags {:#04x} written, L/O bits {:#04x} intended", p.flags, h.flags & 0x50)));
        }
    }
    if p.asn != h.asn || p.bgp_id != h.bgp_id {
        vs.push(finding("per-peer-header-differs", "as-or-id", format!("AS {} / id {:#x} written, {} / {:#x} intended", p.asn, p.bgp_id, h.asn, h.bgp_id)));
    }
    vs
}

/// Split the bytes ONE encoder call produced into BMP messages by the common
/// header's length field (RFC 7854 §4.1).  An encoder may legitimately answer one
/// monitored UPDATE with several Route Monitoring messages.
pub fn split_bmp(bytes: &[u8]) -> Result<Vec<&[u8]>, Finding> {
    let mut out = Vec::new();
    let mut p = 0usize;
    while p < bytes.len() {
        let rest = &bytes[p..];
        if rest.len() < 6 {
            return Err(finding("length-mismatch", "trailing-bytes", format!("{} byte(s) after the last complete message", rest.len())));
        }
        let t = bmp_type_name(rest[5]);
        let len = u32::from_be_bytes([rest[1], rest[2], rest[3], rest[4]]) as usize;
        if rest[0] != 3 {
            return Err(finding("length-mismatch", if out.is_empty() { "version" } else { "trailing-bytes" }, format!("offset {p}: no BMP message starts here (version byte {}); the length field before it does not delimit the message", rest[0])));
        }
        if len < 6 || len > rest.len() {
            return Err(finding("length-mismatch", t, format!("common header length {len}, {} byte(s) were emitted from the start of this message", rest.len())));
        }
        out.push(&rest[..len]);
        p += len;
    }
    Ok(out)
}

/// RFC 7854 §4.6 Route Monitoring: `bytes` = everything the encoder emitted for ONE
/// monitored UPDATE (one message, or several if the encoder splits into records).
pub fn check_route_monitoring(bytes: &[u8], h: &PeerHdrIntent, it: &UpdateIntent) -> Vec<Finding> {
    let recs = match split_bmp(bytes) {
        Ok(r) => r,
        Err(f) => return vec![f],
    };
    if recs.is_empty() {
        return vec![finding("record-missing", it.shape(), "nothing was emitted")];
    }
    let mut vs: Vec<Finding> = Vec::new();
    let mut all: Vec<&[u8]> = Vec::new();
    let mut two_byte = false;
    let mut multi = false;
    for rec in &recs {
        let m = match bmp_read(rec) {
            Ok(m) => m,
            Err(f) => return vec![f],
        };
        for f in check_per_peer(&m, h) {
            if !vs.iter().any(|x: &Finding| x.clause == f.clause && x.shape == f.shape) {
                vs.push(f);
            }
        }
        let wire::BmpBody::RouteMonitoring { pdus } = &m.body else {
            vs.push(finding("wrong-message-type", bmp_type_name(m.msg_type), "Route Monitoring intended"));
            return vs;
        };
        if pdus.len() != 1 && !multi {
            multi = true;
            vs.push(finding(
                "multiple-pdus-in-record",
                "",
                format!(
                    "RFC 7854 §4.6: one Route Monitoring message carries ONE BGP UPDATE PDU; this {}-byte message carries {} ({} {} NLRI of {} monitored, attribute block {} bytes, add-path={})",
                    rec.len(), pdus.len(), it.entries.len(), it.kind.name(), mkmsg::family_name(it.family), mkmsg::attrs_wire_len(&it.attrs), it.addpath
                ),
            ));
        }
        two_byte = m.per_peer.as_ref().is_some_and(|p| p.a_flag());
        for sp in pdus {
            all.push(sp.of(rec));
        }
    }
    match decode_pdus(&all, it.family, it.addpath, two_byte, &it.shape()) {
        Err(f) => vs.push(f),
        Ok(dec) => vs.extend(compare_update(&dec, it)),
    }
    vs
}

fn open_eq(a: &Open, b: &Open) -> bool {
    a.as_number == b.as_number && a.holdtime == b.holdtime && a.router_id == b.router_id && a.capability == b.capability
}

fn open_diff(field: &str, emitted: &Open, real: &Open) -> Vec<Finding> {
    let mut vs = Vec::new();
    let mut d = |name: &str, a: String, b: String| {
        if a != b {
            vs.push(finding(&format!("peerup-{field}-open-wrong"), name, format!("Peer Up {field} OPEN has {name} {a}; the OPEN really {field} has {b}")));
        }
    };
    d("as", emitted.as_number.to_string(), real.as_number.to_string());
    d("hold-time", emitted.holdtime.seconds().to_string(), real.holdtime.seconds().to_string());
    d("bgp-id", format!("{:#010x}", emitted.router_id), format!("{:#010x}", real.router_id));
    d("capabilities", format!("{:?}", emitted.capability), format!("{:?}", real.capability));
    vs
}

fn parse_open(bytes: &[u8], what: &str) -> Result<Open, Finding> {
    if let Err(e) = wire::read_frame(bytes, 4096) {
        return Err(finding("peerup-open-malformed", what, format!("{what} OPEN: {e}; pdu={}", hexs(bytes))));
    }
    let mut c = PeerCodec::new();
    match guarded(|| c.parse_message(bytes)) {
        Ok(Ok(ParsedMessage::Open(o))) => Ok(o),
        Ok(Ok(_)) => Err(finding("peerup-open-malformed", what, "not an OPEN")),
        Ok(Err(n)) => Err(finding("peerup-open-does-not-parse", what, format!("{what} OPEN rejected by the repository's parser: {n}; pdu={}", hexs(bytes)))),
        Err(p) => Err(finding("peerup-open-does-not-parse", what, format!("{what} OPEN: parser panicked: {p}"))),
    }
}

/// RFC 7854 §4.10 Peer Up: local address (16 bytes, IPv4 in the low 4), ports,
/// sent OPEN, received OPEN.  `sent` / `recv` = the OPENs really exchanged.
#[allow(clippy::too_many_arguments)]
pub fn check_peer_up(bytes: &[u8], h: &PeerHdrIntent, local_addr: IpAddr, local_port: u16, remote_port: u16, sent: &Open, recv: &Open) -> Vec<Finding> {
    let m = match bmp_read(bytes) {
        Ok(m) => m,
        Err(f) => return vec![f],
    };
    let mut vs = check_per_peer(&m, h);
    let wire::BmpBody::PeerUp { local_addr: la, local_port: lp, remote_port: rp, sent_open, recv_open, info } = &m.body else {
        vs.push(finding("wrong-message-type", bmp_type_name(m.msg_type), "Peer Up intended"));
        return vs;
    };
    if *la != addr16(&local_addr) {
        vs.push(finding("peerup-local-address", if local_addr.is_ipv6() { "v6" } else { "v4" }, format!("local address bytes {} written for {}", hexs(la), local_addr)));
    }
    if *lp != local_port || *rp != remote_port {
        vs.push(finding("peerup-ports", "", format!("ports {lp}/{rp} written, {local_port}/{remote_port} intended")));
    }
    if !info.is_empty() {
        vs.push(finding("peerup-trailing-data", "", format!("{} information TLV(s) after the OPENs although none was intended", info.len())));
    }
    match parse_open(sent_open.of(bytes), "sent") {
        Err(f) => vs.push(f),
        Ok(o) => {
            if !open_eq(&o, sent) {
                vs.extend(open_diff("sent", &o, sent));
            }
        }
    }
    match parse_open(recv_open.of(bytes), "received") {
        Err(f) => vs.push(f),
        Ok(o) => {
            if !open_eq(&o, recv) {
                vs.extend(open_diff("received", &o, recv));
            }
        }
    }
    vs
}

#[derive(Clone, Debug)]
pub enum DownIntent {
    /// reason 1 / 3 with the NOTIFICATION
    LocalNotification(Notification),
    RemoteNotification(Notification),
    /// reason 2 with the FSM event code
    LocalFsm(u16),
    /// reason 4
    RemoteUnexpected,
    /// reason 5
    Deconfigured,
}

/// RFC 7854 §4.9 Peer Down.
pub fn check_peer_down(bytes: &[u8], h: &PeerHdrIntent, it: &DownIntent) -> Vec<Finding> {
    let m = match bmp_read(bytes) {
        Ok(m) => m,
        Err(f) => return vec![f],
    };
    let mut vs = check_per_peer(&m, h);
    let wire::BmpBody::PeerDown { reason, notification, fsm_code, .. } = &m.body else {
        vs.push(finding("wrong-message-type", bmp_type_name(m.msg_type), "Peer Down intended"));
        return vs;
    };
    let want_reason = match it {
        DownIntent::LocalNotification(_) => 1,
        DownIntent::LocalFsm(_) => 2,
        DownIntent::RemoteNotification(_) => 3,
        DownIntent::RemoteUnexpected => 4,
        DownIntent::Deconfigured => 5,
    };
    if *reason != want_reason {
        vs.push(finding("peerdown-reason", format!("{want_reason}"), format!("reason {reason} written, {want_reason} intended")));
        return vs;
    }
    match it {
        DownIntent::LocalNotification(n) | DownIntent::RemoteNotification(n) => {
            let Some(sp) = notification else {
                vs.push(finding("peerdown-notification-missing", format!("{want_reason}"), "no NOTIFICATION PDU"));
                return vs;
            };
            let pdu = sp.of(bytes);
            let mut c = PeerCodec::new();
            match guarded(|| c.parse_message(pdu)) {
                Ok(Ok(ParsedMessage::Notification(got))) => {
                    if got != *n {
                        vs.push(finding("peerdown-notification-differs", format!("{}/{}", n.notification_code(), n.notification_subcode()), format!("NOTIFICATION {:?} written, {:?} intended", got, n)));
                    }
                }
                Ok(Ok(_)) => vs.push(finding("peerdown-notification-differs", "type", "embedded PDU is not a NOTIFICATION")),
                Ok(Err(e)) => vs.push(finding("peerdown-notification-does-not-parse", "", format!("{e}; pdu={}", hexs(pdu)))),
                Err(p) => vs.push(finding("peerdown-notification-does-not-parse", "panic", p)),
            }
        }
        DownIntent::LocalFsm(c) => {
            if *fsm_code != Some(*c) {
                vs.push(finding("peerdown-fsm-code", "", format!("FSM event code {:?} written, {c} intended", fsm_code)));
            }
        }
        _ => {}
    }
    vs
}

/// RFC 7854 §4.3 / §4.4 Initiation: information TLVs.
pub fn check_initiation(bytes: &[u8], tlvs: &[(u16, Vec<u8>)]) -> Vec<Finding> {
    let m = match bmp_read(bytes) {
        Ok(m) => m,
        Err(f) => return vec![f],
    };
    let wire::BmpBody::Initiation { tlvs: got } = &m.body else {
        return vec![finding("wrong-message-type", bmp_type_name(m.msg_type), "Initiation intended")];
    };
    let g: Vec<(u32, Vec<u8>)> = got.iter().map(|t| (t.typ, t.value.of(bytes).to_vec())).collect();
    let w: Vec<(u32, Vec<u8>)> = tlvs.iter().map(|(t, v)| (*t as u32, v.clone())).collect();
    if g != w {
        return vec![finding("initiation-tlvs-differ", "", format!("{} TLV(s) intended, reader finds {} with different content", w.len(), g.len()))];
    }
    vec![]
}

// ===========================================================================
// MRT
// ===========================================================================

#[derive(Clone, Debug)]
pub struct MpIntent {
    pub remote_as: u32,
    pub local_as: u32,
    pub remote_addr: IpAddr,
    pub local_addr: IpAddr,
}

fn ip_bytes(a: &IpAddr) -> Vec<u8> {
    match a {
        IpAddr::V4(v) => v.octets().to_vec(),
        IpAddr::V6(v) => v.octets().to_vec(),
    }
}

/// RFC 6396 §2: header length == bytes after the 12-byte header; `bytes` is one record.
pub fn mrt_len_check(bytes: &[u8]) -> Result<(u16, u16), Finding> {
    if bytes.len() < 12 {
        return Err(finding("length-mismatch", "short", format!("{} bytes emitted, shorter than the MRT header", bytes.len())));
    }
    let t = u16::from_be_bytes([bytes[4], bytes[5]]);
    let st = u16::from_be_bytes([bytes[6], bytes[7]]);
    let len = u32::from_be_bytes([bytes[8], bytes[9], bytes[10], bytes[11]]) as usize;
    if len != bytes.len() - 12 {
        return Err(finding("length-mismatch", format!("{t}/{st}"), format!("header length {len}, {} bytes follow the header", bytes.len() - 12)));
    }
    Ok((t, st))
}

/// Diagnosis only (never a verdict): does the BGP4MP body read cleanly under an
/// alternative layout (AS width `aw`, local address present or not)?  Returns
/// the number of BGP frames found after the header fields.
fn bgp4mp_alt(bytes: &[u8], aw: usize, local_present: bool) -> Option<usize> {
    let mut p = 12 + 2 * aw + 2;
    let afi = u16::from_be_bytes([*bytes.get(p)?, *bytes.get(p + 1)?]);
    p += 2;
    let al = match afi {
        1 => 4,
        2 => 16,
        _ => return None,
    };
    p += al;
    if local_present {
        p += al;
    }
    let rest = bytes.get(p..)?;
    let frames = wire::split_stream(rest).ok()?;
    if frames.is_empty() || frames.iter().any(|s| s.of(rest)[..16].iter().any(|b| *b != 0xff)) {
        return None;
    }
    Some(frames.len())
}

/// Split the bytes one encoder call produced into MRT records (RFC 6396 §2).
pub fn split_mrt(bytes: &[u8]) -> Result<Vec<&[u8]>, Finding> {
    let mut out = Vec::new();
    let mut p = 0usize;
    while p < bytes.len() {
        let rest = &bytes[p..];
        if rest.len() < 12 {
            return Err(finding("length-mismatch", "trailing-bytes", format!("{} byte(s) after the last complete record", rest.len())));
        }
        let t = u16::from_be_bytes([rest[4], rest[5]]);
        let st = u16::from_be_bytes([rest[6], rest[7]]);
        let len = u32::from_be_bytes([rest[8], rest[9], rest[10], rest[11]]) as usize;
        if len > rest.len() - 12 {
            return Err(finding("length-mismatch", format!("{t}/{st}"), format!("header length {len}, {} bytes follow the header", rest.len() - 12)));
        }
        if !out.is_empty() && !matches!(t, 12 | 13 | 16 | 17) {
            return Err(finding("length-mismatch", "trailing-bytes", format!("offset {p}: no MRT record of a known type starts here (type {t}); the length field before it does not delimit the record")));
        }
        out.push(&rest[..12 + len]);
        p += 12 + len;
    }
    Ok(out)
}

/// What one BGP4MP record yields for the content comparison.
struct MpRead<'a> {
    pdus: Vec<&'a [u8]>,
    addpath: bool,
    as4: bool,
}

/// One BGP4MP record: header clauses; Ok = the embedded PDU(s).
fn check_bgp4mp_record<'a>(bytes: &'a [u8], mp: &MpIntent, addpath: bool, vs: &mut Vec<Finding>) -> Option<MpRead<'a>> {
    let (t, st) = match mrt_len_check(bytes) {
        Ok(x) => x,
        Err(f) => {
            vs.push(f);
            return None;
        }
    };
    if t != wire::MRT_BGP4MP && t != wire::MRT_BGP4MP_ET {
        vs.push(finding("wrong-record-type", format!("{t}/{st}"), "BGP4MP intended"));
        return None;
    }
    let fam_mix = format!("remote-{}:local-{}", if mp.remote_addr.is_ipv6() { "v6" } else { "v4" }, if mp.local_addr.is_ipv6() { "v6" } else { "v4" });
    let rec = match wire::read_mrt(bytes) {
        Ok(r) => r,
        Err(e) => {
            // classify by the alternative reading that does work (diagnosis)
            let rfc_aw = if matches!(st, 4 | 5 | 7 | 9 | 11) { 4 } else { 2 };
            let other_aw = 6 - rfc_aw;
            if let Some(n) = bgp4mp_alt(bytes, other_aw, true) {
                vs.push(finding(
                    "subtype-as-width",
                    format!("subtype{st}"),
                    format!("RFC 6396 §4.4 / RFC 8050 §3: subtype {st} has {rfc_aw}-byte AS fields, but the record only reads cleanly ({n} BGP frame(s)) with {other_aw}-byte AS fields; RFC reader: {e}"),
                ));
                return None;
            }
            if let Some(n) = bgp4mp_alt(bytes, rfc_aw, false) {
                vs.push(finding(
                    "afi-address-mismatch",
                    fam_mix,
                    format!("RFC 6396 §4.4.2: peer AND local address, both of the header's address family; the record only reads cleanly ({n} BGP frame(s)) when the local address is taken as absent (peer {} local {}); RFC reader: {e}", mp.remote_addr, mp.local_addr),
                ));
                return None;
            }
            if let Some(n) = bgp4mp_alt(bytes, other_aw, false) {
                vs.push(finding(
                    "subtype-as-width",
                    format!("subtype{st}"),
                    format!("subtype {st} has {rfc_aw}-byte AS fields but the record reads only with {other_aw}-byte AS fields (and without a local address, {n} frame(s)); RFC reader: {e}"),
                ));
                return None;
            }
            if let Some(n) = bgp4mp_alt(bytes, rfc_aw, true) {
                if n > 1 {
                    // header is fine, several BGP messages follow
                    vs.push(finding(
                        "multiple-pdus-in-record",
                        "",
                        format!("RFC 6396 §4.4.2: a BGP4MP_MESSAGE record carries one BGP message; this {}-byte record carries {n}", bytes.len()),
                    ));
                    let p = 12 + 2 * rfc_aw + 4 + 2 * ip_bytes(&mp.remote_addr).len();
                    let rest = &bytes[p..];
                    let spans = wire::split_stream(rest).unwrap_or_default();
                    return Some(MpRead { pdus: spans.iter().map(|s| s.of(rest)).collect(), addpath: matches!(st, 8..=11), as4: rfc_aw == 4 });
                }
            }
            vs.push(finding("malformed", format!("16/{st}"), format!("{e}; bytes={}", hexs(bytes))));
            return None;
        }
    };
    let wire::MrtBody::Bgp4mpMessage { as4, addpath: rec_addpath, peer_as, local_as, afi, peer_ip, local_ip, pdu, local, .. } = &rec.body else {
        vs.push(finding("wrong-record-type", format!("{t}/{st}"), "BGP4MP message intended"));
        return None;
    };
    // AS numbers as an RFC reader sees them
    let trunc = |a: u32| if *as4 { a } else { a & 0xffff };
    if *peer_as != trunc(mp.remote_as) || *local_as != trunc(mp.local_as) || (!*as4 && (mp.remote_as > 0xffff || mp.local_as > 0xffff)) {
        vs.push(finding("subtype-as-width", format!("subtype{st}"), format!("an RFC 6396/8050 reader of subtype {st} reads peer AS {peer_as} / local AS {local_as}; {} / {} were monitored", mp.remote_as, mp.local_as)));
    }
    // AFI <=> address lengths, both addresses
    let want_afi = if mp.remote_addr.is_ipv6() { 2 } else { 1 };
    if *afi != want_afi || *peer_ip != ip_bytes(&mp.remote_addr) {
        vs.push(finding("afi-address-mismatch", fam_mix.clone(), format!("AFI {afi} / peer address {} written for {}", hexs(peer_ip), mp.remote_addr)));
    }
    if mp.local_addr.is_ipv6() == mp.remote_addr.is_ipv6() && *local_ip != ip_bytes(&mp.local_addr) {
        vs.push(finding("afi-address-mismatch", fam_mix.clone(), format!("local address {} written for {}", hexs(local_ip), mp.local_addr)));
    }
    if *local {
        vs.push(finding("subtype-local", format!("subtype{st}"), "a _LOCAL subtype was written for a received message"));
    }
    if *rec_addpath != addpath {
        vs.push(finding("subtype-addpath", format!("subtype{st}"), format!("subtype {st} states add-path={rec_addpath}; the monitored session has add-path={addpath}")));
    }
    Some(MpRead { pdus: vec![pdu.of(bytes)], addpath: *rec_addpath, as4: *as4 })
}

/// RFC 6396 §4.4.2/3 + RFC 8050 §3: `bytes` = everything the encoder emitted for ONE
/// monitored BGP message (one BGP4MP record, or several if the encoder splits).
/// `it` = None: the body is some other BGP message given as `other`.
pub fn check_bgp4mp(bytes: &[u8], mp: &MpIntent, it: Option<&UpdateIntent>, other: Option<&Message>) -> Vec<Finding> {
    let recs = match split_mrt(bytes) {
        Ok(r) => r,
        Err(f) => return vec![f],
    };
    if recs.is_empty() {
        return vec![finding("record-missing", "bgp4mp", "nothing was emitted")];
    }
    let addpath = it.is_some_and(|i| i.addpath);
    let mut vs: Vec<Finding> = Vec::new();
    let mut all: Vec<&[u8]> = Vec::new();
    let (mut rec_addpath, mut as4) = (addpath, true);
    for rec in &recs {
        let mut one = Vec::new();
        let r = check_bgp4mp_record(rec, mp, addpath, &mut one);
        for f in one {
            if !vs.iter().any(|x: &Finding| x.clause == f.clause && x.shape == f.shape) {
                vs.push(f);
            }
        }
        match r {
            None => return vs,
            Some(r) => {
                rec_addpath = r.addpath;
                as4 = r.as4;
                all.extend(r.pdus);
            }
        }
    }
    if let Some(it) = it {
        match decode_pdus(&all, it.family, rec_addpath, !as4, &it.shape()) {
            Err(f) => vs.push(f),
            Ok(dec) => {
                // compare under the RECORD's add-path statement
                let mut it2 = it.clone();
                it2.addpath = rec_addpath && it.addpath;
                vs.extend(compare_update(&dec, &it2));
            }
        }
    } else if let Some(msg) = other {
        let pdu = all.first().copied().unwrap_or(&[]);
        let mut c = PeerCodec::new();
        let ok = all.len() == 1
            && match (guarded(|| c.parse_message(pdu)), msg) {
                (Ok(Ok(ParsedMessage::Open(a))), Message::Open(b)) => open_eq(&a, b),
                (Ok(Ok(ParsedMessage::Notification(a))), Message::Notification(b)) => a == *b,
                (Ok(Ok(ParsedMessage::Keepalive)), Message::Keepalive) => true,
                (Ok(Ok(ParsedMessage::RouteRefresh { family: a })), Message::RouteRefresh { family: b }) => a == *b,
                _ => false,
            };
        if !ok {
            vs.push(finding("message-differs", "", format!("embedded BGP message does not parse back to the one monitored; pdu={}", hexs(pdu))));
        }
    }
    vs
}

#[derive(Clone, Debug)]
pub struct PeerIntent {
    pub bgp_id: u32,
    pub addr: IpAddr,
    pub asn: u32,
}

/// RFC 6396 §4.3.1 PEER_INDEX_TABLE.  Returns the findings and the number of
/// peers the table declares (None if unreadable).
pub fn check_peer_index_table(bytes: &[u8], collector: u32, peers: &[PeerIntent]) -> (Vec<Finding>, Option<usize>) {
    let (t, st) = match mrt_len_check(bytes) {
        Ok(x) => x,
        Err(f) => return (vec![f], None),
    };
    let rec = match wire::read_mrt(bytes) {
        Ok(r) => r,
        Err(e) => return (vec![finding("malformed", format!("{t}/{st}"), format!("{e}; bytes={}", hexs(bytes)))], None),
    };
    let wire::MrtBody::PeerIndexTable { collector_id, view_name, peers: got } = &rec.body else {
        return (vec![finding("wrong-record-type", format!("{t}/{st}"), "PEER_INDEX_TABLE intended")], None);
    };
    let mut vs = Vec::new();
    if *collector_id != collector || view_name.len != 0 {
        vs.push(finding("peer-index-header", "", format!("collector id {collector_id:#x} / view name length {} written, {collector:#x} / 0 intended", view_name.len)));
    }
    if got.len() != peers.len() {
        vs.push(finding("peer-count", "", format!("peer count {} written, {} peers intended", got.len(), peers.len())));
    }
    for (i, (g, w)) in got.iter().zip(peers.iter()).enumerate() {
        let v6 = g.peer_type & 1 != 0;
        if v6 != w.addr.is_ipv6() || g.addr != ip_bytes(&w.addr) {
            vs.push(finding("afi-address-mismatch", "peer-index-entry", format!("entry {i}: type {:#x} address {} written for {}", g.peer_type, hexs(&g.addr), w.addr)));
        }
        if g.asn != w.asn || g.bgp_id != w.bgp_id {
            vs.push(finding("subtype-as-width", "peer-index-entry", format!("entry {i}: an RFC reader sees AS {} id {:#x}; AS {} id {:#x} intended (type byte {:#x})", g.asn, g.bgp_id, w.asn, w.bgp_id, g.peer_type)));
        }
    }
    (vs, Some(got.len()))
}

#[derive(Clone, Debug)]
pub struct RibEntryIntent {
    pub peer_index: u16,
    pub nexthop: Option<Nexthop>,
    pub attrs: Vec<Attribute>,
    pub attr_class: String,
}

/// Prefix as RFC 4271 §4.3 / RFC 6396 §4.3.2 encodes it: (bits, ceil(bits/8) bytes).
pub fn prefix_wire(n: &Nlri) -> Option<(u8, Vec<u8>, u16)> {
    match n {
        Nlri::V4(p) => Some((p.mask, p.addr.octets()[..(p.mask as usize).div_ceil(8)].to_vec(), 1)),
        Nlri::V6(p) => Some((p.mask, p.addr.octets()[..(p.mask as usize).div_ceil(8)].to_vec(), 2)),
        _ => None,
    }
}

/// Parse an attribute block (without NEXT_HOP / MP_REACH) with the repository's
/// parser by wrapping it into an UPDATE without NLRI.
fn parse_attr_block(block: &[u8]) -> Result<(Vec<Attribute>, Vec<u8>), String> {
    if block.is_empty() {
        return Ok((vec![], vec![]));
    }
    let total = 19 + 4 + block.len();
    if total > 65535 {
        return Err("attribute block too large to wrap".into());
    }
    let mut f = vec![0xffu8; 16];
    f.extend_from_slice(&(total as u16).to_be_bytes());
    f.push(2);
    f.extend_from_slice(&[0, 0]);
    f.extend_from_slice(&(block.len() as u16).to_be_bytes());
    f.extend_from_slice(block);
    let mut c = PeerCodec::new(); // RFC 6396 §4.3.4: AS_PATH is always 4-byte in TABLE_DUMP_V2
    match guarded(|| c.parse_message(&f)) {
        Err(p) => Err(format!("parser panicked: {p}")),
        Ok(Err(n)) => Err(format!("{n}")),
        Ok(Ok(ParsedMessage::Update(ParsedUpdate::Routes { attrs, error_attrs, .. }))) => Ok((attrs, error_attrs.iter().map(|e| e.attr_code).collect())),
        Ok(Ok(_)) => Err("not a route UPDATE".into()),
    }
}

/// RFC 6396 §4.3.2 / §4.3.4 RIB_IPV4_UNICAST / RIB_IPV6_UNICAST (and the RFC 8050
/// add-path subtypes as far as the reader is concerned).  `n_peers`: size of the
/// PEER_INDEX_TABLE written before (None = not checked).
pub fn check_rib(bytes: &[u8], seq: u32, prefix: &Nlri, entries: &[RibEntryIntent], n_peers: Option<usize>) -> Vec<Finding> {
    let (t, st) = match mrt_len_check(bytes) {
        Ok(x) => x,
        Err(f) => return vec![f],
    };
    let Some((bits, pbytes, want_afi)) = prefix_wire(prefix) else {
        return vec![];
    };
    let fam = if want_afi == 1 { "ipv4" } else { "ipv6" };
    let rec = match wire::read_mrt(bytes) {
        Ok(r) => r,
        Err(e) => return vec![finding("malformed", format!("rib-{fam}"), format!("{e}; bytes={}", hexs(bytes)))],
    };
    let wire::MrtBody::Rib { afi, safi, seq: gseq, prefix_bits, prefix: gp, entries: got, .. } = &rec.body else {
        return vec![finding("wrong-record-type", format!("{t}/{st}"), "RIB record intended")];
    };
    let mut vs = Vec::new();
    if *afi != want_afi || *safi != 1 {
        vs.push(finding("afi-address-mismatch", format!("rib-{fam}"), format!("subtype {st} (AFI {afi} SAFI {safi}) written for prefix {prefix:?}")));
    }
    if *gseq != seq || *prefix_bits != bits || *gp != pbytes {
        vs.push(finding("rib-prefix-differs", fam, format!("seq {gseq} prefix {}/{prefix_bits} written; seq {seq} {}/{bits} intended", hexs(gp), hexs(&pbytes))));
    }
    if got.len() != entries.len() {
        vs.push(finding("entry-count", fam, format!("entry count {} written, {} entries intended", got.len(), entries.len())));
    }
    for (i, (g, w)) in got.iter().zip(entries.iter()).enumerate() {
        if g.peer_index != w.peer_index {
            vs.push(finding("peer-index-differs", fam, format!("entry {i}: peer index {} written, {} intended", g.peer_index, w.peer_index)));
        }
        if let Some(n) = n_peers {
            if g.peer_index as usize >= n {
                vs.push(finding("peer-index-out-of-range", fam, format!("entry {i}: peer index {} but the PEER_INDEX_TABLE has {n} entries", g.peer_index)));
            }
        }
        // next hop: NEXT_HOP (IPv4 RIB) or the abbreviated MP_REACH_NLRI (RFC 6396 §4.3.4)
        let mut nh: Option<Nexthop> = None;
        let mut nh_err: Option<String> = None;
        let mut plain: Vec<u8> = Vec::new();
        for a in &g.attrs {
            let val = a.value.of(bytes);
            if a.code == 3 {
                if val.len() == 4 {
                    nh = Nexthop::from_bytes(val);
                } else {
                    nh_err = Some(format!("NEXT_HOP attribute with {} bytes (RFC 4271 §5.1.3: 4)", val.len()));
                }
            } else if a.code == wire::ATTR_MP_REACH {
                match wire::mrt_mp_reach_nexthop(bytes, a) {
                    Ok(sp) => {
                        let b = sp.of(bytes);
                        match b.len() {
                            4 | 16 | 32 => nh = Nexthop::from_bytes(b),
                            n => nh_err = Some(format!("abbreviated MP_REACH_NLRI next hop of {n} bytes")),
                        }
                    }
                    Err(e) => nh_err = Some(e),
                }
            } else {
                plain.extend_from_slice(a.span().of(bytes));
            }
        }
        if let Some(e) = nh_err {
            let cls = if want_afi == 1 && !matches!(w.nexthop, Some(Nexthop::V4(_)) | None) { "ipv6-nexthop" } else { nh_class(&w.nexthop) };
            vs.push(finding("nexthop-malformed", format!("{fam}:{cls}"), format!("entry {i}: {e}; monitored next hop {:?}", w.nexthop)));
        } else if nh != w.nexthop {
            let cl = if nh.is_none() { "nexthop-lost" } else { "nexthop-differs" };
            vs.push(finding(cl, format!("{fam}:{}", nh_class(&w.nexthop)), format!("entry {i}: monitored next hop {:?}, record carries {:?}", w.nexthop, nh)));
        }
        match parse_attr_block(&plain) {
            Err(e) => vs.push(finding("attrs-do-not-parse", w.attr_class.clone(), format!("entry {i}: {e}"))),
            Ok((attrs, errs)) => {
                if !errs.is_empty() {
                    vs.push(finding("attr-rejected", w.attr_class.clone(), format!("entry {i}: the repository's parser reports attribute errors (codes {errs:?})")));
                }
                let want = expected_attrs(&w.attrs);
                if mkmsg::attr_keys(&attrs) != mkmsg::attr_keys(&want) {
                    let wc: Vec<u8> = want.iter().map(|x| x.code()).collect();
                    let gc: Vec<u8> = attrs.iter().map(|x| x.code()).collect();
                    vs.push(finding("attrs-differ", w.attr_class.clone(), format!("entry {i}: monitored attribute codes {wc:?}; decoded {gc:?}")));
                }
            }
        }
    }
    vs
}
