// shared module (stub)
