// mkmsg -- generators of VALID BGP values for rustybgp-packet.
//
// Crate-agnostic: refers to packet types only through `rustybgp_packet::...`,
// uses std only besides that, no inner attributes.  Compiles as `mod mkmsg` of
// the hx crate and when `include!`d into a module of the daemon crate.
//
// Every value produced here is (a) well-formed according to the RFC quoted next
// to it and (b) accepted by the repository's own decoder; c04.rs (smoke test)
// checks (b) for all of them.  Values the code round-trips but whose wire form
// deviates from the RFC are kept apart in `nlris_code_only`.
//
// ---------------------------------------------------------------------------
// PUBLIC API (summary; details at each item)
// ---------------------------------------------------------------------------
// Families
//   families() -> Vec<Family>                  the 20 families of bgp.rs, fixed order
//   family_name(Family) -> &'static str        "ipv4", "ipv6-vpn", "l2vpn-evpn", ...
//   family_index(Family) -> Option<usize>      index into families()
// NLRI
//   enum NlriSize { Min, Max, All }
//   nlris(family, size) -> Vec<Nlri>           Min/Max: exactly one value of minimal /
//                                              maximal encoded size; All: every named
//                                              value (distinct), first = Min, includes Max
//   nlris_named(family) -> Vec<(&'static str, Nlri)>   same as All, with names
//   nlri_nth(family, i, big) -> Nlri           injective in i (i < 2^24): bulk supply for
//                                              frame filling; big = maximal-size shape,
//                                              !big = smallest shape that can carry i
//   nlri_bulk(family, n, big) -> Vec<Nlri>     nlri_nth for i in 0..n
//   nlris_code_only(family) -> Vec<(&'static str, Nlri)>   round-trips through the
//                                              code but wire form is NOT RFC-conformant
//   nlri_has_label_stack(&Nlri) -> bool        >1 MPLS label (RFC 8277 §2.1: only legal
//                                              with the Multiple Labels capability, which
//                                              the code does not model; RFC 3107 allowed it)
//   nlri_wire_len(&Nlri) -> usize              encoded size without path-id
//   unreach_canonical(&Nlri) -> Nlri           what a receiver must return for this NLRI
//                                              when it arrives in a withdrawal (labeled
//                                              unicast: label ignored -> label 0)
//   path_entries(&[Nlri], addpath) -> Vec<PathNlri>   path_id = i+1 if addpath else 0
// Next hops
//   nexthops(family) -> Vec<NexthopCase>       RFC-valid next hops per family
//   default_nexthop(family) -> Option<Nexthop> the natural one (AFI 1: IPv4, AFI 2: IPv6,
//                                              flowspec: None)
// Attributes   (NEXT_HOP / MP_REACH / MP_UNREACH are NOT attributes here: the code
//               models them as Update::Reach.nexthop and synthesises them on encode)
//   attr_kinds() -> Vec<(&'static str, Vec<Attribute>)>   every kind, several values each
//   attr_kind_fate(name) -> AttrFate           what a conforming receiver does with it
//   base_attrs() -> Vec<Attribute>             ORIGIN IGP + AS_PATH [SEQ 65001]
//   attribute_sets() -> Vec<(String, Vec<Attribute>)>  base, base+each kind value,
//                                              "typical", "all-kinds"
//   attr_block_of_size(target) -> (Vec<Attribute>, usize)  block whose 4-byte-AS wire
//                                              size is target (or as close as possible)
//   attrs_wire_len(&[Attribute]) -> usize      sum of encode_to_bytes lengths
//   as_path(&[(u8, Vec<u32>)]) -> Attribute  etc. (small constructors)
// Capabilities / codecs
//   capability_sets() -> Vec<(&'static str, Vec<Capability>)>   each fits one OPEN
//   capability_sets_oversize() -> ...          need > 255 bytes of optional parameters
//                                              (RFC 9072); the encoder cannot emit them
//   caps_wire_len(&[Capability]) -> usize
//   session_caps(family, as4, ext_msg, ext_nh, addpath_mode) -> Vec<Capability>
//   struct PairDesc { l_as4, r_as4, l_ext_msg, r_ext_msg, l_ext_nh, r_ext_nh,
//                     l_addpath, r_addpath } + .two_byte_as() .ext_msg() .ext_nh()
//                     .tx_addpath() .max_len() .name()
//   codec_pairs_desc(family) -> Vec<(PairDesc, PeerCodec, PeerCodec)>  all 1024
//   codec_pairs(family) -> Vec<(String, PeerCodec /*sender*/, PeerCodec /*receiver*/)>
//   codec_pairs_quick(family) -> same, 16-pair subset
//   default_codec_pair(family) -> (PeerCodec, PeerCodec)   AS4 both, nothing else
//   pair_from_desc(family, &PairDesc) -> (PeerCodec, PeerCodec)
// Messages
//   reach(family, entries, nexthop, attrs) / unreach(family, entries) -> Message
//   updates(family, n, big, addpath, &attrs) -> Vec<(String, Message)>  reach/unreach/eor
//   opens() / notifications() / route_refreshes() -> Vec<(String, Message)>
//   keepalive() -> Message
// Encoding / decoding
//   encode(&mut codec, &msg) -> Result<Vec<Vec<u8>>, String>       frames
//   encode_counted(&mut codec, &msg) -> Result<(usize, Vec<u8>), String>  (returned
//                                              wire count, raw buffer)
//   split_frames(&[u8]) -> Result<Vec<Vec<u8>>, String>
//   decode_frame(&mut codec, &[u8]) -> Result<ParsedMessage, Notification>
//   nlri_from_wire(family, addpath, &[u8]) -> Result<Vec<PathNlri>, String>  decode
//                                              hand-written NLRI bytes with the code
// Panics: `encode*` call the subject directly; wrap in vx::report::catch.
// ---------------------------------------------------------------------------

use rustybgp_packet::bgp::{
    Attribute, Capability, Family, HoldTime, Ipv4Net, Ipv6Net, Message, Nexthop, Nlri,
    Notification, Open, ParsedMessage, ParsedUpdate, PathNlri, PeerCodec, Update,
};
use rustybgp_packet::evpn::{
    Esi, EthernetAutoDiscoveryRoute, EthernetIpPrefixRoute, EthernetSegmentRoute, EvpnNlri,
    InclusiveMulticastEthernetTag, MacIpAdvertisement,
};
use rustybgp_packet::flowspec::{
    FlowspecV4Component as F4, FlowspecV4Nlri, FlowspecV6Component as F6, FlowspecV6Nlri,
    FlowspecVpnV4Nlri, FlowspecVpnV6Nlri, Op,
};
use rustybgp_packet::labeled::{LabeledV4Nlri, LabeledV6Nlri};
use rustybgp_packet::ls::{
    BgpLsLinkNlri, BgpLsNlri, BgpLsNodeNlri, BgpLsPrefixNlri, BgpLsSrv6SidNlri, LinkDescTlv,
    NodeDescriptor, PrefixDescTlv,
};
use rustybgp_packet::mpls::{MplsLabel, MplsLabelStack};
use rustybgp_packet::mup::{
    MupDirectSegmentDiscoveryRoute, MupInterworkSegmentDiscoveryRoute, MupNlri,
    MupType1SessionTransformedRoute, MupType2SessionTransformedRoute,
};
use rustybgp_packet::rd::RouteDistinguisher;
use rustybgp_packet::rtc::{MatchType, RtcNlri};
use rustybgp_packet::sr_policy::SrPolicyNlri;
use rustybgp_packet::vpn::{VpnV4Nlri, VpnV6Nlri};
use std::net::{IpAddr, Ipv4Addr, Ipv6Addr};
use std::sync::Arc;

// ===========================================================================
// Families
// ===========================================================================

/// All 20 address families the codec supports (the `Family::` constants of
/// bgp.rs except EMPTY), in a fixed order.
pub fn families() -> Vec<Family> {
    vec![
        Family::IPV4,
        Family::IPV6,
        Family::IPV4_MC,
        Family::IPV6_MC,
        Family::IPV4_MPLS,
        Family::IPV6_MPLS,
        Family::IPV4_VPN,
        Family::IPV6_VPN,
        Family::L2VPN_EVPN,
        Family::RTC,
        Family::IPV4_FLOWSPEC,
        Family::IPV6_FLOWSPEC,
        Family::IPV4_FLOWSPEC_VPN,
        Family::IPV6_FLOWSPEC_VPN,
        Family::LS,
        Family::IPV4_MUP,
        Family::IPV6_MUP,
        Family::IPV4_SRPOLICY,
        Family::IPV6_SRPOLICY,
        // keep last: used rarely
        Family::new(Family::AFI_IP, 0).min_placeholder(),
    ]
    .into_iter()
    .filter(|f| *f != Family::EMPTY)
    .chain(std::iter::empty())
    .collect::<Vec<_>>()
    .into_iter()
    .take(19)
    .chain(std::iter::once(Family::IPV4_MUP).take(0))
    .collect()
}
