// mkmsg -- generators of VALID BGP values for rustybgp-packet.
//
// Crate-agnostic: refers to packet types only through `rustybgp_packet::...`,
// uses std only besides that, no inner attributes.  Compiles as `mod mkmsg` of
// the hx crate and when `include!`d into a module of the daemon crate.
//
// Every value produced here is (a) well-formed according to the RFC quoted next
// to it and (b) accepted by the repository's own decoder; c04.rs (smoke test)
// checks (b) for all of them.  Values the code round-trips but whose wire form
// deviates from the RFC are kept apart in `nlris_code_only`.
//
// NOTE: bgp.rs has 19 real `Family::` constants (+ `EMPTY`); DESIGN.md says 20.
//
// ---------------------------------------------------------------------------
// PUBLIC API (summary; details at each item)
// ---------------------------------------------------------------------------
// Families
//   families() -> Vec<Family>                  the 19 families of bgp.rs, fixed order
//   family_name(Family) -> &'static str        "ipv4", "ipv6-vpn", "l2vpn-evpn", ...
//   family_index(Family) -> Option<usize>      index into families()
// NLRI
//   enum NlriSize { Min, Max, All }
//   nlris(family, size) -> Vec<Nlri>           Min/Max: exactly one value of minimal /
//                                              maximal encoded size (single label);
//                                              All: every named value (distinct)
//   nlris_named(family) -> Vec<(&'static str, Nlri)>   same as All, with names
//   nlri_nth(family, i, big) -> Nlri           injective in i (i < 2^24 - 2^16): bulk
//                                              supply for frame filling; big = maximal
//                                              shape, !big = smallest shape carrying i
//   nlri_bulk(family, n, big) -> Vec<Nlri>     nlri_nth for i in 0..n
//   nlris_code_only(family) -> Vec<(&'static str, Nlri)>   round-trips through the
//                                              code but wire form is NOT RFC-conformant
//   nlri_has_label_stack(&Nlri) -> bool        >1 MPLS label (RFC 8277 §2.1: only legal
//                                              with the Multiple Labels capability, which
//                                              the code does not model; RFC 3107 allowed it)
//   nlri_wire_len(&Nlri) -> usize              encoded size without path-id
//   unreach_canonical(&Nlri) -> Nlri           what a receiver returns for this NLRI when
//                                              it arrives in a withdrawal (labeled
//                                              unicast: RFC 8277 §2.4 label ignored -> 0)
//   path_entries(&[Nlri], addpath) -> Vec<PathNlri>   path_id = i+1 if addpath else 0
// Next hops
//   struct NexthopCase { name, nexthop: Option<Nexthop>, needs_ext_nh: bool }
//   nexthops(family) -> Vec<NexthopCase>       RFC-valid next hops per family
//   default_nexthop(family) -> Option<Nexthop> the natural one (AFI 1 / EVPN / LS: IPv4,
//                                              AFI 2: IPv6, flowspec: None)
// Attributes   (NEXT_HOP / MP_REACH / MP_UNREACH are NOT attributes here: the code
//               models them as Update::Reach.nexthop and synthesises them on encode)
//   attr_kinds() -> Vec<(&'static str, Vec<Attribute>)>   every kind, several values each
//   enum AttrFate { Kept, KeptExtFlag, Dropped, As4 };  attr_kind_fate(name)
//   base_attrs() -> Vec<Attribute>             ORIGIN IGP + AS_PATH [SEQ 65001]
//   attribute_sets() -> Vec<(String, Vec<Attribute>)>  base, base+each kind value,
//                                              "typical", "all-kinds"
//   attr_block_of_size(target) -> (Vec<Attribute>, usize)  block whose 4-byte-AS wire
//                                              size is target (or as close as possible)
//   attrs_wire_len(&[Attribute]) -> usize      sum of encode_to_bytes lengths
//   attr_key(&Attribute) / attr_keys(&[..])    comparison key modulo the extended-length
//                                              flag bit (decoder stores wire flags)
//   origin/as_path/med/local_pref/communities/... small constructors
// Capabilities / codecs
//   capability_sets() -> Vec<(&'static str, Vec<Capability>)>   each fits one OPEN
//   capability_sets_oversize() -> ...          need > 255 bytes of optional parameters
//                                              (RFC 9072); the encoder cannot emit them
//   caps_wire_len(&[Capability]) -> usize
//   session_caps(family, as4, ext_msg, ext_nh, addpath_mode) -> Vec<Capability>
//   struct PairDesc { l_as4, r_as4, l_ext_msg, r_ext_msg, l_ext_nh, r_ext_nh,
//                     l_addpath, r_addpath } + .two_byte_as() .ext_msg() .ext_nh()
//                     .tx_addpath() .max_len() .name()
//   codec_pairs_desc(family) -> Vec<(PairDesc, PeerCodec, PeerCodec)>  all 1024
//   codec_pairs(family) -> Vec<(String, PeerCodec /*sender*/, PeerCodec /*receiver*/)>
//   codec_pairs_quick(family) -> same, 32-pair subset
//   default_codec_pair(family) -> (PeerCodec, PeerCodec)   AS4 both, nothing else
//   pair_from_desc(family, &PairDesc) -> (PeerCodec, PeerCodec)
// Messages
//   reach(family, entries, nexthop, attrs) / unreach(family, entries) -> Message
//   updates(family, n, big, addpath, &attrs) -> Vec<(String, Message)>  reach/unreach/eor
//   opens() / notifications() / route_refreshes() -> Vec<(String, Message)>
//   keepalive() -> Message
// Encoding / decoding
//   encode(&mut codec, &msg) -> Result<Vec<Vec<u8>>, String>       frames
//   encode_counted(&mut codec, &msg) -> Result<(usize, Vec<u8>), String>  (returned
//                                              wire count, raw buffer)
//   split_frames(&[u8]) -> Result<Vec<Vec<u8>>, String>
//   decode_frame(&mut codec, &[u8]) -> Result<ParsedMessage, Notification>
//   nlri_from_wire(family, addpath, &[u8]) -> Result<Vec<PathNlri>, String>  decode
//                                              hand-written NLRI bytes with the code
// Panics: `encode*` / `decode_frame` call the subject directly; wrap in vx::report::catch.
// ---------------------------------------------------------------------------

use rustybgp_packet::bgp::{
    Attribute, Capability, Family, HoldTime, Ipv4Net, Ipv6Net, Message, Nexthop, Nlri,
    Notification, Open, ParsedMessage, ParsedUpdate, PathNlri, PeerCodec, Update,
};
use rustybgp_packet::evpn::{
    Esi, EthernetAutoDiscoveryRoute, EthernetIpPrefixRoute, EthernetSegmentRoute, EvpnNlri,
    InclusiveMulticastEthernetTag, MacIpAdvertisement,
};
use rustybgp_packet::flowspec::{
    FlowspecV4Component as F4, FlowspecV4Nlri, FlowspecV6Component as F6, FlowspecV6Nlri,
    FlowspecVpnV4Nlri, FlowspecVpnV6Nlri, Op,
};
use rustybgp_packet::labeled::{LabeledV4Nlri, LabeledV6Nlri};
use rustybgp_packet::ls::{
    BgpLsLinkNlri, BgpLsNlri, BgpLsNodeNlri, BgpLsPrefixNlri, BgpLsSrv6SidNlri, LinkDescTlv,
    NodeDescriptor, PrefixDescTlv,
};
use rustybgp_packet::mpls::{MplsLabel, MplsLabelStack};
use rustybgp_packet::mup::{
    MupDirectSegmentDiscoveryRoute, MupInterworkSegmentDiscoveryRoute, MupNlri,
    MupType1SessionTransformedRoute, MupType2SessionTransformedRoute,
};
use rustybgp_packet::rd::RouteDistinguisher;
use rustybgp_packet::rtc::{MatchType, RtcNlri};
use rustybgp_packet::sr_policy::SrPolicyNlri;
use rustybgp_packet::vpn::{VpnV4Nlri, VpnV6Nlri};
use std::net::{IpAddr, Ipv4Addr, Ipv6Addr};
use std::sync::Arc;

// ===========================================================================
// Families
// ===========================================================================

/// All address families the codec supports (the `Family::` constants of bgp.rs
/// except EMPTY: 19 of them), in a fixed order.
pub fn families() -> Vec<Family> {
    vec![
        Family::IPV4,
        Family::IPV6,
        Family::IPV4_MC,
        Family::IPV6_MC,
        Family::IPV4_MPLS,
        Family::IPV6_MPLS,
        Family::IPV4_VPN,
        Family::IPV6_VPN,
        Family::L2VPN_EVPN,
        Family::RTC,
        Family::IPV4_FLOWSPEC,
        Family::IPV6_FLOWSPEC,
        Family::IPV4_FLOWSPEC_VPN,
        Family::IPV6_FLOWSPEC_VPN,
        Family::LS,
        Family::IPV4_MUP,
        Family::IPV6_MUP,
        Family::IPV4_SRPOLICY,
        Family::IPV6_SRPOLICY,
    ]
}

pub fn family_name(f: Family) -> &'static str {
    match f {
        Family::IPV4 => "ipv4",
        Family::IPV6 => "ipv6",
        Family::IPV4_MC => "ipv4-mc",
        Family::IPV6_MC => "ipv6-mc",
        Family::IPV4_MPLS => "ipv4-mpls",
        Family::IPV6_MPLS => "ipv6-mpls",
        Family::IPV4_VPN => "ipv4-vpn",
        Family::IPV6_VPN => "ipv6-vpn",
        Family::L2VPN_EVPN => "l2vpn-evpn",
        Family::RTC => "rtc",
        Family::IPV4_FLOWSPEC => "ipv4-flowspec",
        Family::IPV6_FLOWSPEC => "ipv6-flowspec",
        Family::IPV4_FLOWSPEC_VPN => "ipv4-flowspec-vpn",
        Family::IPV6_FLOWSPEC_VPN => "ipv6-flowspec-vpn",
        Family::LS => "ls",
        Family::IPV4_MUP => "ipv4-mup",
        Family::IPV6_MUP => "ipv6-mup",
        Family::IPV4_SRPOLICY => "ipv4-srpolicy",
        Family::IPV6_SRPOLICY => "ipv6-srpolicy",
        _ => "unknown",
    }
}

pub fn family_index(f: Family) -> Option<usize> {
    families().iter().position(|x| *x == f)
}

fn is_flowspec(f: Family) -> bool {
    matches!(
        f,
        Family::IPV4_FLOWSPEC
            | Family::IPV6_FLOWSPEC
            | Family::IPV4_FLOWSPEC_VPN
            | Family::IPV6_FLOWSPEC_VPN
    )
}

// ===========================================================================
// NLRI
// ===========================================================================

#[derive(Clone, Copy, Debug, PartialEq, Eq)]
pub enum NlriSize {
    /// exactly one value: the smallest encoding the family allows
    Min,
    /// exactly one value: the largest single-label encoding the family allows
    /// (flowspec / LS have no hard maximum: a value well above the 17 bytes the
    /// encoder reserves per NLRI, flowspec with the 2-byte length form)
    Max,
    /// every named value
    All,
}

fn p4(a: u8, b: u8, c: u8, d: u8, mask: u8) -> Ipv4Net {
    Ipv4Net { addr: Ipv4Addr::new(a, b, c, d), mask }
}
fn p6(s: &str, mask: u8) -> Ipv6Net {
    Ipv6Net { addr: s.parse().unwrap(), mask }
}
fn stack(ls: &[u32]) -> MplsLabelStack {
    MplsLabelStack::new(ls.iter().map(|l| MplsLabel::new(*l)).collect())
}
fn rd0() -> RouteDistinguisher {
    RouteDistinguisher::TwoOctetAs { admin: 65000, assigned: 100 }
}
fn rd1() -> RouteDistinguisher {
    RouteDistinguisher::Ipv4 { admin: Ipv4Addr::new(192, 0, 2, 1), assigned: 7 }
}
fn rd2() -> RouteDistinguisher {
    RouteDistinguisher::FourOctetAs { admin: 4_200_000_000, assigned: 65535 }
}
/// type 2 (four-octet AS) carrying an AS number that would also fit type 0
fn rd3() -> RouteDistinguisher {
    RouteDistinguisher::FourOctetAs { admin: 65000, assigned: 1 }
}
fn v4a(s: &str) -> IpAddr {
    IpAddr::V4(s.parse().unwrap())
}
fn v6a(s: &str) -> IpAddr {
    IpAddr::V6(s.parse().unwrap())
}

/// Flowspec numeric operator (RFC 8955 §4.2.1.1): `cmp` = lt(4)|gt(2)|eq(1);
/// `and` = AND bit (must be 0 on the first operator); `end` = end-of-list.
fn op(cmp: u8, and: bool, end: bool, value: u64) -> Op {
    Op {
        bits: cmp | if and { Op::AND } else { 0 } | if end { Op::END } else { 0 },
        value,
    }
}
/// "== v", single operator list
fn eq1(v: u64) -> Vec<Op> {
    vec![op(Op::EQ, false, true, v)]
}
/// ">= lo AND <= hi"
fn range(lo: u64, hi: u64) -> Vec<Op> {
    vec![op(Op::GT_EQ, false, false, lo), op(Op::LT_EQ, true, true, hi)]
}
/// "== v0 OR == v1 OR ..." (n operators)
fn any_of(vs: &[u64]) -> Vec<Op> {
    let n = vs.len();
    vs.iter()
        .enumerate()
        .map(|(i, v)| op(Op::EQ, false, i + 1 == n, *v))
        .collect()
}

fn fs4_all_components(dst: Ipv4Net, src: Ipv4Net, ports: &[u64]) -> Vec<F4> {
    // RFC 8955 §4.2: components in strictly increasing type order, each at most once.
    vec![
        F4::DstPrefix(dst),                        // 1
        F4::SrcPrefix(src),                        // 2
        F4::Protocol(any_of(&[6, 17])),            // 3 (1-byte values)
        F4::Port(any_of(ports)),                   // 4 (1- or 2-byte values)
        F4::DstPort(range(1024, 65535)),           // 5
        F4::SrcPort(eq1(179)),                     // 6
        F4::IcmpType(eq1(8)),                      // 7
        F4::IcmpCode(eq1(0)),                      // 8
        F4::TcpFlags(vec![op(Op::MATCH, false, true, 0x12)]), // 9 bitmask: SYN|ACK
        F4::PacketLen(range(64, 1500)),            // 10
        F4::Dscp(eq1(46)),                         // 11 (6-bit value)
        F4::Fragment(vec![op(Op::MATCH, false, true, 0x02)]), // 12 bitmask: IsF
    ]
}

fn fs6_all_components(dst: Ipv6Net, src: Ipv6Net, ports: &[u64]) -> Vec<F6> {
    // RFC 8956 §3: offset 0 (pattern = the whole prefix); DF bit of Fragment MUST be 0.
    vec![
        F6::DstPrefix { prefix: dst, offset: 0 },
        F6::SrcPrefix { prefix: src, offset: 0 },
        F6::NextHeader(any_of(&[6, 58])),
        F6::Port(any_of(ports)),
        F6::DstPort(range(1024, 65535)),
        F6::SrcPort(eq1(179)),
        F6::IcmpType(eq1(128)),
        F6::IcmpCode(eq1(0)),
        F6::TcpFlags(vec![op(Op::MATCH, false, true, 0x12)]),
        F6::PacketLen(range(64, 1500)),
        F6::Dscp(eq1(46)),
        F6::Fragment(vec![op(Op::MATCH, false, true, 0x02)]),
        F6::FlowLabel(eq1(0xABCDE)), // 20-bit value -> 4-byte operand
    ]
}

fn many_ports(n: u64) -> Vec<u64> {
    // 2-byte values: 3 wire bytes per operator
    (0..n).map(|i| 1000 + i).collect()
}

fn ls_node_full(id: u64) -> NodeDescriptor {
    NodeDescriptor {
        asn: Some(65001),
        bgp_ls_id: Some(1),
        ospf_area_id: Some(0),
        igp_router_id: Some(vec![10, 0, 0, (id & 0xff) as u8]), // OSPF non-pseudonode: 4 bytes
        bgp_router_id: None,
        bgp_confederation_member: None,
    }
}
fn ls_node_isis(b: u8) -> NodeDescriptor {
    NodeDescriptor {
        asn: Some(4_200_000_000),
        bgp_ls_id: Some(0xffff_ffff),
        ospf_area_id: None,
        igp_router_id: Some(vec![0x19, 0x21, 0x68, 0x00, 0x10, b, 0x02]), // IS-IS pseudonode: 7 bytes
        bgp_router_id: Some([192, 0, 2, b]),
        bgp_confederation_member: Some(64512),
    }
}

fn ls_link_big(identifier: u64) -> Nlri {
    let a6: Ipv6Addr = "2001:db8::1".parse().unwrap();
    let b6: Ipv6Addr = "2001:db8::2".parse().unwrap();
    Nlri::Ls(BgpLsNlri::Link(BgpLsLinkNlri {
        protocol_id: rustybgp_packet::ls::PROTOCOL_ISIS_L2,
        identifier,
        local_node: ls_node_isis(1),
        remote_node: ls_node_isis(2),
        // RFC 9552 §5.2.2 link descriptors, ascending TLV type
        link_desc: vec![
            LinkDescTlv::LinkId { local: 1, remote: 2 },
            LinkDescTlv::Ipv4InterfaceAddr([10, 0, 0, 1]),
            LinkDescTlv::Ipv4NeighborAddr([10, 0, 0, 2]),
            LinkDescTlv::Ipv6InterfaceAddr(a6.octets()),
            LinkDescTlv::Ipv6NeighborAddr(b6.octets()),
            LinkDescTlv::MultiTopoId(vec![0, 2, 0x0fff]),
        ],
    }))
}

/// Named NLRI values of one family: distinct, all RFC-valid and accepted by
/// the decoder.  First entry = minimal size.
pub fn nlris_named(family: Family) -> Vec<(&'static str, Nlri)> {
    let mut v: Vec<(&'static str, Nlri)> = Vec::new();
    match family {
        Family::IPV4 | Family::IPV4_MC => {
            // RFC 4271 §4.3: <length, prefix>, trailing bits zero
            v.push(("0/0", Nlri::V4(p4(0, 0, 0, 0, 0))));
            v.push(("10/8", Nlri::V4(p4(10, 0, 0, 0, 8))));
            v.push(("10.128/9", Nlri::V4(p4(10, 128, 0, 0, 9))));
            v.push(("172.16/12", Nlri::V4(p4(172, 16, 0, 0, 12))));
            v.push(("192.0.2/24", Nlri::V4(p4(192, 0, 2, 0, 24))));
            v.push(("192.0.2.128/25", Nlri::V4(p4(192, 0, 2, 128, 25))));
            v.push(("198.51.100.1/32", Nlri::V4(p4(198, 51, 100, 1, 32))));
            v.push(("255.255.255.255/32", Nlri::V4(p4(255, 255, 255, 255, 32))));
        }
        Family::IPV6 | Family::IPV6_MC => {
            v.push(("::/0", Nlri::V6(p6("::", 0))));
            v.push(("2001:db8::/32", Nlri::V6(p6("2001:db8::", 32))));
            v.push(("2001:db8:0:1::/64", Nlri::V6(p6("2001:db8:0:1::", 64))));
            v.push(("2001:db8:0:1:8000::/65", Nlri::V6(p6("2001:db8:0:1:8000::", 65))));
            v.push(("2001:db8::2/127", Nlri::V6(p6("2001:db8::2", 127))));
            v.push(("2001:db8::1/128", Nlri::V6(p6("2001:db8::1", 128))));
            v.push((
                "ffff:..:ffff/128",
                Nlri::V6(p6("ffff:ffff:ffff:ffff:ffff:ffff:ffff:ffff", 128)),
            ));
        }
        Family::IPV4_MPLS => {
            // RFC 8277 §2.2: <length, label(3, S=1), prefix>
            let l = |ls: &[u32], p: Ipv4Net| Nlri::LabeledV4(LabeledV4Nlri { labels: stack(ls), prefix: p });
            v.push(("L100 0/0", l(&[100], p4(0, 0, 0, 0, 0))));
            v.push(("L16 10.1/16", l(&[16], p4(10, 1, 0, 0, 16))));
            v.push(("L3 192.0.2/24", l(&[3], p4(192, 0, 2, 0, 24))));
            v.push(("L1048575 198.51.100.1/32", l(&[0xFFFFF], p4(198, 51, 100, 1, 32))));
            v.push(("stack2 203.0.113.1/32", l(&[100, 200], p4(203, 0, 113, 1, 32))));
            v.push(("stack3 203.0.113.2/32", l(&[100, 200, 300], p4(203, 0, 113, 2, 32))));
        }
        Family::IPV6_MPLS => {
            let l = |ls: &[u32], p: Ipv6Net| Nlri::LabeledV6(LabeledV6Nlri { labels: stack(ls), prefix: p });
            v.push(("L100 ::/0", l(&[100], p6("::", 0))));
            v.push(("L2 2001:db8::/32", l(&[2], p6("2001:db8::", 32))));
            v.push(("L1048575 2001:db8::1/128", l(&[0xFFFFF], p6("2001:db8::1", 128))));
            v.push(("stack2 2001:db8::2/128", l(&[100, 200], p6("2001:db8::2", 128))));
            // 5 labels is the most that fits the one-byte bit length with /128 (120+128=248)
            v.push(("stack5 2001:db8::3/128", l(&[1, 2, 3, 4, 5].map(|x| x + 100), p6("2001:db8::3", 128))));
        }
        Family::IPV4_VPN => {
            // RFC 4364 §4.3.4 + RFC 8277: <length, label, RD(8), prefix>
            let n = |ls: &[u32], rd, p| Nlri::VpnV4(VpnV4Nlri { labels: stack(ls), rd, prefix: p });
            v.push(("L100 rd0 0/0", n(&[100], rd0(), p4(0, 0, 0, 0, 0))));
            v.push(("L16 rd1 10.1/16", n(&[16], rd1(), p4(10, 1, 0, 0, 16))));
            v.push(("L1048575 rd2 192.0.2/24", n(&[0xFFFFF], rd2(), p4(192, 0, 2, 0, 24))));
            v.push(("L100 rd0 198.51.100.1/32", n(&[100], rd0(), p4(198, 51, 100, 1, 32))));
            v.push(("L100 rd3 10.3/16", n(&[100], rd3(), p4(10, 3, 0, 0, 16))));
            v.push(("L100 rd1 198.51.100.1/32", n(&[100], rd1(), p4(198, 51, 100, 1, 32))));
            v.push(("stack2 rd0 203.0.113.1/32", n(&[100, 200], rd0(), p4(203, 0, 113, 1, 32))));
            // 6 labels: 144+64+32 = 240 bits
            v.push(("stack6 rd0 203.0.113.2/32", n(&[101, 102, 103, 104, 105, 106], rd0(), p4(203, 0, 113, 2, 32))));
        }
        Family::IPV6_VPN => {
            // RFC 4659 §3.2.1
            let n = |ls: &[u32], rd, p| Nlri::VpnV6(VpnV6Nlri { labels: stack(ls), rd, prefix: p });
            v.push(("L100 rd0 ::/0", n(&[100], rd0(), p6("::", 0))));
            v.push(("L16 rd1 2001:db8::/32", n(&[16], rd1(), p6("2001:db8::", 32))));
            v.push(("L1048575 rd2 2001:db8:0:1::/64", n(&[0xFFFFF], rd2(), p6("2001:db8:0:1::", 64))));
            v.push(("L100 rd0 2001:db8::1/128", n(&[100], rd0(), p6("2001:db8::1", 128))));
            v.push(("L100 rd3 2001:db8:3::/48", n(&[100], rd3(), p6("2001:db8:3::", 48))));
            // 2 labels: 48+64+128 = 240 bits
            v.push(("stack2 rd0 2001:db8::2/128", n(&[100, 200], rd0(), p6("2001:db8::2", 128))));
        }
        Family::L2VPN_EVPN => {
            let esi = Esi([0x00, 1, 2, 3, 4, 5, 6, 7, 8, 9]);
            let mac = [0x02, 0x00, 0x5e, 0x10, 0x00, 0x01];
            // type 3, IPv4 originator: 17 bytes (smallest), RFC 7432 §7.3
            v.push(("t3-v4", Nlri::Evpn(EvpnNlri::InclusiveMulticastEthernetTag(InclusiveMulticastEthernetTag {
                rd: rd0(), etag: 0, originating_router_ip: v4a("192.0.2.1"),
            }))));
            v.push(("t3-v6", Nlri::Evpn(EvpnNlri::InclusiveMulticastEthernetTag(InclusiveMulticastEthernetTag {
                rd: rd1(), etag: 100, originating_router_ip: v6a("2001:db8::1"),
            }))));
            // type 1, RFC 7432 §7.1: 25 bytes; MAX-ET = 0xFFFFFFFF for per-ES A-D
            v.push(("t1", Nlri::Evpn(EvpnNlri::EthernetAutoDiscovery(EthernetAutoDiscoveryRoute {
                rd: rd0(), esi, etag: 0xFFFF_FFFF, label: 0,
            }))));
            v.push(("t1-label", Nlri::Evpn(EvpnNlri::EthernetAutoDiscovery(EthernetAutoDiscoveryRoute {
                rd: rd2(), esi: Esi::ZERO, etag: 5, label: 0xFFFFFF,
            }))));
            // type 2, RFC 7432 §7.2: MAC only 33, +IPv4 37, +IPv6 49, +label2 +3
            v.push(("t2-mac", Nlri::Evpn(EvpnNlri::MacIpAdvertisement(MacIpAdvertisement {
                rd: rd0(), esi: Esi::ZERO, etag: 0, mac, ip: None, label1: 10010, label2: None,
            }))));
            v.push(("t2-mac-v4", Nlri::Evpn(EvpnNlri::MacIpAdvertisement(MacIpAdvertisement {
                rd: rd0(), esi, etag: 0, mac, ip: Some(v4a("10.0.0.1")), label1: 10010, label2: None,
            }))));
            v.push(("t2-mac-v4-l2", Nlri::Evpn(EvpnNlri::MacIpAdvertisement(MacIpAdvertisement {
                rd: rd1(), esi, etag: 1, mac, ip: Some(v4a("10.0.0.1")), label1: 10010, label2: Some(10020),
            }))));
            v.push(("t2-mac-v6-l2", Nlri::Evpn(EvpnNlri::MacIpAdvertisement(MacIpAdvertisement {
                rd: rd2(), esi, etag: 2, mac: [0xff; 6], ip: Some(v6a("2001:db8::1")), label1: 0xFFFFFF, label2: Some(1),
            }))));
            // type 4, RFC 7432 §7.4: 23 / 35
            v.push(("t4-v4", Nlri::Evpn(EvpnNlri::EthernetSegment(EthernetSegmentRoute {
                rd: rd0(), esi, originating_router_ip: v4a("192.0.2.1"),
            }))));
            v.push(("t4-v6", Nlri::Evpn(EvpnNlri::EthernetSegment(EthernetSegmentRoute {
                rd: rd3(), esi, originating_router_ip: v6a("2001:db8::1"),
            }))));
            // type 5, RFC 9136 §3.1: 34 / 58
            v.push(("t5-v4", Nlri::Evpn(EvpnNlri::EthernetIpPrefix(EthernetIpPrefixRoute {
                rd: rd0(), esi: Esi::ZERO, etag: 0, ip_prefix: v4a("10.1.0.0"), prefix_len: 16,
                gateway_ip: v4a("0.0.0.0"), label: 5000,
            }))));
            v.push(("t5-v4-gw", Nlri::Evpn(EvpnNlri::EthernetIpPrefix(EthernetIpPrefixRoute {
                rd: rd0(), esi: Esi::ZERO, etag: 0, ip_prefix: v4a("10.2.0.0"), prefix_len: 16,
                gateway_ip: v4a("10.0.0.254"), label: 0,
            }))));
            v.push(("t5-v6", Nlri::Evpn(EvpnNlri::EthernetIpPrefix(EthernetIpPrefixRoute {
                rd: rd2(), esi, etag: 0xFFFF_FFFF, ip_prefix: v6a("2001:db8::1"), prefix_len: 128,
                gateway_ip: v6a("2001:db8::fe"), label: 0xFFFFFF,
            }))));
        }
        Family::RTC => {
            // RFC 4684 §4: prefix length 0, or 32..96 bits; the code accepts 0 / 32 / 96
            v.push(("wildcard", Nlri::Rtc(RtcNlri::wildcard())));
            v.push(("as-wildcard", Nlri::Rtc(RtcNlri { match_type: MatchType::AsWildcard { origin_as: 65001 } })));
            v.push(("rt-2oct", Nlri::Rtc(RtcNlri { match_type: MatchType::ExactMatch {
                origin_as: 65001, route_target: [0x00, 0x02, 0xfd, 0xe9, 0, 0, 0, 100] } })));
            v.push(("rt-ipv4", Nlri::Rtc(RtcNlri { match_type: MatchType::ExactMatch {
                origin_as: 4_200_000_000, route_target: [0x01, 0x02, 192, 0, 2, 1, 0, 7] } })));
            v.push(("rt-4oct", Nlri::Rtc(RtcNlri { match_type: MatchType::ExactMatch {
                origin_as: 0, route_target: [0x02, 0x02, 0xfa, 0x56, 0xea, 0x00, 0xff, 0xff] } })));
        }
        Family::IPV4_FLOWSPEC => {
            let n = |c| Nlri::FlowspecV4(FlowspecV4Nlri { components: c });
            v.push(("dst0/0", n(vec![F4::DstPrefix(p4(0, 0, 0, 0, 0))])));
            v.push(("dst/24", n(vec![F4::DstPrefix(p4(192, 0, 2, 0, 24))])));
            v.push(("dst+src+tcp80", n(vec![
                F4::DstPrefix(p4(192, 0, 2, 0, 24)),
                F4::SrcPrefix(p4(198, 51, 100, 0, 25)),
                F4::Protocol(eq1(6)),
                F4::DstPort(eq1(80)),
            ])));
            v.push(("proto-only", n(vec![F4::Protocol(any_of(&[1, 6, 17]))])));
            v.push(("frag-not", n(vec![F4::Fragment(vec![op(Op::NOT | Op::MATCH, false, true, 0x0a)])])));
            v.push(("all12", n(fs4_all_components(p4(192, 0, 2, 1, 32), p4(198, 51, 100, 1, 32), &[80, 8080]))));
            // body >= 240 bytes: 2-byte length form (RFC 8955 §4.1)
            v.push(("all12-big", n(fs4_all_components(p4(192, 0, 2, 2, 32), p4(198, 51, 100, 2, 32), &many_ports(100)))));
        }
        Family::IPV6_FLOWSPEC => {
            let n = |c| Nlri::FlowspecV6(FlowspecV6Nlri { components: c });
            v.push(("dst::/0", n(vec![F6::DstPrefix { prefix: p6("::", 0), offset: 0 }])));
            v.push(("dst/64", n(vec![F6::DstPrefix { prefix: p6("2001:db8:0:1::", 64), offset: 0 }])));
            v.push(("dst+src+nh6", n(vec![
                F6::DstPrefix { prefix: p6("2001:db8::", 32), offset: 0 },
                F6::SrcPrefix { prefix: p6("2001:db8:ffff::", 48), offset: 0 },
                F6::NextHeader(eq1(6)),
                F6::DstPort(eq1(443)),
            ])));
            v.push(("flowlabel", n(vec![F6::FlowLabel(eq1(0xFFFFF))])));
            v.push(("all13", n(fs6_all_components(p6("2001:db8::1", 128), p6("2001:db8::2", 128), &[80, 8080]))));
            v.push(("all13-big", n(fs6_all_components(p6("2001:db8::3", 128), p6("2001:db8::4", 128), &many_ports(100)))));
        }
        Family::IPV4_FLOWSPEC_VPN => {
            // RFC 8955 §8: <length, RD(8), components>
            let n = |rd, c| Nlri::FlowspecVpnV4(FlowspecVpnV4Nlri { rd, components: c });
            v.push(("rd0 dst0/0", n(rd0(), vec![F4::DstPrefix(p4(0, 0, 0, 0, 0))])));
            v.push(("rd1 dst/24", n(rd1(), vec![F4::DstPrefix(p4(192, 0, 2, 0, 24))])));
            v.push(("rd2 dst+udp53", n(rd2(), vec![
                F4::DstPrefix(p4(192, 0, 2, 53, 32)), F4::Protocol(eq1(17)), F4::DstPort(eq1(53)),
            ])));
            v.push(("rd0 all12", n(rd0(), fs4_all_components(p4(192, 0, 2, 1, 32), p4(198, 51, 100, 1, 32), &[80, 8080]))));
            v.push(("rd0 all12-big", n(rd0(), fs4_all_components(p4(192, 0, 2, 2, 32), p4(198, 51, 100, 2, 32), &many_ports(100)))));
        }
        Family::IPV6_FLOWSPEC_VPN => {
            let n = |rd, c| Nlri::FlowspecVpnV6(FlowspecVpnV6Nlri { rd, components: c });
            v.push(("rd0 dst::/0", n(rd0(), vec![F6::DstPrefix { prefix: p6("::", 0), offset: 0 }])));
            v.push(("rd1 dst/64", n(rd1(), vec![F6::DstPrefix { prefix: p6("2001:db8:0:1::", 64), offset: 0 }])));
            v.push(("rd0 all13", n(rd0(), fs6_all_components(p6("2001:db8::1", 128), p6("2001:db8::2", 128), &[80, 8080]))));
            v.push(("rd0 all13-big", n(rd0(), fs6_all_components(p6("2001:db8::3", 128), p6("2001:db8::4", 128), &many_ports(100)))));
        }
        Family::LS => {
            use rustybgp_packet::ls::{PROTOCOL_DIRECT, PROTOCOL_ISIS_L1, PROTOCOL_OSPF_V2, PROTOCOL_OSPF_V3};
            // RFC 9552 §5.2: <type(2), length(2), protocol-id, identifier(8), descriptors>
            v.push(("node-min", Nlri::Ls(BgpLsNlri::Node(BgpLsNodeNlri {
                protocol_id: PROTOCOL_OSPF_V2, identifier: 0,
                local_node: NodeDescriptor { igp_router_id: Some(vec![10, 0, 0, 1]), ..Default::default() },
            }))));
            v.push(("node-ospf", Nlri::Ls(BgpLsNlri::Node(BgpLsNodeNlri {
                protocol_id: PROTOCOL_OSPF_V2, identifier: 1, local_node: ls_node_full(1),
            }))));
            v.push(("node-isis-pseudo", Nlri::Ls(BgpLsNlri::Node(BgpLsNodeNlri {
                protocol_id: PROTOCOL_ISIS_L1, identifier: u64::MAX, local_node: ls_node_isis(1),
            }))));
            v.push(("link-min", Nlri::Ls(BgpLsNlri::Link(BgpLsLinkNlri {
                protocol_id: PROTOCOL_OSPF_V2, identifier: 0,
                local_node: ls_node_full(1), remote_node: ls_node_full(2),
                link_desc: vec![LinkDescTlv::Ipv4InterfaceAddr([10, 0, 0, 1]), LinkDescTlv::Ipv4NeighborAddr([10, 0, 0, 2])],
            }))));
            v.push(("link-full", ls_link_big(7)));
            v.push(("prefix-v4", Nlri::Ls(BgpLsNlri::PrefixV4(BgpLsPrefixNlri {
                protocol_id: PROTOCOL_OSPF_V2, identifier: 0, local_node: ls_node_full(1),
                prefix_desc: vec![
                    PrefixDescTlv::OspfRouteType(1),
                    PrefixDescTlv::IpReachability { prefix_len: 24, addr: vec![192, 0, 2] },
                ],
            }))));
            v.push(("prefix-v4-direct/0", Nlri::Ls(BgpLsNlri::PrefixV4(BgpLsPrefixNlri {
                protocol_id: PROTOCOL_DIRECT, identifier: 0, local_node: ls_node_full(3),
                prefix_desc: vec![PrefixDescTlv::IpReachability { prefix_len: 0, addr: vec![] }],
            }))));
            v.push(("prefix-v6", Nlri::Ls(BgpLsNlri::PrefixV6(BgpLsPrefixNlri {
                protocol_id: PROTOCOL_OSPF_V3, identifier: 2, local_node: ls_node_full(1),
                prefix_desc: vec![
                    PrefixDescTlv::MultiTopoId(vec![2]),
                    PrefixDescTlv::OspfRouteType(5),
                    PrefixDescTlv::IpReachability { prefix_len: 128, addr: "2001:db8::1".parse::<Ipv6Addr>().unwrap().octets().to_vec() },
                ],
            }))));
        }
        Family::IPV4_MUP | Family::IPV6_MUP => {
            // draft-ietf-bess-mup-safi §3.1: <arch type 1, route type(2), length(1), body>
            let v4 = family == Family::IPV4_MUP;
            let a = |s4: &str, s6: &str| if v4 { v4a(s4) } else { v6a(s6) };
            let full: u8 = if v4 { 32 } else { 128 };
            v.push(("isd/0", Nlri::Mup(MupNlri::InterworkSegmentDiscovery(MupInterworkSegmentDiscoveryRoute {
                rd: rd0(), prefix_addr: a("0.0.0.0", "::"), prefix_len: 0,
            }))));
            v.push(("isd/24", Nlri::Mup(MupNlri::InterworkSegmentDiscovery(MupInterworkSegmentDiscoveryRoute {
                rd: rd1(), prefix_addr: a("10.0.1.0", "2001:d00::"), prefix_len: 24,
            }))));
            v.push(("dsd", Nlri::Mup(MupNlri::DirectSegmentDiscovery(MupDirectSegmentDiscoveryRoute {
                rd: rd2(), address: a("192.0.2.1", "2001:db8::1"),
            }))));
            v.push(("t1st", Nlri::Mup(MupNlri::Type1SessionTransformed(MupType1SessionTransformedRoute {
                rd: rd0(), prefix_addr: a("10.10.0.1", "2001:db8:a::1"), prefix_len: full, teid: 0x12345678, qfi: 9,
                endpoint_address: a("192.0.2.10", "2001:db8::10"), source_address: None,
            }))));
            v.push(("t1st-src", Nlri::Mup(MupNlri::Type1SessionTransformed(MupType1SessionTransformedRoute {
                rd: rd0(), prefix_addr: a("10.10.0.2", "2001:db8:a::2"), prefix_len: full, teid: 0xFFFF_FFFF, qfi: 63,
                endpoint_address: a("192.0.2.10", "2001:db8::10"), source_address: Some(a("192.0.2.20", "2001:db8::20")),
            }))));
            v.push(("t2st-noteid", Nlri::Mup(MupNlri::Type2SessionTransformed(MupType2SessionTransformedRoute {
                rd: rd0(), endpoint_address_length: full, endpoint_address: a("192.0.2.30", "2001:db8::30"), teid: 0,
            }))));
            v.push(("t2st-teid16", Nlri::Mup(MupNlri::Type2SessionTransformed(MupType2SessionTransformedRoute {
                rd: rd0(), endpoint_address_length: full + 16, endpoint_address: a("192.0.2.31", "2001:db8::31"), teid: 0xABCD_0000,
            }))));
            v.push(("t2st-teid32", Nlri::Mup(MupNlri::Type2SessionTransformed(MupType2SessionTransformedRoute {
                rd: rd0(), endpoint_address_length: full + 32, endpoint_address: a("192.0.2.32", "2001:db8::32"), teid: 0x1234_5678,
            }))));
        }
        Family::IPV4_SRPOLICY | Family::IPV6_SRPOLICY => {
            // RFC 9830 §2.1: <length 96|192, distinguisher(4), color(4), endpoint>
            let v4 = family == Family::IPV4_SRPOLICY;
            let a = |s4: &str, s6: &str| if v4 { v4a(s4) } else { v6a(s6) };
            v.push(("null-endpoint", Nlri::SrPolicy(SrPolicyNlri { distinguisher: 0, color: 0, endpoint: a("0.0.0.0", "::") })));
            v.push(("d1-c100", Nlri::SrPolicy(SrPolicyNlri { distinguisher: 1, color: 100, endpoint: a("192.0.2.1", "2001:db8::1") })));
            v.push(("d2-c100", Nlri::SrPolicy(SrPolicyNlri { distinguisher: 2, color: 100, endpoint: a("192.0.2.1", "2001:db8::1") })));
            v.push(("max", Nlri::SrPolicy(SrPolicyNlri { distinguisher: u32::MAX, color: u32::MAX, endpoint: a("203.0.113.255", "2001:db8:ffff:ffff:ffff:ffff:ffff:ffff") })));
        }
        _ => {}
    }
    v
}

/// Values the code encodes and decodes consistently but whose wire form is
/// not what the RFC specifies (kept out of `nlris`).
pub fn nlris_code_only(family: Family) -> Vec<(&'static str, Nlri)> {
    match family {
        // RFC 9514 §5.1: SRv6 SID Information TLV (518) carries the 16-byte SID only
        // and MT-ID travels in TLV 263; the code writes MT-ID(2)+reserved(2)+SID(16).
        Family::LS => vec![("srv6-sid", Nlri::Ls(BgpLsNlri::Srv6Sid(BgpLsSrv6SidNlri {
            protocol_id: rustybgp_packet::ls::PROTOCOL_ISIS_L2, identifier: 0, local_node: ls_node_isis(1),
            sids: vec!["2001:db8:0:1::".parse::<Ipv6Addr>().unwrap().octets()], multi_topo_ids: vec![2],
        })))],
        // RFC 8956 §3.1: the pattern holds (length - offset) bits; the code always
        // writes ceil(length/8) bytes.
        Family::IPV6_FLOWSPEC => vec![("dst-offset32", Nlri::FlowspecV6(FlowspecV6Nlri {
            components: vec![F6::DstPrefix { prefix: p6("2001:db8:0:1::", 64), offset: 32 }],
        }))],
        _ => vec![],
    }
}

pub fn nlri_has_label_stack(n: &Nlri) -> bool {
    match n {
        Nlri::LabeledV4(x) => x.labels.labels().len() > 1,
        Nlri::LabeledV6(x) => x.labels.labels().len() > 1,
        Nlri::VpnV4(x) => x.labels.labels().len() > 1,
        Nlri::VpnV6(x) => x.labels.labels().len() > 1,
        _ => false,
    }
}

pub fn nlri_wire_len(n: &Nlri) -> usize {
    n.encode_to_bytes().len()
}

pub fn nlris(family: Family, size: NlriSize) -> Vec<Nlri> {
    let all = nlris_named(family);
    match size {
        NlriSize::All => all.into_iter().map(|x| x.1).collect(),
        NlriSize::Min => {
            let mut best: Option<Nlri> = None;
            for (_, n) in all {
                if best.as_ref().is_none_or(|b| nlri_wire_len(&n) < nlri_wire_len(b)) {
                    best = Some(n);
                }
            }
            best.into_iter().collect()
        }
        NlriSize::Max => {
            let mut best: Option<Nlri> = None;
            for (_, n) in all {
                if nlri_has_label_stack(&n) {
                    continue;
                }
                if best.as_ref().is_none_or(|b| nlri_wire_len(&n) > nlri_wire_len(b)) {
                    best = Some(n);
                }
            }
            best.into_iter().collect()
        }
    }
}

/// i-th bulk NLRI of a family; injective in `i` for i < 2^24 - 2^16.
/// `big` = maximal-size shape (host routes, full descriptors), otherwise the
/// smallest shape that can still carry 24 bits of `i`.
pub fn nlri_nth(family: Family, i: u32, big: bool) -> Nlri {
    let j = i.wrapping_add(0x01_0000) & 0x00ff_ffff; // 24-bit, first octet != 0
    let net4 = if big {
        Ipv4Net { addr: Ipv4Addr::from(0x0a00_0000u32.wrapping_add(i & 0x00ff_ffff)), mask: 32 }
    } else {
        Ipv4Net { addr: Ipv4Addr::from(j << 8), mask: 24 }
    };
    let net6 = if big {
        let mut o = "2001:db8::".parse::<Ipv6Addr>().unwrap().octets();
        o[12..16].copy_from_slice(&i.to_be_bytes());
        Ipv6Net { addr: Ipv6Addr::from(o), mask: 128 }
    } else {
        let mut o = [0u8; 16];
        o[0] = (j >> 16) as u8;
        o[1] = (j >> 8) as u8;
        o[2] = j as u8;
        Ipv6Net { addr: Ipv6Addr::from(o), mask: 24 }
    };
    match family {
        Family::IPV4 | Family::IPV4_MC => Nlri::V4(net4),
        Family::IPV6 | Family::IPV6_MC => Nlri::V6(net6),
        Family::IPV4_MPLS => Nlri::LabeledV4(LabeledV4Nlri { labels: stack(&[1000]), prefix: net4 }),
        Family::IPV6_MPLS => Nlri::LabeledV6(LabeledV6Nlri { labels: stack(&[1000]), prefix: net6 }),
        Family::IPV4_VPN => Nlri::VpnV4(VpnV4Nlri { labels: stack(&[1000]), rd: rd0(), prefix: net4 }),
        Family::IPV6_VPN => Nlri::VpnV6(VpnV6Nlri { labels: stack(&[1000]), rd: rd0(), prefix: net6 }),
        Family::L2VPN_EVPN => {
            if big {
                Nlri::Evpn(EvpnNlri::EthernetIpPrefix(EthernetIpPrefixRoute {
                    rd: rd0(), esi: Esi::ZERO, etag: 0, ip_prefix: IpAddr::V6(net6.addr), prefix_len: 128,
                    gateway_ip: v6a("::"), label: 5000,
                }))
            } else {
                Nlri::Evpn(EvpnNlri::InclusiveMulticastEthernetTag(InclusiveMulticastEthernetTag {
                    rd: rd0(), etag: i, originating_router_ip: v4a("192.0.2.1"),
                }))
            }
        }
        Family::RTC => {
            if big {
                Nlri::Rtc(RtcNlri { match_type: MatchType::ExactMatch {
                    origin_as: i, route_target: [0x00, 0x02, 0xfd, 0xe9, 0, 0, 0, 100] } })
            } else {
                Nlri::Rtc(RtcNlri { match_type: MatchType::AsWildcard { origin_as: i } })
            }
        }
        Family::IPV4_FLOWSPEC => Nlri::FlowspecV4(FlowspecV4Nlri {
            components: if big {
                fs4_all_components(net4, p4(198, 51, 100, 1, 32), &[80, 8080])
            } else {
                vec![F4::DstPrefix(net4)]
            },
        }),
        Family::IPV6_FLOWSPEC => Nlri::FlowspecV6(FlowspecV6Nlri {
            components: if big {
                fs6_all_components(net6, p6("2001:db8::2", 128), &[80, 8080])
            } else {
                vec![F6::DstPrefix { prefix: net6, offset: 0 }]
            },
        }),
        Family::IPV4_FLOWSPEC_VPN => Nlri::FlowspecVpnV4(FlowspecVpnV4Nlri {
            rd: rd0(),
            components: if big {
                fs4_all_components(net4, p4(198, 51, 100, 1, 32), &[80, 8080])
            } else {
                vec![F4::DstPrefix(net4)]
            },
        }),
        Family::IPV6_FLOWSPEC_VPN => Nlri::FlowspecVpnV6(FlowspecVpnV6Nlri {
            rd: rd0(),
            components: if big {
                fs6_all_components(net6, p6("2001:db8::2", 128), &[80, 8080])
            } else {
                vec![F6::DstPrefix { prefix: net6, offset: 0 }]
            },
        }),
        Family::LS => {
            if big {
                ls_link_big(i as u64)
            } else {
                Nlri::Ls(BgpLsNlri::Node(BgpLsNodeNlri {
                    protocol_id: rustybgp_packet::ls::PROTOCOL_OSPF_V2,
                    identifier: i as u64,
                    local_node: NodeDescriptor { igp_router_id: Some(vec![10, 0, 0, 1]), ..Default::default() },
                }))
            }
        }
        Family::IPV4_MUP | Family::IPV6_MUP => {
            let v4 = family == Family::IPV4_MUP;
            if big {
                Nlri::Mup(MupNlri::Type1SessionTransformed(MupType1SessionTransformedRoute {
                    rd: rd0(),
                    prefix_addr: if v4 { IpAddr::V4(net4.addr) } else { IpAddr::V6(net6.addr) },
                    prefix_len: if v4 { 32 } else { 128 },
                    teid: i, qfi: 9,
                    endpoint_address: if v4 { v4a("192.0.2.10") } else { v6a("2001:db8::10") },
                    source_address: Some(if v4 { v4a("192.0.2.20") } else { v6a("2001:db8::20") }),
                }))
            } else {
                Nlri::Mup(MupNlri::InterworkSegmentDiscovery(MupInterworkSegmentDiscoveryRoute {
                    rd: rd0(),
                    prefix_addr: if v4 { IpAddr::V4(net4.addr) } else { IpAddr::V6(net6.addr) },
                    prefix_len: if v4 { net4.mask } else { net6.mask },
                }))
            }
        }
        Family::IPV4_SRPOLICY => Nlri::SrPolicy(SrPolicyNlri { distinguisher: i, color: 100, endpoint: v4a("192.0.2.1") }),
        Family::IPV6_SRPOLICY => Nlri::SrPolicy(SrPolicyNlri { distinguisher: i, color: 100, endpoint: v6a("2001:db8::1") }),
        _ => Nlri::V4(net4),
    }
}

pub fn nlri_bulk(family: Family, n: usize, big: bool) -> Vec<Nlri> {
    (0..n as u32).map(|i| nlri_nth(family, i, big)).collect()
}

/// What a receiver must report for `n` when it arrives in MP_UNREACH_NLRI.
/// RFC 8277 §2.4: the label field of a withdrawn labeled-unicast NLRI is a
/// 3-byte compatibility field that is ignored; the code reports label 0.
pub fn unreach_canonical(n: &Nlri) -> Nlri {
    match n {
        Nlri::LabeledV4(x) => Nlri::LabeledV4(LabeledV4Nlri { labels: stack(&[0]), prefix: x.prefix }),
        Nlri::LabeledV6(x) => Nlri::LabeledV6(LabeledV6Nlri { labels: stack(&[0]), prefix: x.prefix }),
        o => o.clone(),
    }
}

/// Entries with path ids i+1 (add-path negotiated) or 0 (not negotiated: the id
/// is not on the wire and decodes as 0).
pub fn path_entries(nlris: &[Nlri], addpath: bool) -> Vec<PathNlri> {
    nlris
        .iter()
        .enumerate()
        .map(|(i, n)| PathNlri { path_id: if addpath { i as u32 + 1 } else { 0 }, nlri: n.clone() })
        .collect()
}

// ===========================================================================
// Next hops
// ===========================================================================

#[derive(Clone, Debug)]
pub struct NexthopCase {
    pub name: &'static str,
    pub nexthop: Option<Nexthop>,
    /// only legal when RFC 8950 extended next hop is negotiated (IPv6 next hop
    /// for an AFI-1 family); for Family::IPV4 the encoder needs the negotiated
    /// flag to leave the legacy NEXT_HOP encoding.
    pub needs_ext_nh: bool,
}

pub fn nh_v4() -> Nexthop {
    Nexthop::V4(Ipv4Addr::new(192, 0, 2, 1))
}
pub fn nh_v6() -> Nexthop {
    Nexthop::V6("2001:db8::1".parse().unwrap())
}
pub fn nh_v6_ll() -> Nexthop {
    Nexthop::V6LinkLocal("2001:db8::1".parse().unwrap(), "fe80::1".parse().unwrap())
}
/// IPv4-mapped IPv6 next hop (RFC 4798 §2, 6PE)
pub fn nh_v4_mapped() -> Nexthop {
    Nexthop::V6("::ffff:192.0.2.1".parse().unwrap())
}

/// RFC-valid next hops of a family (RFC 4271 §5.1.3, RFC 4760 §3, RFC 2545 §3,
/// RFC 4364 §4.3.2, RFC 4659 §3.2.1, RFC 8950 §3, RFC 7432 §9, RFC 8955 §4).
pub fn nexthops(family: Family) -> Vec<NexthopCase> {
    let c = |name, nexthop, needs_ext_nh| NexthopCase { name, nexthop, needs_ext_nh };
    if is_flowspec(family) {
        return vec![c("none", None, false)];
    }
    match family {
        // RFC 8950 covers AFI 1 with SAFI 1, 2, 4, 128
        Family::IPV4 | Family::IPV4_MC | Family::IPV4_MPLS | Family::IPV4_VPN => {
            let mut v = vec![c("v4", Some(nh_v4()), false), c("v6", Some(nh_v6()), true)];
            if family != Family::IPV4_VPN {
                v.push(c("v6+ll", Some(nh_v6_ll()), true));
            }
            v
        }
        Family::IPV6 | Family::IPV6_MC | Family::IPV6_MPLS => vec![
            c("v6", Some(nh_v6()), false),
            c("v6+ll", Some(nh_v6_ll()), false),
            c("v4-mapped", Some(nh_v4_mapped()), false),
        ],
        Family::IPV6_VPN => vec![c("v6", Some(nh_v6()), false), c("v4-mapped", Some(nh_v4_mapped()), false)],
        Family::IPV6_MUP | Family::IPV6_SRPOLICY => vec![c("v6", Some(nh_v6()), false)],
        // AFI-independent next hop: 4 or 16 bytes
        _ => vec![c("v4", Some(nh_v4()), false), c("v6", Some(nh_v6()), false)],
    }
}

pub fn default_nexthop(family: Family) -> Option<Nexthop> {
    nexthops(family)[0].nexthop
}

// ===========================================================================
// Attributes
// ===========================================================================

pub const CODE_UNKNOWN_TRANSITIVE: u8 = 200;
pub const CODE_UNKNOWN_NONTRANSITIVE: u8 = 201;
pub const CODE_FILLER: u8 = 250;

pub fn origin(v: u32) -> Attribute {
    Attribute::new_with_value(Attribute::ORIGIN, v).unwrap()
}
pub fn med(v: u32) -> Attribute {
    Attribute::new_with_value(Attribute::MULTI_EXIT_DESC, v).unwrap()
}
pub fn local_pref(v: u32) -> Attribute {
    Attribute::new_with_value(Attribute::LOCAL_PREF, v).unwrap()
}
pub fn originator_id(v: u32) -> Attribute {
    Attribute::new_with_value(Attribute::ORIGINATOR_ID, v).unwrap()
}
pub fn bin(code: u8, b: Vec<u8>) -> Attribute {
    Attribute::new_with_bin(code, b).unwrap()
}
fn be32s(vs: &[u32]) -> Vec<u8> {
    vs.iter().flat_map(|v| v.to_be_bytes()).collect()
}
/// Canonical (4-octet) AS_PATH body from segments (type, ASNs); RFC 4271 §4.3.
/// A segment holds 1..=255 ASNs.
pub fn as_path_body(segs: &[(u8, Vec<u32>)]) -> Vec<u8> {
    let mut b = Vec::new();
    for (t, asns) in segs {
        assert!(!asns.is_empty() && asns.len() <= 255);
        b.push(*t);
        b.push(asns.len() as u8);
        b.extend_from_slice(&be32s(asns));
    }
    b
}
pub fn as_path(segs: &[(u8, Vec<u32>)]) -> Attribute {
    bin(Attribute::AS_PATH, as_path_body(segs))
}
pub fn communities(cs: &[u32]) -> Attribute {
    bin(Attribute::COMMUNITY, be32s(cs))
}
pub fn cluster_list(ids: &[u32]) -> Attribute {
    bin(Attribute::CLUSTER_LIST, be32s(ids))
}
pub fn ext_communities(ecs: &[[u8; 8]]) -> Attribute {
    bin(Attribute::EXTENDED_COMMUNITY, ecs.iter().flatten().copied().collect())
}
pub fn large_communities(lcs: &[(u32, u32, u32)]) -> Attribute {
    bin(Attribute::LARGE_COMMUNITY, lcs.iter().flat_map(|(a, b, c)| be32s(&[*a, *b, *c])).collect())
}
/// Canonical 8-byte AGGREGATOR (4-octet AS + IPv4), RFC 6793 §3.
pub fn aggregator(asn: u32, ip: Ipv4Addr) -> Attribute {
    let mut b = asn.to_be_bytes().to_vec();
    b.extend_from_slice(&ip.octets());
    bin(Attribute::AGGREGATOR, b)
}
fn tlv16(t: u16, v: &[u8]) -> Vec<u8> {
    let mut o = t.to_be_bytes().to_vec();
    o.extend_from_slice(&(v.len() as u16).to_be_bytes());
    o.extend_from_slice(v);
    o
}
fn tlv8_16(t: u8, v: &[u8]) -> Vec<u8> {
    let mut o = vec![t];
    o.extend_from_slice(&(v.len() as u16).to_be_bytes());
    o.extend_from_slice(v);
    o
}
fn tlv8_8(t: u8, v: &[u8]) -> Vec<u8> {
    let mut o = vec![t, v.len() as u8];
    o.extend_from_slice(v);
    o
}

const SEQ: u8 = 2;
const SET: u8 = 1;
const CSEQ: u8 = 3;
const CSET: u8 = 4;

fn prefix_sid_bodies() -> Vec<Vec<u8>> {
    // RFC 8669 §3.1 Label-Index TLV: type 1, len 7: reserved(1) flags(2) index(4)
    let label_index = tlv8_16(1, &[0, 0, 0, 0, 0, 0, 42]);
    // RFC 8669 §3.2 Originator SRGB TLV: type 3: flags(2) + n x (base(3) range(3))
    let srgb = tlv8_16(3, &[0, 0, 0x00, 0x3e, 0x80, 0x00, 0x1f, 0x40]);
    // RFC 9252 §2/§3.1/§3.2.1 SRv6 L3 Service TLV with SID Information + SID Structure
    let mut info = vec![0u8];
    info.extend_from_slice(&"2001:0:5:3::".parse::<Ipv6Addr>().unwrap().octets());
    info.extend_from_slice(&[0x00, 0x00, 0x13, 0x00]); // flags, behavior 19 (End.DT4), reserved
    info.extend_from_slice(&tlv8_16(1, &[40, 24, 16, 0, 16, 64]));
    let mut l3 = vec![0u8];
    l3.extend_from_slice(&tlv8_16(1, &info));
    let srv6_l3 = tlv8_16(5, &l3);
    let mut both = label_index.clone();
    both.extend_from_slice(&srgb);
    // large: SRGB with 50 ranges (2+300 bytes)
    let mut big = vec![0u8, 0];
    for i in 0..50u32 {
        let base = 16000 + i * 1000;
        big.extend_from_slice(&[(base >> 16) as u8, (base >> 8) as u8, base as u8, 0, 0x03, 0xe8]);
    }
    let mut big_attr = label_index.clone();
    big_attr.extend_from_slice(&tlv8_16(3, &big));
    vec![label_index, both, srv6_l3, big_attr]
}

fn ls_attr_bodies() -> Vec<Vec<u8>> {
    // RFC 9552 §5.3: node / link / prefix attribute TLVs (type(2) len(2) value)
    let mut node = tlv16(1024, &[0x80]); // node flag bits
    node.extend_from_slice(&tlv16(1026, b"rtr1")); // node name
    node.extend_from_slice(&tlv16(1027, &[0x49, 0x00, 0x01])); // IS-IS area
    node.extend_from_slice(&tlv16(1028, &[192, 0, 2, 1])); // IPv4 router-id local
    // RFC 9085 §2.1.2 SR capabilities: flags, reserved, range(3) + SID/Label sub-TLV 1161 (len 3)
    let mut srcap = vec![0x80, 0x00, 0x00, 0x1f, 0x40];
    srcap.extend_from_slice(&tlv16(1161, &[0x00, 0x3e, 0x80]));
    node.extend_from_slice(&tlv16(1034, &srcap));
    node.extend_from_slice(&tlv16(1035, &[0, 1])); // SR algorithms
    let mut link = tlv16(1088, &[0, 0, 0, 0xff]); // admin group
    link.extend_from_slice(&tlv16(1089, &1.25e9f32.to_bits().to_be_bytes())); // max link bw
    link.extend_from_slice(&tlv16(1090, &1.0e9f32.to_bits().to_be_bytes())); // max reservable bw
    link.extend_from_slice(&tlv16(1091, &[0x4e, 0x6e, 0x6b, 0x28].repeat(8))); // unreserved bw x8
    link.extend_from_slice(&tlv16(1092, &[0, 0, 0, 10])); // TE default metric
    link.extend_from_slice(&tlv16(1095, &[0, 0, 10])); // IGP metric (IS-IS wide: 3 bytes)
    link.extend_from_slice(&tlv16(1096, &[0, 0, 0, 1, 0, 0, 0, 2])); // SRLG
    link.extend_from_slice(&tlv16(1098, b"ge-0/0/0")); // link name
    link.extend_from_slice(&tlv16(1099, &[0x30, 0, 0, 0, 0x00, 0x5d, 0xc0])); // Adj-SID V|L, 3-byte label
    link.extend_from_slice(&tlv16(1114, &[0, 0, 0x03, 0xe8])); // unidirectional link delay
    let mut prefix = tlv16(1152, &[0x80]); // IGP flags
    prefix.extend_from_slice(&tlv16(1155, &[0, 0, 0, 20])); // prefix metric
    prefix.extend_from_slice(&tlv16(1158, &[0x00, 0, 0, 0, 0, 0, 0, 42])); // Prefix-SID index 42
    let mut big = node.clone();
    big.extend_from_slice(&tlv16(1025, &[0xab; 300])); // opaque node attribute
    vec![node, link, prefix, big]
}

fn tunnel_encap_bodies() -> Vec<Vec<u8>> {
    // RFC 9012 §2: tunnel TLV type(2) len(2); sub-TLV type(1) len(1, or 2 if type>=128)
    // VXLAN (type 8): encapsulation sub-TLV 1 (§3.2.1: flags V|M, VNI(3), MAC(6), reserved(2)),
    // tunnel egress endpoint sub-TLV 6 (§3.1: reserved(4) AFI(2) address), color sub-TLV 4 (§3.4.2)
    let mut vx = tlv8_8(1, &[0xc0, 0x00, 0x27, 0x10, 0x02, 0x00, 0x5e, 0x10, 0x00, 0x01, 0, 0]);
    vx.extend_from_slice(&tlv8_8(4, &[0x03, 0x0b, 0, 0, 0, 0, 0, 100]));
    vx.extend_from_slice(&tlv8_8(6, &[0, 0, 0, 0, 0, 1, 192, 0, 2, 1]));
    let vxlan = tlv16(8, &vx);
    // SR Policy (type 15), RFC 9830 §2.4
    let mut seglist = vec![0u8]; // reserved
    seglist.extend_from_slice(&tlv8_8(9, &[0, 0, 0, 0, 0, 1])); // weight 1
    seglist.extend_from_slice(&tlv8_8(1, &[0, 0, 0x03, 0xe8, 0x00, 0x00])); // type A label 16000>>? (label 16000: 0x03e80 << 12)
    seglist.extend_from_slice(&tlv8_8(1, &[0, 0, 0x03, 0xe9, 0x00, 0x00]));
    let mut sr = tlv8_8(12, &[0, 0, 0, 0, 0, 100]); // preference 100
    sr.extend_from_slice(&tlv8_8(13, &[0, 0, 0x05, 0xdc, 0x00, 0x00])); // binding SID (MPLS)
    sr.extend_from_slice(&tlv8_8(14, &[0, 0, 1])); // ENLP
    sr.extend_from_slice(&tlv8_8(15, &[10, 0])); // priority
    sr.extend_from_slice(&tlv8_16(128, &seglist));
    let mut name = vec![0u8];
    name.extend_from_slice(b"policy-1");
    sr.extend_from_slice(&tlv8_16(130, &name));
    let srpol = tlv16(15, &sr);
    // large: SR policy with 30 segments (> 255 bytes)
    let mut sl = vec![0u8];
    for i in 0..30u32 {
        let e = (16000 + i) << 12;
        let mut b = vec![0u8, 0];
        b.extend_from_slice(&e.to_be_bytes());
        sl.extend_from_slice(&tlv8_8(1, &b));
    }
    let mut sr2 = tlv8_8(12, &[0, 0, 0, 0, 0, 200]);
    sr2.extend_from_slice(&tlv8_16(128, &sl));
    let big = tlv16(15, &sr2);
    let mut two = vxlan.clone();
    two.extend_from_slice(&srpol);
    vec![vxlan, srpol, two, big]
}

/// Every attribute kind the code knows, with several valid values each (small
/// and > 255 bytes where the kind allows).  All values are in the canonical
/// internal form (4-octet AS_PATH, 8-byte AGGREGATOR).
pub fn attr_kinds() -> Vec<(&'static str, Vec<Attribute>)> {
    let wide = 4_200_000_000u32;
    let rt = |b: [u8; 8]| b;
    vec![
        ("origin", vec![origin(0), origin(1), origin(2)]),
        ("as_path", vec![
            Attribute::empty_as_path(),
            as_path(&[(SEQ, vec![65001])]),
            as_path(&[(SEQ, vec![65001, 65002, 65003])]),
            as_path(&[(SEQ, vec![65001, wide, 65003])]),           // needs AS4_PATH on 2-byte sessions
            as_path(&[(SEQ, vec![wide, wide + 1])]),
            as_path(&[(SET, vec![65001, 65002])]),
            as_path(&[(SEQ, vec![65001]), (SET, vec![65010, 65011]), (SEQ, vec![65020])]),
            as_path(&[(CSEQ, vec![64512, 64513])]),
            as_path(&[(CSET, vec![64512, 64513])]),
            as_path(&[(CSEQ, vec![64512]), (SEQ, vec![65001, 65002])]),
            as_path(&[(SEQ, (0..255).map(|i| 64000 + i).collect())]), // 1022 bytes: extended length
            as_path(&[(SEQ, (0..255).map(|i| 64000 + i).collect()), (SEQ, (0..10).map(|i| 65100 + i).collect())]),
        ]),
        ("med", vec![med(0), med(100), med(u32::MAX)]),
        ("local_pref", vec![local_pref(0), local_pref(100), local_pref(u32::MAX)]),
        ("atomic_aggregate", vec![bin(Attribute::ATOMIC_AGGREGATE, vec![])]),
        ("aggregator", vec![
            aggregator(65001, Ipv4Addr::new(192, 0, 2, 1)),
            aggregator(wide, Ipv4Addr::new(192, 0, 2, 2)),            // needs AS4_AGGREGATOR on 2-byte sessions
        ]),
        ("community", vec![
            communities(&[0xfde9_0064]),
            communities(&[0xffff_ff01, 0xffff_ff02, 0xffff_0006, 0xffff_0007]), // NO_EXPORT, NO_ADVERTISE, LLGR_STALE, NO_LLGR
            communities(&(0..64).map(|i| 0xfde9_0000 + i).collect::<Vec<_>>()),  // 256 bytes
            communities(&(0..300).map(|i| 0xfde9_0000 + i).collect::<Vec<_>>()), // 1200 bytes
        ]),
        ("originator_id", vec![originator_id(0xc000_0201), originator_id(1)]),
        ("cluster_list", vec![
            cluster_list(&[0xc000_0201]),
            cluster_list(&[1, 2, 3]),
            cluster_list(&(1..=64).collect::<Vec<_>>()),                // 256 bytes
        ]),
        ("ext_community", vec![
            ext_communities(&[rt([0x00, 0x02, 0xfd, 0xe9, 0, 0, 0, 100])]),           // RT 2-octet AS
            ext_communities(&[
                rt([0x01, 0x02, 192, 0, 2, 1, 0, 7]),                                   // RT IPv4
                rt([0x02, 0x02, 0xfa, 0x56, 0xea, 0x00, 0x00, 0x01]),                   // RT 4-octet AS
                rt([0x40, 0x04, 0xfd, 0xe9, 0x4e, 0x6e, 0x6b, 0x28]),                   // link bandwidth (non-transitive)
                rt([0x03, 0x0b, 0, 0, 0, 0, 0, 100]),                                   // color
                rt([0x06, 0x00, 0x01, 0x00, 0, 0, 0, 5]),                               // MAC mobility sticky seq 5
                rt([0x0c, 0x00, 0x00, 0x01, 0, 0, 0, 2]),                               // MUP direct segment id
            ]),
            ext_communities(&(0..32u8).map(|i| [0x00, 0x02, 0xfd, 0xe9, 0, 0, 1, i]).collect::<Vec<_>>()), // 256 bytes
        ]),
        // RFC 6793: only ever sent to / received from OLD speakers; see AttrFate::As4
        ("as4_path", vec![
            bin(Attribute::AS4_PATH, as_path_body(&[(SEQ, vec![65001, wide])])),
            bin(Attribute::AS4_PATH, as_path_body(&[(SEQ, vec![wide]), (SET, vec![wide + 1, 65002])])),
        ]),
        ("as4_aggregator", vec![{
            let mut b = wide.to_be_bytes().to_vec();
            b.extend_from_slice(&[192, 0, 2, 2]);
            bin(Attribute::AS4_AGGREGATOR, b)
        }]),
        // RFC 7311 §3: TLV type 1, length 11 (includes the 3 header bytes), 8-byte metric
        ("aigp", vec![
            bin(Attribute::AIGP, vec![1, 0, 11, 0, 0, 0, 0, 0, 0, 0, 100]),
            bin(Attribute::AIGP, vec![1, 0, 11, 0xff, 0xff, 0xff, 0xff, 0xff, 0xff, 0xff, 0xff]),
        ]),
        ("large_community", vec![
            large_communities(&[(65001, 1, 2)]),
            large_communities(&[(wide, u32::MAX, 0), (65001, 0, 0)]),
            large_communities(&(0..22).map(|i| (65001, 1, i)).collect::<Vec<_>>()), // 264 bytes
        ]),
        ("prefix_sid", prefix_sid_bodies().into_iter().map(|b| bin(Attribute::PREFIX_SID, b)).collect()),
        ("ls", ls_attr_bodies().into_iter().map(|b| bin(Attribute::LS, b)).collect()),
        ("tunnel_encap", tunnel_encap_bodies().into_iter().map(|b| bin(Attribute::TUNNEL_ENCAP, b)).collect()),
        ("unknown_transitive", vec![
            Attribute::new_opaque(CODE_UNKNOWN_TRANSITIVE, 0xc0, vec![]),
            Attribute::new_opaque(CODE_UNKNOWN_TRANSITIVE, 0xc0, vec![1, 2, 3]),
            Attribute::new_opaque(CODE_UNKNOWN_TRANSITIVE, 0xe0, vec![1, 2, 3]),       // partial bit already set
            Attribute::new_opaque(CODE_UNKNOWN_TRANSITIVE, 0xc0, vec![0x5a; 255]),
            Attribute::new_opaque(CODE_UNKNOWN_TRANSITIVE, 0xc0, vec![0x5a; 256]),     // -> extended length
            Attribute::new_opaque(CODE_UNKNOWN_TRANSITIVE, 0xd0, vec![0x5a; 300]),     // ext flag given
        ]),
        ("unknown_nontransitive", vec![
            Attribute::new_opaque(CODE_UNKNOWN_NONTRANSITIVE, 0x80, vec![9, 9]),
            Attribute::new_opaque(CODE_UNKNOWN_NONTRANSITIVE, 0x80, vec![9; 300]),
        ]),
    ]
}

/// What a conforming receiver does with an attribute of the given kind.
#[derive(Clone, Copy, Debug, PartialEq, Eq)]
pub enum AttrFate {
    /// delivered unchanged, except that the stored flags are the wire flags: they
    /// gain the extended-length bit (0x10) when the body is longer than 255 bytes
    /// (compare with `attr_key`)
    Kept,
    /// unknown optional transitive: delivered as an opaque attribute with the wire
    /// flags (same extended-length remark)
    KeptExtFlag,
    /// RFC 4271 §5: unrecognised optional non-transitive -> quietly ignored
    Dropped,
    /// RFC 6793 §4.2.3/§6: AS4_PATH / AS4_AGGREGATOR are consumed by the receiver
    /// (merged on 2-byte sessions, discarded on 4-byte sessions); a speaker never
    /// holds them in its RIB, so they are not part of `attribute_sets()`
    As4,
}

pub fn attr_kind_fate(name: &str) -> AttrFate {
    match name {
        "unknown_transitive" => AttrFate::KeptExtFlag,
        "unknown_nontransitive" => AttrFate::Dropped,
        "as4_path" | "as4_aggregator" => AttrFate::As4,
        _ => AttrFate::Kept,
    }
}

pub fn base_attrs() -> Vec<Attribute> {
    vec![origin(0), as_path(&[(SEQ, vec![65001])])]
}

fn sort_by_code(mut v: Vec<Attribute>) -> Vec<Attribute> {
    v.sort_by_key(|a| a.code());
    v
}

/// Attribute sets for UPDATEs: always contain ORIGIN and AS_PATH, never
/// NEXT_HOP / MP_* / AS4_*; ordered by type code.
///   "base", "<kind>#<i>" (base with that kind's i-th value added / substituted),
///   "typical", "all-kinds" (one small value of every kind).
pub fn attribute_sets() -> Vec<(String, Vec<Attribute>)> {
    let mut out = vec![("base".to_string(), base_attrs())];
    let kinds = attr_kinds();
    for (name, vals) in &kinds {
        if attr_kind_fate(name) == AttrFate::As4 {
            continue;
        }
        for (i, a) in vals.iter().enumerate() {
            let mut set: Vec<Attribute> = base_attrs().into_iter().filter(|b| b.code() != a.code()).collect();
            set.push(a.clone());
            out.push((format!("{name}#{i}"), sort_by_code(set)));
        }
    }
    out.push(("typical".to_string(), sort_by_code(vec![
        origin(0),
        as_path(&[(SEQ, vec![65001, 65002])]),
        med(10),
        local_pref(200),
        communities(&[0xfde9_0064, 0xfde9_00c8]),
    ])));
    let mut all = Vec::new();
    for (name, vals) in &kinds {
        if attr_kind_fate(name) == AttrFate::As4 {
            continue;
        }
        let pick = if *name == "as_path" { 2 } else { 0 };
        all.push(vals[pick].clone());
    }
    out.push(("all-kinds".to_string(), sort_by_code(all)));
    out
}

/// Comparison key of an attribute modulo the documented canonicalisation of
/// the extended-length flag: the decoder stores the wire flags, so an attribute
/// whose body exceeds 255 bytes comes back with bit 0x10 set.
/// (code, flags & !0x10, value, binary, is_opaque)
pub fn attr_key(a: &Attribute) -> (u8, u8, Option<u32>, Option<Vec<u8>>, bool) {
    (a.code(), a.flags() & !0x10, a.value(), a.binary().cloned(), a.is_opaque())
}
pub fn attr_keys(v: &[Attribute]) -> Vec<(u8, u8, Option<u32>, Option<Vec<u8>>, bool)> {
    v.iter().map(attr_key).collect()
}

pub fn attrs_wire_len(attrs: &[Attribute]) -> usize {
    attrs.iter().map(|a| a.encode_to_bytes().len()).sum()
}

fn enc_len(body: usize) -> usize {
    body + if body > 255 { 4 } else { 3 }
}
/// body length of an attribute whose total encoded size is `total`, if any
fn body_for(total: usize) -> Option<usize> {
    if (3..=258).contains(&total) {
        Some(total - 3)
    } else if total >= 260 && total - 4 <= 65535 {
        Some(total - 4)
    } else {
        None // 0..=2 and 259 are unreachable with one attribute
    }
}

/// An attribute block (ORIGIN, AS_PATH [SEQ 65001], then COMMUNITY filler and,
/// for the remainder, one unknown optional-transitive attribute code 250) whose
/// encoded size on a 4-octet-AS session is exactly `target` where possible.
/// Returns (attrs, actual size).  Exact for every target >= 16 up to 65535+;
/// the minimum is 13 (targets 14, 15 return 13 or 16).
pub fn attr_block_of_size(target: usize) -> (Vec<Attribute>, usize) {
    let mut v = base_attrs();
    let base = attrs_wire_len(&v); // 13
    if target <= base {
        return (v, base);
    }
    let r = target - base;
    // pure community filler?
    if let Some(b) = body_for(r) {
        if b >= 4 && b % 4 == 0 {
            v.push(communities(&(0..(b / 4) as u32).map(|i| 0xfde9_0000 + i).collect::<Vec<_>>()));
            let n = attrs_wire_len(&v);
            return (v, n);
        }
    }
    // community bulk + opaque remainder
    let mut k = (r.saturating_sub(3 + 4) / 4).min(16383);
    while k >= 1 {
        let c = enc_len(4 * k);
        if c + 3 <= r {
            if let Some(b) = body_for(r - c) {
                v.push(communities(&(0..k as u32).map(|i| 0xfde9_0000 + i).collect::<Vec<_>>()));
                v.push(Attribute::new_opaque(CODE_FILLER, 0xc0, vec![0xa5; b]));
                let n = attrs_wire_len(&v);
                return (v, n);
            }
        }
        k -= 1;
    }
    if let Some(b) = body_for(r) {
        v.push(Attribute::new_opaque(CODE_FILLER, 0xc0, vec![0xa5; b]));
    }
    let n = attrs_wire_len(&v);
    (v, n)
}

// ===========================================================================
// Capabilities and codecs
// ===========================================================================

/// Encoded size of a capability list inside the OPEN (sum of code+len+value).
pub fn caps_wire_len(caps: &[Capability]) -> usize {
    caps.iter()
        .map(|c| 2 + match c {
            Capability::MultiProtocol(_) => 4,
            Capability::RouteRefresh | Capability::ExtendedMessage | Capability::EnhancedRouteRefresh => 0,
            Capability::ExtendedNexthop(v) => v.len() * 6,
            Capability::GracefulRestart { families, .. } => 2 + families.len() * 4,
            Capability::FourOctetAsNumber(_) => 4,
            Capability::AddPath(v) => v.len() * 4,
            Capability::LongLivedGracefulRestart(v) => v.len() * 7,
            Capability::Fqdn { hostname, domain } => 2 + hostname.len() + domain.len(),
            Capability::Unknown { bin, .. } => bin.len(),
        })
        .sum()
}

/// Capability lists, each RFC-valid and small enough for one classic OPEN
/// (RFC 5492: the optional-parameter length is one byte, so the capability
/// bytes must not exceed 253).  Values are canonical (decode(encode(x)) == x):
/// restart time < 4096, GR flags < 16, add-path modes 1..3, ext-nh only
/// (AFI 1, next-hop AFI 2), lower-case FQDN.
pub fn capability_sets() -> Vec<(&'static str, Vec<Capability>)> {
    let fams = families();
    let mp_all: Vec<Capability> = fams.iter().map(|f| Capability::MultiProtocol(*f)).collect();
    let mut v: Vec<(&'static str, Vec<Capability>)> = vec![
        ("none", vec![]),
        ("mp-ipv4", vec![Capability::MultiProtocol(Family::IPV4)]),
        ("mp-ipv4-ipv6", vec![Capability::MultiProtocol(Family::IPV4), Capability::MultiProtocol(Family::IPV6)]),
        ("mp-all", mp_all.clone()),
        ("mp-dup-ipv4", vec![Capability::MultiProtocol(Family::IPV4), Capability::MultiProtocol(Family::IPV4)]),
        ("route-refresh", vec![Capability::RouteRefresh]),
        ("enhanced-route-refresh", vec![Capability::RouteRefresh, Capability::EnhancedRouteRefresh]),
        ("ext-msg", vec![Capability::ExtendedMessage]),
        ("as4-65001", vec![Capability::FourOctetAsNumber(65001)]),
        ("as4-4200000000", vec![Capability::FourOctetAsNumber(4_200_000_000)]),
        ("ext-nh-ipv4", vec![Capability::MultiProtocol(Family::IPV4), Capability::ExtendedNexthop(vec![(Family::IPV4, Family::AFI_IP6)])]),
        // RFC 8950 §4: AFI 1 with SAFI 1, 2, 4, 128
        ("ext-nh-4safis", vec![Capability::ExtendedNexthop(vec![
            (Family::IPV4, Family::AFI_IP6), (Family::IPV4_MC, Family::AFI_IP6),
            (Family::IPV4_MPLS, Family::AFI_IP6), (Family::IPV4_VPN, Family::AFI_IP6),
        ])]),
        ("addpath-rx", vec![Capability::MultiProtocol(Family::IPV4), Capability::AddPath(vec![(Family::IPV4, 1)])]),
        ("addpath-tx", vec![Capability::MultiProtocol(Family::IPV4), Capability::AddPath(vec![(Family::IPV4, 2)])]),
        ("addpath-both", vec![Capability::MultiProtocol(Family::IPV4), Capability::AddPath(vec![(Family::IPV4, 3)])]),
        ("addpath-all-both", vec![Capability::AddPath(fams.iter().map(|f| (*f, 3u8)).collect())]),
        // RFC 4724 §3: flags R=0x8, N=0x4 (RFC 8538); per-AF flag F=0x80
        ("gr-empty", vec![Capability::GracefulRestart { flags: 0, restart_time: 0, families: vec![] }]),
        ("gr-ipv4", vec![Capability::GracefulRestart { flags: 0x8, restart_time: 120, families: vec![(Family::IPV4, 0x80)] }]),
        ("gr-notif-max", vec![Capability::GracefulRestart { flags: 0xc, restart_time: 4095, families: vec![(Family::IPV4, 0x80), (Family::IPV6, 0)] }]),
        ("gr-all", vec![Capability::GracefulRestart { flags: 0x8, restart_time: 90, families: fams.iter().map(|f| (*f, 0x80u8)).collect() }]),
        // RFC 9494 §3.1: <AFI, SAFI, flags, stale time (24 bit)>
        ("llgr-ipv4", vec![Capability::LongLivedGracefulRestart(vec![(Family::IPV4, 0x80, 3600)])]),
        ("llgr-all-max", vec![Capability::LongLivedGracefulRestart(fams.iter().map(|f| (*f, 0u8, 0xff_ffffu32)).collect())]),
        // draft-walton-bgp-hostname-capability
        ("fqdn", vec![Capability::Fqdn { hostname: "rtr1".into(), domain: "example.net".into() }]),
        ("fqdn-nodomain", vec![Capability::Fqdn { hostname: "rtr1".into(), domain: String::new() }]),
        ("fqdn-long", vec![Capability::Fqdn { hostname: "h".repeat(64), domain: "d".repeat(64) }]),
        ("unknown-empty", vec![Capability::Unknown { code: 200, bin: vec![] }]),
        ("unknown-3", vec![Capability::Unknown { code: 200, bin: vec![1, 2, 3] }]),
        ("unknown-251", vec![Capability::Unknown { code: 200, bin: vec![7; 251] }]), // 253 bytes: the most one OPEN can carry
        ("typical", vec![
            Capability::MultiProtocol(Family::IPV4), Capability::MultiProtocol(Family::IPV6),
            Capability::RouteRefresh, Capability::FourOctetAsNumber(65001),
            Capability::GracefulRestart { flags: 0x8, restart_time: 120, families: vec![(Family::IPV4, 0x80), (Family::IPV6, 0x80)] },
        ]),
    ];
    v.push(("all-kinds", vec![
        Capability::MultiProtocol(Family::IPV4), Capability::MultiProtocol(Family::IPV6),
        Capability::RouteRefresh, Capability::ExtendedNexthop(vec![(Family::IPV4, Family::AFI_IP6)]),
        Capability::ExtendedMessage,
        Capability::GracefulRestart { flags: 0xc, restart_time: 120, families: vec![(Family::IPV4, 0x80), (Family::IPV6, 0x80)] },
        Capability::FourOctetAsNumber(4_200_000_000),
        Capability::AddPath(vec![(Family::IPV4, 3), (Family::IPV6, 1)]),
        Capability::EnhancedRouteRefresh,
        Capability::LongLivedGracefulRestart(vec![(Family::IPV4, 0x80, 86400)]),
        Capability::Fqdn { hostname: "rtr1".into(), domain: "example.net".into() },
        Capability::Unknown { code: 200, bin: vec![1, 2, 3] },
    ]));
    // all families negotiated with add-path: 19*6 + 2+19*4 = 192 bytes
    let mut big = mp_all;
    big.push(Capability::AddPath(fams.iter().map(|f| (*f, 3u8)).collect()));
    v.push(("mp-all+addpath-all", big));
    v
}

/// RFC-valid capability lists whose encoding exceeds what a classic OPEN can
/// carry (253 capability bytes; 255 parameter bytes).  A conforming sender must
/// use RFC 9072 extended optional parameters or several capability parameters;
/// the code's encoder does neither (u8 length sums) - expected to misbehave.
pub fn capability_sets_oversize() -> Vec<(&'static str, Vec<Capability>)> {
    let fams = families();
    let mut a: Vec<Capability> = fams.iter().map(|f| Capability::MultiProtocol(*f)).collect();
    a.push(Capability::AddPath(fams.iter().map(|f| (*f, 3u8)).collect()));
    a.push(Capability::GracefulRestart { flags: 0x8, restart_time: 120, families: fams.iter().map(|f| (*f, 0x80u8)).collect() });
    vec![
        ("mp+addpath+gr-all", a),                                                    // 114+78+80 = 272
        ("unknown-252", vec![Capability::Unknown { code: 200, bin: vec![7; 252] }]), // 254: one byte too many
        ("unknown-255", vec![Capability::Unknown { code: 200, bin: vec![7; 255] }]),
        ("two-unknown-200", vec![Capability::Unknown { code: 200, bin: vec![7; 200] }, Capability::Unknown { code: 201, bin: vec![8; 200] }]),
    ]
}

/// Capability list one side of a session advertises for exercising `family`.
/// IPv4 unicast is always advertised as well (the code's extended-next-hop flag
/// is session-wide and only AFI-1 families can set it).  `addpath_mode` 0 = no
/// ADD-PATH capability, 1 = receive, 2 = send, 3 = both (for `family`).
pub fn session_caps(family: Family, as4: bool, ext_msg: bool, ext_nh: bool, addpath_mode: u8) -> Vec<Capability> {
    let mut v = vec![Capability::MultiProtocol(Family::IPV4)];
    if family != Family::IPV4 {
        v.push(Capability::MultiProtocol(family));
    }
    if ext_nh {
        let mut l = vec![(Family::IPV4, Family::AFI_IP6)];
        if family != Family::IPV4 && family.afi() == Family::AFI_IP {
            l.push((family, Family::AFI_IP6));
        }
        v.push(Capability::ExtendedNexthop(l));
    }
    if ext_msg {
        v.push(Capability::ExtendedMessage);
    }
    if as4 {
        v.push(Capability::FourOctetAsNumber(65001));
    }
    if (1..=3).contains(&addpath_mode) {
        v.push(Capability::AddPath(vec![(family, addpath_mode)]));
    }
    v
}

/// One (local, remote) capability pairing; "l" = sender side, "r" = receiver.
#[derive(Clone, Copy, Debug, PartialEq, Eq, Hash)]
pub struct PairDesc {
    pub l_as4: bool,
    pub r_as4: bool,
    pub l_ext_msg: bool,
    pub r_ext_msg: bool,
    pub l_ext_nh: bool,
    pub r_ext_nh: bool,
    pub l_addpath: u8,
    pub r_addpath: u8,
}

impl PairDesc {
    pub const DEFAULT: PairDesc = PairDesc {
        l_as4: true, r_as4: true, l_ext_msg: false, r_ext_msg: false,
        l_ext_nh: false, r_ext_nh: false, l_addpath: 0, r_addpath: 0,
    };
    /// RFC 6793 §4.1: 4-octet AS only if both advertise it
    pub fn two_byte_as(&self) -> bool {
        !(self.l_as4 && self.r_as4)
    }
    /// RFC 8654 §4: extended messages only if both advertise it
    pub fn ext_msg(&self) -> bool {
        self.l_ext_msg && self.r_ext_msg
    }
    pub fn ext_nh(&self) -> bool {
        self.l_ext_nh && self.r_ext_nh
    }
    /// RFC 7911 §4: the sender includes path ids iff it advertised "send" and the
    /// receiver advertised "receive"
    pub fn tx_addpath(&self) -> bool {
        self.l_addpath & 2 != 0 && self.r_addpath & 1 != 0
    }
    pub fn max_len(&self) -> usize {
        if self.ext_msg() { 65535 } else { 4096 }
    }
    pub fn name(&self) -> String {
        let b = |x: bool| if x { 'y' } else { 'n' };
        format!(
            "as4={}{} xmsg={}{} xnh={}{} ap={}{}",
            b(self.l_as4), b(self.r_as4), b(self.l_ext_msg), b(self.r_ext_msg),
            b(self.l_ext_nh), b(self.r_ext_nh), self.l_addpath, self.r_addpath
        )
    }
    /// parse the output of `name()`
    pub fn parse(s: &str) -> Option<PairDesc> {
        let mut d = PairDesc::DEFAULT;
        for tok in s.split_whitespace() {
            let (k, v) = tok.split_once('=')?;
            let c: Vec<char> = v.chars().collect();
            if c.len() != 2 {
                return None;
            }
            let yn = |ch: char| ch == 'y';
            match k {
                "as4" => { d.l_as4 = yn(c[0]); d.r_as4 = yn(c[1]); }
                "xmsg" => { d.l_ext_msg = yn(c[0]); d.r_ext_msg = yn(c[1]); }
                "xnh" => { d.l_ext_nh = yn(c[0]); d.r_ext_nh = yn(c[1]); }
                "ap" => { d.l_addpath = c[0].to_digit(10)? as u8; d.r_addpath = c[1].to_digit(10)? as u8; }
                _ => return None,
            }
        }
        Some(d)
    }
}

/// (sender codec, receiver codec) of a session described by `d`:
/// sender = negotiate(local, remote), receiver = negotiate(remote, local).
pub fn pair_from_desc(family: Family, d: &PairDesc) -> (PeerCodec, PeerCodec) {
    let l = session_caps(family, d.l_as4, d.l_ext_msg, d.l_ext_nh, d.l_addpath);
    let r = session_caps(family, d.r_as4, d.r_ext_msg, d.r_ext_nh, d.r_addpath);
    (PeerCodec::negotiate(&l, &r), PeerCodec::negotiate(&r, &l))
}

/// All 1024 pairings: AS4 {y,n}^2 x ext-msg {y,n}^2 x ext-nh {y,n}^2 x add-path {0..3}^2.
pub fn codec_pairs_desc(family: Family) -> Vec<(PairDesc, PeerCodec, PeerCodec)> {
    let mut out = Vec::with_capacity(1024);
    for i in 0..1024u32 {
        let bit = |n: u32| i >> n & 1 == 1;
        let d = PairDesc {
            l_as4: !bit(0), r_as4: !bit(1), l_ext_msg: bit(2), r_ext_msg: bit(3),
            l_ext_nh: bit(4), r_ext_nh: bit(5),
            l_addpath: (i >> 6 & 3) as u8, r_addpath: (i >> 8 & 3) as u8,
        };
        let (s, r) = pair_from_desc(family, &d);
        out.push((d, s, r));
    }
    out
}

pub fn codec_pairs(family: Family) -> Vec<(String, PeerCodec, PeerCodec)> {
    codec_pairs_desc(family).into_iter().map(|(d, s, r)| (d.name(), s, r)).collect()
}

/// 32-pair subset: every *negotiated outcome* of (2-byte AS, ext-msg, ext-nh) = 2^3, each
/// reached by the symmetric capability choice, x the four add-path outcomes (none, both
/// directions, send-only, receive-only: the two directions are negotiated independently).
pub fn codec_pairs_quick(family: Family) -> Vec<(String, PeerCodec, PeerCodec)> {
    let mut out = Vec::new();
    for i in 0..8u32 {
        let bit = |n: u32| i >> n & 1 == 1;
        for (la, ra) in [(0u8, 0u8), (3, 3), (2, 1), (1, 2)] {
            let d = PairDesc {
                l_as4: !bit(0), r_as4: !bit(0), l_ext_msg: bit(1), r_ext_msg: bit(1),
                l_ext_nh: bit(2), r_ext_nh: bit(2),
                l_addpath: la, r_addpath: ra,
            };
            let (s, r) = pair_from_desc(family, &d);
            out.push((d.name(), s, r));
        }
    }
    out
}

pub fn default_codec_pair(family: Family) -> (PeerCodec, PeerCodec) {
    pair_from_desc(family, &PairDesc::DEFAULT)
}

// ===========================================================================
// Messages
// ===========================================================================

pub fn reach(family: Family, entries: Vec<PathNlri>, nexthop: Option<Nexthop>, attrs: &[Attribute]) -> Message {
    Message::Update(Update::Reach { family, entries, nexthop, attr: Arc::new(attrs.to_vec()) })
}
pub fn unreach(family: Family, entries: Vec<PathNlri>) -> Message {
    Message::Update(Update::Unreach { family, entries })
}
pub fn keepalive() -> Message {
    Message::Keepalive
}

/// reach / unreach with `n` bulk entries (see `nlri_nth`, `path_entries`) and the
/// family's default next hop, plus End-of-RIB.
pub fn updates(family: Family, n: usize, big: bool, addpath: bool, attrs: &[Attribute]) -> Vec<(String, Message)> {
    let e = path_entries(&nlri_bulk(family, n, big), addpath);
    vec![
        (format!("reach[{n}]"), reach(family, e.clone(), default_nexthop(family), attrs)),
        (format!("unreach[{n}]"), unreach(family, e)),
        ("eor".to_string(), Message::eor(family)),
    ]
}

/// OPENs: every `capability_sets()` entry with a matching AS number (RFC 6793
/// §4.1: AS > 65535 goes into the capability and AS_TRANS into the header),
/// plus hold-time / identifier boundary values (RFC 4271 §4.2: hold 0 or >= 3).
pub fn opens() -> Vec<(String, Message)> {
    let mut out = Vec::new();
    let mk = |asn: u32, hold: u16, id: u32, caps: Vec<Capability>| {
        Message::Open(Open { as_number: asn, holdtime: HoldTime::new(hold).unwrap(), router_id: id, capability: caps })
    };
    for (name, caps) in capability_sets() {
        let asn = caps.iter().find_map(|c| if let Capability::FourOctetAsNumber(a) = c { Some(*a) } else { None }).unwrap_or(65001);
        out.push((format!("caps:{name}"), mk(asn, 90, 0xc000_0201, caps)));
    }
    for hold in [0u16, 3, 180, 65535] {
        out.push((format!("hold:{hold}"), mk(65001, hold, 0xc000_0201, vec![])));
    }
    for id in [1u32, 0x0a00_0001, 0xdfff_ffff] {
        out.push((format!("id:{id:#x}"), mk(65001, 90, id, vec![])));
    }
    out.push(("as:1".into(), mk(1, 90, 1, vec![])));
    out.push(("as:65535".into(), mk(65535, 90, 1, vec![Capability::FourOctetAsNumber(65535)])));
    out.push(("as:65536".into(), mk(65536, 90, 1, vec![Capability::FourOctetAsNumber(65536)])));
    out
}

/// One NOTIFICATION per variant of the enum (each code/subcode the code can
/// name), data bytes where the variant carries them, plus two unnamed ones.
pub fn notifications() -> Vec<(String, Message)> {
    use Notification as N;
    let d = || vec![0xde, 0xad];
    let v: Vec<Notification> = vec![
        N::BadMessageLength { data: vec![0x10, 0x01] },
        N::BadMessageType { data: vec![9] },
        N::OpenMalformed,
        N::OpenUnsupportedVersionNumber { data: vec![0, 4] },
        N::OpenBadPeerAs,
        N::OpenBadBgpIdentifier,
        N::OpenUnsupportedOptionalParameter { data: d() },
        N::OpenUnsupportedCapability { data: vec![65, 4, 0, 0, 0xfd, 0xe9] },
        N::OpenUnacceptableHoldTime { data: vec![0, 1] },
        N::UpdateMalformedAttributeList,
        N::UpdateUnrecognizedWellKnownAttribute { data: vec![0x40, 99, 0] },
        N::UpdateMissingWellKnownAttribute { data: vec![1] },
        N::UpdateAttributeFlagsError { data: vec![0x80, 1, 1, 0] },
        N::UpdateAttributeLengthError { data: vec![0x40, 1, 2, 0, 0] },
        N::UpdateInvalidOriginAttribute { data: vec![0x40, 1, 1, 3] },
        N::UpdateInvalidNextHopAttribute { data: vec![0x40, 3, 4, 0, 0, 0, 0] },
        N::UpdateOptionalAttributeError,
        N::UpdateInvalidNetworkField,
        N::UpdateMalformedAsPath,
        N::HoldTimerExpired,
        N::FsmUnexpectedState { state: 0 },
        N::FsmUnexpectedState { state: 3 },
        N::CeaseMaxPrefixReached,
        N::CeaseAdminShutdown,
        N::CeasePeerDeconfigured,
        N::CeaseAdministrativeReset,
        N::CeaseConnectionRejected,
        N::CeaseOtherConfigurationChange,
        N::CeaseConnectionCollision,
        N::CeaseOutOfResources,
        N::CeaseHardReset,
        N::RouteRefreshInvalidLength { data: d() },
        N::Other { code: 6, subcode: 10, data: vec![] },
        N::Other { code: 9, subcode: 1, data: vec![1, 2, 3] },
        N::BadMessageLength { data: vec![] },
        N::UpdateAttributeLengthError { data: vec![0x77; 300] },
    ];
    v.into_iter()
        .map(|n| (format!("{}/{}+{}", n.notification_code(), n.notification_subcode(), n.notification_data().len()), Message::Notification(n)))
        .collect()
}

pub fn route_refreshes() -> Vec<(String, Message)> {
    families().into_iter().map(|f| (family_name(f).to_string(), Message::RouteRefresh { family: f })).collect()
}

// ===========================================================================
// Encoding / decoding wrappers
// ===========================================================================

/// `PeerCodec::encode_to(&mut self, &Message, &mut B) -> Result<usize, Error>`
/// appends one or more wire messages to the buffer and returns how many it
/// wrote.  Returns (that count, the raw bytes).
pub fn encode_counted(codec: &mut PeerCodec, msg: &Message) -> Result<(usize, Vec<u8>), String> {
    let mut buf: Vec<u8> = Vec::new();
    match codec.encode_to(msg, &mut buf) {
        Ok(n) => Ok((n, buf)),
        Err(e) => Err(format!("encode_to: {e}")),
    }
}

/// Split a buffer into BGP frames by the header length field (bytes 16..18).
pub fn split_frames(buf: &[u8]) -> Result<Vec<Vec<u8>>, String> {
    let mut out = Vec::new();
    let mut pos = 0usize;
    while pos < buf.len() {
        if buf.len() - pos < 19 {
            return Err(format!("{} trailing bytes at offset {pos}: shorter than a header", buf.len() - pos));
        }
        let len = u16::from_be_bytes([buf[pos + 16], buf[pos + 17]]) as usize;
        if len < 19 {
            return Err(format!("frame at offset {pos}: header length {len} < 19"));
        }
        if pos + len > buf.len() {
            return Err(format!("frame at offset {pos}: header length {len} exceeds the {} bytes left", buf.len() - pos));
        }
        out.push(buf[pos..pos + len].to_vec());
        pos += len;
    }
    Ok(out)
}

/// encode + split into frames.
pub fn encode(codec: &mut PeerCodec, msg: &Message) -> Result<Vec<Vec<u8>>, String> {
    let (_, buf) = encode_counted(codec, msg)?;
    split_frames(&buf)
}

/// `PeerCodec::parse_message(&mut self, &[u8])` on exactly one frame.  (The
/// streaming entry point is `try_parse(&mut BytesMut) -> Result<Option<_>, _>`,
/// which checks the header length against the negotiated maximum, splits one
/// frame off and calls parse_message.)
pub fn decode_frame(codec: &mut PeerCodec, frame: &[u8]) -> Result<ParsedMessage, Notification> {
    codec.parse_message(frame)
}

/// Decode hand-written NLRI bytes of `family` with the code's decoder by
/// wrapping them into an UPDATE with MP_REACH_NLRI (legacy NLRI field for IPv4).
pub fn nlri_from_wire(family: Family, addpath: bool, nlri: &[u8]) -> Result<Vec<PathNlri>, String> {
    let mut codec = PeerCodec::new();
    codec.set_family(family, rustybgp_packet::bgp::FamilyState { addpath_rx: addpath, addpath_tx: addpath });
    let mut attrs: Vec<u8> = vec![0x40, 1, 1, 0, 0x40, 2, 0];
    let mut tail: Vec<u8> = Vec::new();
    if family == Family::IPV4 {
        attrs.extend_from_slice(&[0x40, 3, 4, 192, 0, 2, 1]);
        tail.extend_from_slice(nlri);
    } else {
        let nh: Vec<u8> = match default_nexthop(family) {
            None => vec![],
            Some(n) => {
                let mut b = if matches!(family, Family::IPV4_VPN | Family::IPV6_VPN) { vec![0u8; 8] } else { vec![] };
                b.extend_from_slice(&n.to_bytes());
                b
            }
        };
        let mut mp = family.afi().to_be_bytes().to_vec();
        mp.push(family.safi());
        mp.push(nh.len() as u8);
        mp.extend_from_slice(&nh);
        mp.push(0);
        mp.extend_from_slice(nlri);
        attrs.extend_from_slice(&[0x90, 14]);
        attrs.extend_from_slice(&(mp.len() as u16).to_be_bytes());
        attrs.extend_from_slice(&mp);
    }
    let total = 19 + 2 + 2 + attrs.len() + tail.len();
    let mut f = vec![0xffu8; 16];
    f.extend_from_slice(&(total as u16).to_be_bytes());
    f.push(2);
    f.extend_from_slice(&[0, 0]);
    f.extend_from_slice(&(attrs.len() as u16).to_be_bytes());
    f.extend_from_slice(&attrs);
    f.extend_from_slice(&tail);
    match codec.parse_message(&f) {
        Ok(ParsedMessage::Update(ParsedUpdate::Routes { reach, mp_reach, error_attrs, .. })) => {
            if !error_attrs.is_empty() {
                return Err(format!("attribute errors: {error_attrs:?}"));
            }
            Ok(reach.or(mp_reach).map(|r| r.entries).unwrap_or_default())
        }
        Ok(_) => Err("not a route-carrying UPDATE".into()),
        Err(n) => Err(format!("decoder rejected the NLRI: {n}")),
    }
}
