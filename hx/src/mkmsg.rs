// mkmsg -- generators of VALID BGP values for rustybgp-packet.
//
// Crate-agnostic: refers to packet types only through `rustybgp_packet::...`,
// uses std only besides that, no inner attributes.  Compiles as `mod mkmsg` of
// the hx crate and when `include!`d into a module of the daemon crate.
//
// Every value produced here is (a) well-formed according to the RFC quoted next
// to it and (b) accepted by the repository's own decoder; c04.rs (smoke test)
// checks (b) for all of them.  Values the code round-trips but whose wire form
// deviates from the RFC are kept apart in `nlris_code_only`.
//
// NOTE: bgp.rs has 19 real `Family::` constants (+ `EMPTY`); DESIGN.md says 20.
//
// ---------------------------------------------------------------------------
// PUBLIC API (summary; details at each item)
// ---------------------------------------------------------------------------
// Families
//   families() -> Vec<Family>                  the 19 families of bgp.rs, fixed order
//   family_name(Family) -> &'static str        "ipv4", "ipv6-vpn", "l2vpn-evpn", ...
//   family_index(Family) -> Option<usize>      index into families()
// NLRI
//   enum NlriSize { Min, Max, All }
//   nlris(family, size) -> Vec<Nlri>           Min/Max: exactly one value of minimal /
//                                              maximal encoded size (single label);
//                                              All: every named value (distinct)
//   nlris_named(family) -> Vec<(&'static str, Nlri)>   same as All, with names
//   nlri_nth(family, i, big) -> Nlri           injective in i (i < 2^24 - 2^16): bulk
//                                              supply for frame filling; big = maximal
//                                              shape, !big = smallest shape carrying i
//   nlri_bulk(family, n, big) -> Vec<Nlri>     nlri_nth for i in 0..n
//   nlris_code_only(family) -> Vec<(&'static str, Nlri)>   round-trips through the
//                                              code but wire form is NOT RFC-conformant
//   nlri_has_label_stack(&Nlri) -> bool        >1 MPLS label (RFC 8277 §2.1: only legal
//                                              with the Multiple Labels capability, which
//                                              the code does not model; RFC 3107 allowed it)
//   nlri_wire_len(&Nlri) -> usize              encoded size without path-id
//   unreach_canonical(&Nlri) -> Nlri           what a receiver returns for this NLRI when
//                                              it arrives in a withdrawal (labeled
//                                              unicast: RFC 8277 §2.4 label ignored -> 0)
//   path_entries(&[Nlri], addpath) -> Vec<PathNlri>   path_id = i+1 if addpath else 0
// Next hops
//   struct NexthopCase { name, nexthop: Option<Nexthop>, needs_ext_nh: bool }
//   nexthops(family) -> Vec<NexthopCase>       RFC-valid next hops per family
//   default_nexthop(family) -> Option<Nexthop> the natural one (AFI 1 / EVPN / LS: IPv4,
//                                              AFI 2: IPv6, flowspec: None)
// Attributes   (NEXT_HOP / MP_REACH / MP_UNREACH are NOT attributes here: the code
//               models them as Update::Reach.nexthop and synthesises them on encode)
//   attr_kinds() -> Vec<(&'static str, Vec<Attribute>)>   every kind, several values each
//   enum AttrFate { Kept, KeptExtFlag, Dropped, As4 };  attr_kind_fate(name)
//   base_attrs() -> Vec<Attribute>             ORIGIN IGP + AS_PATH [SEQ 65001]
//   attribute_sets() -> Vec<(String, Vec<Attribute>)>  base, base+each kind value,
//                                              "typical", "all-kinds"
//   attr_block_of_size(target) -> (Vec<Attribute>, usize)  block whose 4-byte-AS wire
//                                              size is target (or as close as possible)
//   attrs_wire_len(&[Attribute]) -> usize      sum of encode_to_bytes lengths
//   origin/as_path/med/local_pref/communities/... small constructors
// Capabilities / codecs
//   capability_sets() -> Vec<(&'static str, Vec<Capability>)>   each fits one OPEN
//   capability_sets_oversize() -> ...          need > 255 bytes of optional parameters
//                                              (RFC 9072); the encoder cannot emit them
//   caps_wire_len(&[Capability]) -> usize
//   session_caps(family, as4, ext_msg, ext_nh, addpath_mode) -> Vec<Capability>
//   struct PairDesc { l_as4, r_as4, l_ext_msg, r_ext_msg, l_ext_nh, r_ext_nh,
//                     l_addpath, r_addpath } + .two_byte_as() .ext_msg() .ext_nh()
//                     .tx_addpath() .max_len() .name()
//   codec_pairs_desc(family) -> Vec<(PairDesc, PeerCodec, PeerCodec)>  all 1024
//   codec_pairs(family) -> Vec<(String, PeerCodec /*sender*/, PeerCodec /*receiver*/)>
//   codec_pairs_quick(family) -> same, 16-pair subset
//   default_codec_pair(family) -> (PeerCodec, PeerCodec)   AS4 both, nothing else
//   pair_from_desc(family, &PairDesc) -> (PeerCodec, PeerCodec)
// Messages
//   reach(family, entries, nexthop, attrs) / unreach(family, entries) -> Message
//   updates(family, n, big, addpath, &attrs) -> Vec<(String, Message)>  reach/unreach/eor
//   opens() / notifications() / route_refreshes() -> Vec<(String, Message)>
//   keepalive() -> Message
// Encoding / decoding
//   encode(&mut codec, &msg) -> Result<Vec<Vec<u8>>, String>       frames
//   encode_counted(&mut codec, &msg) -> Result<(usize, Vec<u8>), String>  (returned
//                                              wire count, raw buffer)
//   split_frames(&[u8]) -> Result<Vec<Vec<u8>>, String>
//   decode_frame(&mut codec, &[u8]) -> Result<ParsedMessage, Notification>
//   nlri_from_wire(family, addpath, &[u8]) -> Result<Vec<PathNlri>, String>  decode
//                                              hand-written NLRI bytes with the code
// Panics: `encode*` / `decode_frame` call the subject directly; wrap in vx::report::catch.
// ---------------------------------------------------------------------------

use rustybgp_packet::bgp::{
    Attribute, Capability, Family, HoldTime, Ipv4Net, Ipv6Net, Message, Nexthop, Nlri,
    Notification, Open, ParsedMessage, ParsedUpdate, PathNlri, PeerCodec, Update,
};
use rustybgp_packet::evpn::{
    Esi, EthernetAutoDiscoveryRoute, EthernetIpPrefixRoute, EthernetSegmentRoute, EvpnNlri,
    InclusiveMulticastEthernetTag, MacIpAdvertisement,
};
use rustybgp_packet::flowspec::{
    FlowspecV4Component as F4, FlowspecV4Nlri, FlowspecV6Component as F6, FlowspecV6Nlri,
    FlowspecVpnV4Nlri, FlowspecVpnV6Nlri, Op,
};
use rustybgp_packet::labeled::{LabeledV4Nlri, LabeledV6Nlri};
use rustybgp_packet::ls::{
    BgpLsLinkNlri, BgpLsNlri, BgpLsNodeNlri, BgpLsPrefixNlri, BgpLsSrv6SidNlri, LinkDescTlv,
    NodeDescriptor, PrefixDescTlv,
};
use rustybgp_packet::mpls::{MplsLabel, MplsLabelStack};
use rustybgp_packet::mup::{
    MupDirectSegmentDiscoveryRoute, MupInterworkSegmentDiscoveryRoute, MupNlri,
    MupType1SessionTransformedRoute, MupType2SessionTransformedRoute,
};
use rustybgp_packet::rd::RouteDistinguisher;
use rustybgp_packet::rtc::{MatchType, RtcNlri};
use rustybgp_packet::sr_policy::SrPolicyNlri;
use rustybgp_packet::vpn::{VpnV4Nlri, VpnV6Nlri};
use std::net::{IpAddr, Ipv4Addr, Ipv6Addr};
use std::sync::Arc;

// ===========================================================================
// Families
// ===========================================================================

/// All address families the codec supports (the `Family::` constants of bgp.rs
/// except EMPTY: 19 of them), in a fixed order.
pub fn families() -> Vec<Family> {
    vec![
        Family::IPV4,
        Family::IPV6,
        Family::IPV4_MC,
        Family::IPV6_MC,
        Family::IPV4_MPLS,
        Family::IPV6_MPLS,
        Family::IPV4_VPN,
        Family::IPV6_VPN,
        Family::L2VPN_EVPN,
        Family::RTC,
        Family::IPV4_FLOWSPEC,
        Family::IPV6_FLOWSPEC,
        Family::IPV4_FLOWSPEC_VPN,
        Family::IPV6_FLOWSPEC_VPN,
        Family::LS,
        Family::IPV4_MUP,
        Family::IPV6_MUP,
        Family::IPV4_SRPOLICY,
        Family::IPV6_SRPOLICY,
    ]
}

pub fn family_name(f: Family) -> &'static str {
    match f {
        Family::IPV4 => "ipv4",
        Family::IPV6 => "ipv6",
        Family::IPV4_MC => "ipv4-mc",
        Family::IPV6_MC => "ipv6-mc",
        Family::IPV4_MPLS => "ipv4-mpls",
        Family::IPV6_MPLS => "ipv6-mpls",
        Family::IPV4_VPN => "ipv4-vpn",
        Family::IPV6_VPN => "ipv6-vpn",
        Family::L2VPN_EVPN => "l2vpn-evpn",
        Family::RTC => "rtc",
        Family::IPV4_FLOWSPEC => "ipv4-flowspec",
        Family::IPV6_FLOWSPEC => "ipv6-flowspec",
        Family::IPV4_FLOWSPEC_VPN => "ipv4-flowspec-vpn",
        Family::IPV6_FLOWSPEC_VPN => "ipv6-flowspec-vpn",
        Family::LS => "ls",
        Family::IPV4_MUP => "ipv4-mup",
        Family::IPV6_MUP => "ipv6-mup",
        Family::IPV4_SRPOLICY => "ipv4-srpolicy",
        Family::IPV6_SRPOLICY => "ipv6-srpolicy",
        _ => "unknown",
    }
}

pub fn family_index(f: Family) -> Option<usize> {
    families().iter().position(|x| *x == f)
}

fn is_flowspec(f: Family) -> bool {
    matches!(
        f,
        Family::IPV4_FLOWSPEC
            | Family::IPV6_FLOWSPEC
            | Family::IPV4_FLOWSPEC_VPN
            | Family::IPV6_FLOWSPEC_VPN
    )
}

// ===========================================================================
// NLRI
// ===========================================================================

#[derive(Clone, Copy, Debug, PartialEq, Eq)]
pub enum NlriSize {
    /// exactly one value: the smallest encoding the family allows
    Min,
    /// exactly one value: the largest single-label encoding the family allows
    /// (flowspec / LS have no hard maximum: a value well above the 17 bytes the
    /// encoder reserves per NLRI, flowspec with the 2-byte length form)
    Max,
    /// every named value
    All,
}

fn p4(a: u8, b: u8, c: u8, d: u8, mask: u8) -> Ipv4Net {
    Ipv4Net { addr: Ipv4Addr::new(a, b, c, d), mask }
}
fn p6(s: &str, mask: u8) -> Ipv6Net {
    Ipv6Net { addr: s.parse().unwrap(), mask }
}
fn stack(ls: &[u32]) -> MplsLabelStack {
    MplsLabelStack::new(ls.iter().map(|l| MplsLabel::new(*l)).collect())
}
fn rd0() -> RouteDistinguisher {
    RouteDistinguisher::TwoOctetAs { admin: 65000, assigned: 100 }
}
fn rd1() -> RouteDistinguisher {
    RouteDistinguisher::Ipv4 { admin: Ipv4Addr::new(192, 0, 2, 1), assigned: 7 }
}
fn rd2() -> RouteDistinguisher {
    RouteDistinguisher::FourOctetAs { admin: 4_200_000_000, assigned: 65535 }
}
fn v4a(s: &str) -> IpAddr {
    IpAddr::V4(s.parse().unwrap())
}
fn v6a(s: &str) -> IpAddr {
    IpAddr::V6(s.parse().unwrap())
}

/// Flowspec numeric operator (RFC 8955 §4.2.1.1): `cmp` = lt(4)|gt(2)|eq(1);
/// `and` = AND bit (must be 0 on the first operator); `end` = end-of-list.
fn op(cmp: u8, and: bool, end: bool, value: u64) -> Op {
    Op {
        bits: cmp | if and { Op::AND } else { 0 } | if end { Op::END } else { 0 },
        value,
    }
}
/// "== v", single operator list
fn eq1(v: u64) -> Vec<Op> {
    vec![op(Op::EQ, false, true, v)]
}
/// ">= lo AND <= hi"
fn range(lo: u64, hi: u64) -> Vec<Op> {
    vec![op(Op::GT_EQ, false, false, lo), op(Op::LT_EQ, true, true, hi)]
}
/// "== v0 OR == v1 OR ..." (n operators)
fn any_of(vs: &[u64]) -> Vec<Op> {
    let n = vs.len();
    vs.iter()
        .enumerate()
        .map(|(i, v)| op(Op::EQ, false, i + 1 == n, *v))
        .collect()
}

fn fs4_all_components(dst: Ipv4Net, src: Ipv4Net, ports: &[u64]) -> Vec<F4> {
    // RFC 8955 §4.2: components in strictly increasing type order, each at most once.
    vec![
        F4::DstPrefix(dst),                        // 1
        F4::SrcPrefix(src),                        // 2
        F4::Protocol(any_of(&[6, 17])),            // 3 (1-byte values)
        F4::Port(any_of(ports)),                   // 4 (1- or 2-byte values)
        F4::DstPort(range(1024, 65535)),           // 5
        F4::SrcPort(eq1(179)),                     // 6
        F4::IcmpType(eq1(8)),                      // 7
        F4::IcmpCode(eq1(0)),                      // 8
        F4::TcpFlags(vec![op(Op::MATCH, false, true, 0x12)]), // 9 bitmask: SYN|ACK
        F4::PacketLen(range(64, 1500)),            // 10
        F4::Dscp(eq1(46)),                         // 11 (6-bit value)
        F4::Fragment(vec![op(Op::MATCH, false, true, 0x02)]), // 12 bitmask: IsF
    ]
}

fn fs6_all_components(dst: Ipv6Net, src: Ipv6Net, ports: &[u64]) -> Vec<F6> {
    // RFC 8956 §3: offset 0 (pattern = the whole prefix); DF bit of Fragment MUST be 0.
    vec![
        F6::DstPrefix { prefix: dst, offset: 0 },
        F6::SrcPrefix { prefix: src, offset: 0 },
        F6::NextHeader(any_of(&[6, 58])),
        F6::Port(any_of(ports)),
        F6::DstPort(range(1024, 65535)),
        F6::SrcPort(eq1(179)),
        F6::IcmpType(eq1(128)),
        F6::IcmpCode(eq1(0)),
        F6::TcpFlags(vec![op(Op::MATCH, false, true, 0x12)]),
        F6::PacketLen(range(64, 1500)),
        F6::Dscp(eq1(46)),
        F6::Fragment(vec![op(Op::MATCH, false, true, 0x02)]),
        F6::FlowLabel(eq1(0xABCDE)), // 20-bit value -> 4-byte operand
    ]
}

fn many_ports(n: u64) -> Vec<u64> {
    // 2-byte values: 3 wire bytes per operator
    (0..n).map(|i| 1000 + i).collect()
}

fn ls_node_full(id: u64) -> NodeDescriptor {
    NodeDescriptor {
        asn: Some(65001),
        bgp_ls_id: Some(1),
        ospf_area_id: Some(0),
        igp_router_id: Some(vec![10, 0, 0, (id & 0xff) as u8]), // OSPF non-pseudonode: 4 bytes
        bgp_router_id: None,
        bgp_confederation_member: None,
    }
}
fn ls_node_isis(b: u8) -> NodeDescriptor {
    NodeDescriptor {
        asn: Some(4_200_000_000),
        bgp_ls_id: Some(0xffff_ffff),
        ospf_area_id: None,
        igp_router_id: Some(vec![0x19, 0x21, 0x68, 0x00, 0x10, b, 0x02]), // IS-IS pseudonode: 7 bytes
        bgp_router_id: Some([192, 0, 2, b]),
        bgp_confederation_member: Some(64512),
    }
}

fn ls_link_big(identifier: u64) -> BgpLsNlri {
    let a6: Ipv6Addr = "2001:db8::1".parse().unwrap();
    let b6: Ipv6Addr = "2001:db8::2".parse().unwrap();
    BgpLsNlri::Link(BgpLsLinkNlri {
        protocol_id: rustybgp_packet::ls::PROTOCOL_ISIS_L2,
        identifier,
        local_node: ls_node_isis(1),
        remote_node: ls_node_isis(2),
        // RFC 9552 §5.2.2 link descriptors, ascending TLV type
        link_desc: vec![
            LinkDescTlv::LinkId { local: 1, remote: 2 },
            LinkDescTlv::Ipv4InterfaceAddr([10, 0, 0, 1]),
            LinkDescTlv::Ipv4NeighborAddr([10, 0, 0, 2]),
            LinkDescTlv::Ipv6InterfaceAddr(a6.octets()),
            LinkDescTlv::Ipv6NeighborAddr(b6.octets()),
            LinkDescTlv::MultiTopoId(vec![0, 2, 0x0fff]),
        ],
    })
}

/// Named NLRI values of one family: distinct, all RFC-valid and accepted by
/// the decoder.  First entry = minimal size.
pub fn nlris_named(family: Family) -> Vec<(&'static str, Nlri)> {
    let mut v: Vec<(&'static str, Nlri)> = Vec::new();
    match family {
        Family::IPV4 | Family::IPV4_MC => {
            // RFC 4271 §4.3: <length, prefix>, trailing bits zero
            v.push(("0/0", Nlri::V4(p4(0, 0, 0, 0, 0))));
            v.push(("10/8", Nlri::V4(p4(10, 0, 0, 0, 8))));
            v.push(("10.128/9", Nlri::V4(p4(10, 128, 0, 0, 9))));
            v.push(("172.16/12", Nlri::V4(p4(172, 16, 0, 0, 12))));
            v.push(("192.0.2/24", Nlri::V4(p4(192, 0, 2, 0, 24))));
            v.push(("192.0.2.128/25", Nlri::V4(p4(192, 0, 2, 128, 25))));
            v.push(("198.51.100.1/32", Nlri::V4(p4(198, 51, 100, 1, 32))));
            v.push(("255.255.255.255/32", Nlri::V4(p4(255, 255, 255, 255, 32))));
        }
        Family::IPV6 | Family::IPV6_MC => {
            v.push(("::/0", Nlri::V6(p6("::", 0))));
            v.push(("2001:db8::/32", Nlri::V6(p6("2001:db8::", 32))));
            v.push(("2001:db8:0:1::/64", Nlri::V6(p6("2001:db8:0:1::", 64))));
            v.push(("2001:db8:0:1:8000::/65", Nlri::V6(p6("2001:db8:0:1:8000::", 65))));
            v.push(("2001:db8::2/127", Nlri::V6(p6("2001:db8::2", 127))));
            v.push(("2001:db8::1/128", Nlri::V6(p6("2001:db8::1", 128))));
            v.push((
                "ffff:..:ffff/128",
                Nlri::V6(p6("ffff:ffff:ffff:ffff:ffff:ffff:ffff:ffff", 128)),
            ));
        }
        Family::IPV4_MPLS => {
            // RFC 8277 §2.2: <length, label(3, S=1), prefix>
            let l = |ls: &[u32], p: Ipv4Net| Nlri::LabeledV4(LabeledV4Nlri { labels: stack(ls), prefix: p });
            v.push(("L100 0/0", l(&[100], p4(0, 0, 0, 0, 0))));
            v.push(("L16 10.1/16", l(&[16], p4(10, 1, 0, 0, 16))));
            v.push(("L3 192.0.2/24", l(&[3], p4(192, 0, 2, 0, 24))));
            v.push(("L1048575 198.51.100.1/32", l(&[0xFFFFF], p4(198, 51, 100, 1, 32))));
            v.push(("stack2 203.0.113.1/32", l(&[100, 200], p4(203, 0, 113, 1, 32))));
            v.push(("stack3 203.0.113.2/32", l(&[100, 200, 300], p4(203, 0, 113, 2, 32))));
        }
        Family::IPV6_MPLS => {
            let l = |ls: &[u32], p: Ipv6Net| Nlri::LabeledV6(LabeledV6Nlri { labels: stack(ls), prefix: p });
            v.push(("L100 ::/0", l(&[100], p6("::", 0))));
            v.push(("L2 2001:db8::/32", l(&[2], p6("2001:db8::", 32))));
            v.push(("L1048575 2001:db8::1/128", l(&[0xFFFFF], p6("2001:db8::1", 128))));
            v.push(("stack2 2001:db8::2/128", l(&[100, 200], p6("2001:db8::2", 128))));
            // 5 labels is the most that fits the one-byte bit length with /128 (120+128=248)
            v.push(("stack5 2001:db8::3/128", l(&[1, 2, 3, 4, 5].map(|x| x + 100), p6("2001:db8::3", 128))));
        }
        Family::IPV4_VPN => {
            // RFC 4364 §4.3.4 + RFC 8277: <length, label, RD(8), prefix>
            let n = |ls: &[u32], rd, p| Nlri::VpnV4(VpnV4Nlri { labels: stack(ls), rd, prefix: p });
            v.push(("L100 rd0 0/0", n(&[100], rd0(), p4(0, 0, 0, 0, 0))));
            v.push(("L16 rd1 10.1/16", n(&[16], rd1(), p4(10, 1, 0, 0, 16))));
            v.push(("L1048575 rd2 192.0.2/24", n(&[0xFFFFF], rd2(), p4(192, 0, 2, 0, 24))));
            v.push(("L100 rd0 198.51.100.1/32", n(&[100], rd0(), p4(198, 51, 100, 1, 32))));
            v.push(("L100 rd1 198.51.100.1/32", n(&[100], rd1(), p4(198, 51, 100, 1, 32))));
            v.push(("stack2 rd0 203.0.113.1/32", n(&[100, 200], rd0(), p4(203, 0, 113, 1, 32))));
            // 6 labels: 144+64+32 = 240 bits
            v.push(("stack6 rd0 203.0.113.2/32", n(&[101, 102, 103, 104, 105, 106], rd0(), p4(203, 0, 113, 2, 32))));
        }
        Family::IPV6_VPN => {
            // RFC 4659 §3.2.1
            let n = |ls: &[u32], rd, p| Nlri::VpnV6(VpnV6Nlri { labels: stack(ls), rd, prefix: p });
            v.push(("L100 rd0 ::/0", n(&[100], rd0(), p6("::", 0))));
            v.push(("L16 rd1 2001:db8::/32", n(&[16], rd1(), p6("2001:db8::", 32))));
            v.push(("L1048575 rd2 2001:db8:0:1::/64", n(&[0xFFFFF], rd2(), p6("2001:db8:0:1::", 64))));
            v.push(("L100 rd0 2001:db8::1/128", n(&[100], rd0(), p6("2001:db8::1", 128))));
            // 2 labels: 48+64+128 = 240 bits
            v.push(("stack2 rd0 2001:db8::2/128", n(&[100, 200], rd0(), p6("2001:db8::2", 128))));
        }
        Family::L2VPN_EVPN => {
            let esi = Esi([0x00, 1, 2, 3, 4, 5, 6, 7, 8, 9]);
            let mac = [0x02, 0x00, 0x5e, 0x10, 0x00, 0x01];
            // type 3, IPv4 originator: 17 bytes (smallest), RFC 7432 §7.3
            v.push(("t3-v4", Nlri::Evpn(EvpnNlri::InclusiveMulticastEthernetTag(InclusiveMulticastEthernetTag {
                rd: rd0(), etag: 0, originating_router_ip: v4a("192.0.2.1"),
            }))));
            v.push(("t3-v6", Nlri::Evpn(EvpnNlri::InclusiveMulticastEthernetTag(InclusiveMulticastEthernetTag {
                rd: rd1(), etag: 100, originating_router_ip: v6a("2001:db8::1"),
            }))));
            // type 1, RFC 7432 §7.1: 25 bytes; MAX-ET = 0xFFFFFFFF for per-ES A-D
            v.push(("t1", Nlri::Evpn(EvpnNlri::EthernetAutoDiscovery(EthernetAutoDiscoveryRoute {
                rd: rd0(), esi, etag: 0xFFFF_FFFF, label: 0,
            }))));
            v.push(("t1-label", Nlri::Evpn(EvpnNlri::EthernetAutoDiscovery(EthernetAutoDiscoveryRoute {
                rd: rd2(), esi: Esi::ZERO, etag: 5, label: 0xFFFFFF,
            }))));
            // type 2, RFC 7432 §7.2: MAC only 33, +IPv4 37, +IPv6 49, +label2 +3
            v.push(("t2-mac", Nlri::Evpn(EvpnNlri::MacIpAdvertisement(MacIpAdvertisement {
                rd: rd0(), esi: Esi::ZERO, etag: 0, mac, ip: None, label1: 10010, label2: None,
            }))));
            v.push(("t2-mac-v4", Nlri::Evpn(EvpnNlri::MacIpAdvertisement(MacIpAdvertisement {
                rd: rd0(), esi, etag: 0, mac, ip: Some(v4a("10.0.0.1")), label1: 10010, label2: None,
            }))));
            v.push(("t2-mac-v4-l2", Nlri::Evpn(EvpnNlri::MacIpAdvertisement(MacIpAdvertisement {
                rd: rd1(), esi, etag: 1, mac, ip: Some(v4a("10.0.0.1")), label1: 10010, label2: Some(10020),
            }))));
            v.push(("t2-mac-v6-l2", Nlri::Evpn(EvpnNlri::MacIpAdvertisement(MacIpAdvertisement {
                rd: rd2(), esi, etag: 2, mac: [0xff; 6], ip: Some(v6a("2001:db8::1")), label1: 0xFFFFFF, label2: Some(1),
            }))));
            // type 4, RFC 7432 §7.4: 23 / 35
            v.push(("t4-v4", Nlri::Evpn(EvpnNlri::EthernetSegment(EthernetSegmentRoute {
                rd: rd0(), esi, originating_router_ip: v4a("192.0.2.1"),
            }))));
            v.push(("t4-v6", Nlri::Evpn(EvpnNlri::EthernetSegment(EthernetSegmentRoute {
                rd: rd0(), esi, originating_router_ip: v6a("2001:db8::1"),
            }))));
            // type 5, RFC 9136 §3.1: 34 / 58
            v.push(("t5-v4", Nlri::Evpn(EvpnNlri::EthernetIpPrefix(EthernetIpPrefixRoute {
                rd: rd0(), esi: Esi::ZERO, etag: 0, ip_prefix: v4a("10.1.0.0"), prefix_len: 16,
                gateway_ip: v4a("0.0.0.0"), label: 5000,
            }))));
            v.push(("t5-v4-gw", Nlri::Evpn(EvpnNlri::EthernetIpPrefix(EthernetIpPrefixRoute {
                rd: rd0(), esi: Esi::ZERO, etag: 0, ip_prefix: v4a("10.2.0.0"), prefix_len: 16,
                gateway_ip: v4a("10.0.0.254"), label: 0,
            }))));
            v.push(("t5-v6", Nlri::Evpn(EvpnNlri::EthernetIpPrefix(EthernetIpPrefixRoute {
                rd: rd2(), esi, etag: 0xFFFF_FFFF, ip_prefix: v6a("2001:db8::1"), prefix_len: 128,
                gateway_ip: v6a("2001:db8::fe"), label: 0xFFFFFF,
            }))));
        }
        Family::RTC => {
            // RFC 4684 §4: prefix length 0, or 32..96 bits; the code accepts 0 / 32 / 96
            v.push(("wildcard", Nlri::Rtc(RtcNlri::wildcard())));
            v.push(("as-wildcard", Nlri::Rtc(RtcNlri { match_type: MatchType::AsWildcard { origin_as: 65001 } })));
            v.push(("rt-2oct", Nlri::Rtc(RtcNlri { match_type: MatchType::ExactMatch {
                origin_as: 65001, route_target: [0x00, 0x02, 0xfd, 0xe9, 0, 0, 0, 100] } })));
            v.push(("rt-ipv4", Nlri::Rtc(RtcNlri { match_type: MatchType::ExactMatch {
                origin_as: 4_200_000_000, route_target: [0x01, 0x02, 192, 0, 2, 1, 0, 7] } })));
            v.push(("rt-4oct", Nlri::Rtc(RtcNlri { match_type: MatchType::ExactMatch {
                origin_as: 0, route_target: [0x02, 0x02, 0xfa, 0x56, 0xea, 0x00, 0xff, 0xff] } })));
        }
        Family::IPV4_FLOWSPEC => {
            let n = |c| Nlri::FlowspecV4(FlowspecV4Nlri { components: c });
            v.push(("dst0/0", n(vec![F4::DstPrefix(p4(0, 0, 0, 0, 0))])));
            v.push(("dst/24", n(vec![F4::DstPrefix(p4(192, 0, 2, 0, 24))])));
            v.push(("dst+src+tcp80", n(vec![
                F4::DstPrefix(p4(192, 0, 2, 0, 24)),
                F4::SrcPrefix(p4(198, 51, 100, 0, 25)),
                F4::Protocol(eq1(6)),
                F4::DstPort(eq1(80)),
            ])));
            v.push(("proto-only", n(vec![F4::Protocol(any_of(&[1, 6, 17]))])));
            v.push(("frag-not", n(vec![F4::Fragment(vec![op(Op::NOT | Op::MATCH, false, true, 0x0a)])])));
            v.push(("all12", n(fs4_all_components(p4(192, 0, 2, 1, 32), p4(198, 51, 100, 1, 32), &[80, 8080]))));
            // body >= 240 bytes: 2-byte length form (RFC 8955 §4.1)
            v.push(("all12-big", n(fs4_all_components(p4(192, 0, 2, 2, 32), p4(198, 51, 100, 2, 32), &many_ports(100)))));
        }
        Family::IPV6_FLOWSPEC => {
            let n = |c| Nlri::FlowspecV6(FlowspecV6Nlri { components: c });
            v.push(("dst::/0", n(vec![F6::DstPrefix { prefix: p6("::", 0), offset: 0 }])));
            v.push(("dst/64", n(vec![F6::DstPrefix { prefix: p6("2001:db8:0:1::", 64), offset: 0 }])));
            v.push(("dst+src+nh6", n(vec![
                F6::DstPrefix { prefix: p6("2001:db8::", 32), offset: 0 },
                F6::SrcPrefix { prefix: p6("2001:db8:ffff::", 48), offset: 0 },
                F6::NextHeader(eq1(6)),
                F6::DstPort(eq1(443)),
            ])));
            v.push(("flowlabel", n(vec![F6::FlowLabel(eq1(0xFFFFF))])));
            v.push(("all13", n(fs6_all_components(p6("2001:db8::1", 128), p6("2001:db8::2", 128), &[80, 8080]))));
            v.push(("all13-big", n(fs6_all_components(p6("2001:db8::3", 128), p6("2001:db8::4", 128), &many_ports(100)))));
        }
        Family::IPV4_FLOWSPEC_VPN => {
            // RFC 8955 §8: <length, RD(8), components>
            let n = |rd, c| Nlri::FlowspecVpnV4(FlowspecVpnV4Nlri { rd, components: c });
            v.push(("rd0 dst0/0", n(rd0(), vec![F4::DstPrefix(p4(0, 0, 0, 0, 0))])));
            v.push(("rd1 dst/24", n(rd1(), vec![F4::DstPrefix(p4(192, 0, 2, 0, 24))])));
            v.push(("rd2 dst+udp53", n(rd2(), vec![
                F4::DstPrefix(p4(192, 0, 2, 53, 32)), F4::Protocol(eq1(17)), F4::DstPort(eq1(53)),
            ])));
            v.push(("rd0 all12", n(rd0(), fs4_all_components(p4(192, 0, 2, 1, 32), p4(198, 51, 100, 1, 32), &[80, 8080]))));
            v.push(("rd0 all12-big", n(rd0(), fs4_all_components(p4(192, 0, 2, 2, 32), p4(198, 51, 100, 2, 32), &many_ports(100)))));
        }
        Family::IPV6_FLOWSPEC_VPN => {
            let n = |rd, c| Nlri::FlowspecVpnV6(FlowspecVpnV6Nlri { rd, components: c });
            v.push(("rd0 dst::/0", n(rd0(), vec![F6::DstPrefix { prefix: p6("::", 0), offset: 0 }])));
            v.push(("rd1 dst/64", n(rd1(), vec![F6::DstPrefix { prefix: p6("2001:db8:0:1::", 64), offset: 0 }])));
            v.push(("rd0 all13", n(rd0(), fs6_all_components(p6("2001:db8::1", 128), p6("2001:db8::2", 128), &[80, 8080]))));
            v.push(("rd0 all13-big", n(rd0(), fs6_all_components(p6("2001:db8::3", 128), p6("2001:db8::4", 128), &many_ports(100)))));
        }
        Family::LS => {
            use rustybgp_packet::ls::{PROTOCOL_DIRECT, PROTOCOL_ISIS_L1, PROTOCOL_OSPF_V2, PROTOCOL_OSPF_V3};
            // RFC 9552 §5.2: <type(2), length(2), protocol-id, identifier(8), descriptors>
            v.push(("node-min", Nlri::Ls(BgpLsNlri::Node(BgpLsNodeNlri {
                protocol_id: PROTOCOL_OSPF_V2, identifier: 0,
                local_node: NodeDescriptor { igp_router_id: Some(vec![10, 0, 0, 1]), ..Default::default() },
            }))));
            v.push(("node-ospf", Nlri::Ls(BgpLsNlri::Node(BgpLsNodeNlri {
                protocol_id: PROTOCOL_OSPF_V2, identifier: 1, local_node: ls_node_full(1),
            }))));
            v.push(("node-isis-pseudo", Nlri::Ls(BgpLsNlri::Node(BgpLsNodeNlri {
                protocol_id: PROTOCOL_ISIS_L1, identifier: u64::MAX, local_node: ls_node_isis(1),
            }))));
            v.push(("link-min", Nlri::Ls(BgpLsNlri::Link(BgpLsLinkNlri {
                protocol_id: PROTOCOL_OSPF_V2, identifier: 0,
                local_node: ls_node_full(1), remote_node: ls_node_full(2),
                link_desc: vec![LinkDescTlv::Ipv4InterfaceAddr([10, 0, 0, 1]), LinkDescTlv::Ipv4NeighborAddr([10, 0, 0, 2])],
            }))));
            v.push(("link-full", ls_link_big(7)));
            v.push(("prefix-v4", Nlri::Ls(BgpLsNlri::PrefixV4(BgpLsPrefixNlri {
                protocol_id: PROTOCOL_OSPF_V2, identifier: 0, local_node: ls_node_full(1),
                prefix_desc: vec![
                    PrefixDescTlv::OspfRouteType(1),
                    PrefixDescTlv::IpReachability { prefix_len: 24, addr: vec![192, 0, 2] },
                ],
            }))));
            v.push(("prefix-v4-direct/0", Nlri::Ls(BgpLsNlri::PrefixV4(BgpLsPrefixNlri {
                protocol_id: PROTOCOL_DIRECT, identifier: 0, local_node: ls_node_full(3),
                prefix_desc: vec![PrefixDescTlv::IpReachability { prefix_len: 0, addr: vec![] }],
            }))));
            v.push(("prefix-v6", Nlri::Ls(BgpLsNlri::PrefixV6(BgpLsPrefixNlri {
                protocol_id: PROTOCOL_OSPF_V3, identifier: 2, local_node: ls_node_full(1),
                prefix_desc: vec![
                    PrefixDescTlv::MultiTopoId(vec![2]),
                    PrefixDescTlv::OspfRouteType(5),
                    PrefixDescTlv::IpReachability { prefix_len: 128, addr: "2001:db8::1".parse::<Ipv6Addr>().unwrap().octets().to_vec() },
                ],
            }))));
        }
        Family::IPV4_MUP | Family::IPV6_MUP => {
            // draft-ietf-bess-mup-safi §3.1: <arch type 1, route type(2), length(1), body>
            let v4 = family == Family::IPV4_MUP;
            let a = |s4: &str, s6: &str| if v4 { v4a(s4) } else { v6a(s6) };
            let full: u8 = if v4 { 32 } else { 128 };
            v.push(("isd/0", Nlri::Mup(MupNlri::InterworkSegmentDiscovery(MupInterworkSegmentDiscoveryRoute {
                rd: rd0(), prefix_addr: a("0.0.0.0", "::"), prefix_len: 0,
            }))));
            v.push(("isd/24", Nlri::Mup(MupNlri::InterworkSegmentDiscovery(MupInterworkSegmentDiscoveryRoute {
                rd: rd1(), prefix_addr: a("10.0.1.0", "2001:d00::"), prefix_len: 24,
            }))));
            v.push(("dsd", Nlri::Mup(MupNlri::DirectSegmentDiscovery(MupDirectSegmentDiscoveryRoute {
                rd: rd2(), address: a("192.0.2.1", "2001:db8::1"),
            }))));
            v.push(("t1st", Nlri::Mup(MupNlri::Type1SessionTransformed(MupType1SessionTransformedRoute {
                rd: rd0(), prefix_addr: a("10.10.0.1", "2001:db8:a::1"), prefix_len: full, teid: 0x12345678, qfi: 9,
                endpoint_address: a("192.0.2.10", "2001:db8::10"), source_address: None,
            }))));
            v.push(("t1st-src", Nlri::Mup(MupNlri::Type1SessionTransformed(MupType1SessionTransformedRoute {
                rd: rd0(), prefix_addr: a("10.10.0.2", "2001:db8:a::2"), prefix_len: full, teid: 0xFFFF_FFFF, qfi: 63,
                endpoint_address: a("192.0.2.10", "2001:db8::10"), source_address: Some(a("192.0.2.20", "2001:db8::20")),
            }))));
            v.push(("t2st-noteid", Nlri::Mup(MupNlri::Type2SessionTransformed(MupType2SessionTransformedRoute {
                rd: rd0(), endpoint_address_length: full, endpoint_address: a("192.0.2.30", "2001:db8::30"), teid: 0,
            }))));
            v.push(("t2st-teid16", Nlri::Mup(MupNlri::Type2SessionTransformed(MupType2SessionTransformedRoute {
                rd: rd0(), endpoint_address_length: full + 16, endpoint_address: a("192.0.2.31", "2001:db8::31"), teid: 0xABCD_0000,
            }))));
            v.push(("t2st-teid32", Nlri::Mup(MupNlri::Type2SessionTransformed(MupType2SessionTransformedRoute {
                rd: rd0(), endpoint_address_length: full + 32, endpoint_address: a("192.0.2.32", "2001:db8::32"), teid: 0x1234_5678,
            }))));
        }
        Family::IPV4_SRPOLICY | Family::IPV6_SRPOLICY => {
            // RFC 9830 §2.1: <length 96|192, distinguisher(4), color(4), endpoint>
            let v4 = family == Family::IPV4_SRPOLICY;
            let a = |s4: &str, s6: &str| if v4 { v4a(s4) } else { v6a(s6) };
            v.push(("null-endpoint", Nlri::SrPolicy(SrPolicyNlri { distinguisher: 0, color: 0, endpoint: a("0.0.0.0", "::") })));
            v.push(("d1-c100", Nlri::SrPolicy(SrPolicyNlri { distinguisher: 1, color: 100, endpoint: a("192.0.2.1", "2001:db8::1") })));
            v.push(("d2-c100", Nlri::SrPolicy(SrPolicyNlri { distinguisher: 2, color: 100, endpoint: a("192.0.2.1", "2001:db8::1") })));
            v.push(("max", Nlri::SrPolicy(SrPolicyNlri { distinguisher: u32::MAX, color: u32::MAX, endpoint: a("203.0.113.255", "2001:db8:ffff:ffff:ffff:ffff:ffff:ffff") })));
        }
        _ => {}
    }
    v
}

/// Values the code encodes and decodes consistently but whose wire form is
/// not what the RFC specifies (kept out of `nlris`).
pub fn nlris_code_only(family: Family) -> Vec<(&'static str, Nlri)> {
    match family {
        // RFC 9514 §5.1: SRv6 SID Information TLV (518) carries the 16-byte SID only
        // and MT-ID travels in TLV 263; the code writes MT-ID(2)+reserved(2)+SID(16).
        Family::LS => vec![("srv6-sid", Nlri::Ls(BgpLsNlri::Srv6Sid(BgpLsSrv6SidNlri {
            protocol_id: rustybgp_packet::ls::PROTOCOL_ISIS_L2, identifier: 0, local_node: ls_node_isis(1),
            sids: vec!["2001:db8:0:1::".parse::<Ipv6Addr>().unwrap().octets()], multi_topo_ids: vec![2],
        })))],
        // RFC 8956 §3.1: the pattern holds (length - offset) bits; the code always
        // writes ceil(length/8) bytes.
        Family::IPV6_FLOWSPEC => vec![("dst-offset32", Nlri::FlowspecV6(FlowspecV6Nlri {
            components: vec![F6::DstPrefix { prefix: p6("2001:db8:0:1::", 64), offset: 32 }],
        }))],
        _ => vec![],
    }
}

pub fn nlri_has_label_stack(n: &Nlri) -> bool {
    match n {
        Nlri::LabeledV4(x) => x.labels.labels().len() > 1,
        Nlri::LabeledV6(x) => x.labels.labels().len() > 1,
        Nlri::VpnV4(x) => x.labels.labels().len() > 1,
        Nlri::VpnV6(x) => x.labels.labels().len() > 1,
        _ => false,
    }
}

pub fn nlri_wire_len(n: &Nlri) -> usize {
    n.encode_to_bytes().len()
}

pub fn nlris(family: Family, size: NlriSize) -> Vec<Nlri> {
    let all = nlris_named(family);
    match size {
        NlriSize::All => all.into_iter().map(|x| x.1).collect(),
        NlriSize::Min => {
            let mut best: Option<Nlri> = None;
            for (_, n) in all {
                if best.as_ref().is_none_or(|b| nlri_wire_len(&n) < nlri_wire_len(b)) {
                    best = Some(n);
                }
            }
            best.into_iter().collect()
        }
        NlriSize::Max => {
            let mut best: Option<Nlri> = None;
            for (_, n) in all {
                if nlri_has_label_stack(&n) {
                    continue;
                }
                if best.as_ref().is_none_or(|b| nlri_wire_len(&n) > nlri_wire_len(b)) {
                    best = Some(n);
                }
            }
            best.into_iter().collect()
        }
    }
}

/// i-th bulk NLRI of a family; injective in `i` for i < 2^24 - 2^16.
/// `big` = maximal-size shape (host routes, full descriptors), otherwise the
/// smallest shape that can still carry 24 bits of `i`.
pub fn nlri_nth(family: Family, i: u32, big: bool) -> Nlri {
    let j = i.wrapping_add(0x01_0000) & 0x00ff_ffff; // 24-bit, first octet != 0
    let net4 = if big {
        Ipv4Net { addr: Ipv4Addr::from(0x0a00_0000u32.wrapping_add(i & 0x00ff_ffff)), mask: 32 }
    } else {
        Ipv4Net { addr: Ipv4Addr::from(j << 8), mask: 24 }
    };
    let net6 = if big {
        let mut o = "2001:db8::".parse::<Ipv6Addr>().unwrap().octets();
        o[12..16].copy_from_slice(&i.to_be_bytes());
        Ipv6Net { addr: Ipv6Addr::from(o), mask: 128 }
    } else {
        let mut o = [0u8; 16];
        o[0] = (j >> 16) as u8;
        o[1] = (j >> 8) as u8;
        o[2] = j as u8;
        Ipv6Net { addr: Ipv6Addr::from(o), mask: 24 }
    };
    match family {
        Family::IPV4 | Family::IPV4_MC => Nlri::V4(net4),
        Family::IPV6 | Family::IPV6_MC => Nlri::V6(net6),
        Family::IPV4_MPLS => Nlri::LabeledV4(LabeledV4Nlri { labels: stack(&[1000]), prefix: net4 }),
        Family::IPV6_MPLS => Nlri::LabeledV6(LabeledV6Nlri { labels: stack(&[1000]), prefix: net6 }),
        Family::IPV4_VPN => Nlri::VpnV4(VpnV4Nlri { labels: stack(&[1000]), rd: rd0(), prefix: net4 }),
        Family::IPV6_VPN => Nlri::VpnV6(VpnV6Nlri { labels: stack(&[1000]), rd: rd0(), prefix: net6 }),
        Family::L2VPN_EVPN => {
            if big {
                Nlri::Evpn(EvpnNlri::EthernetIpPrefix(EthernetIpPrefixRoute {
                    rd: rd0(), esi: Esi::ZERO, etag: 0, ip_prefix: IpAddr::V6(net6.addr), prefix_len: 128,
                    gateway_ip: v6a("::"), label: 5000,
                }))
            } else {
                Nlri::Evpn(EvpnNlri::InclusiveMulticastEthernetTag(InclusiveMulticastEthernetTag {
                    rd: rd0(), etag: i, originating_router_ip: v4a("192.0.2.1"),
                }))
            }
        }
        Family::RTC => {
            if big {
                Nlri::Rtc(RtcNlri { match_type: MatchType::ExactMatch {
                    origin_as: i, route_target: [0x00, 0x02, 0xfd, 0xe9, 0, 0, 0, 100] } })
            } else {
                Nlri::Rtc(RtcNlri { match_type: MatchType::AsWildcard { origin_as: i } })
            }
        }
        Family::IPV4_FLOWSPEC => Nlri::FlowspecV4(FlowspecV4Nlri {
            components: if big {
                fs4_all_components(net4, p4(198, 51, 100, 1, 32), &[80, 8080])
            } else {
                vec![F4::DstPrefix(net4)]
            },
        }),
        Family::IPV6_FLOWSPEC => Nlri::FlowspecV6(FlowspecV6Nlri {
            components: if big {
                fs6_all_components(net6, p6("2001:db8::2", 128), &[80, 8080])
            } else {
                vec![F6::DstPrefix { prefix: net6, offset: 0 }]
            },
        }),
        Family::IPV4_FLOWSPEC_VPN => Nlri::FlowspecVpnV4(FlowspecVpnV4Nlri {
            rd: rd0(),
            components: if big {
                fs4_all_components(net4, p4(198, 51, 100, 1, 32), &[80, 8080])
            } else {
                vec![F4::DstPrefix(net4)]
            },
        }),
        Family::IPV6_FLOWSPEC_VPN => Nlri::FlowspecVpnV6(FlowspecVpnV6Nlri {
            rd: rd0(),
            components: if big {
                fs6_all_components(net6, p6("2001:db8::2", 128), &[80, 8080])
            } else {
                vec![F6::DstPrefix { prefix: net6, offset: 0 }]
            },
        }),
        Family::LS => {
            if big {
                ls_link_big(i as u64)
            } else {
                Nlri::Ls(BgpLsNlri::Node(BgpLsNodeNlri {
                    protocol_id: rustybgp_packet::ls::PROTOCOL_OSPF_V2,
                    identifier: i as u64,
                    local_node: NodeDescriptor { igp_router_id: Some(vec![10, 0, 0, 1]), ..Default::default() },
                }))
            }
        }
        Family::IPV4_MUP | Family::IPV6_MUP => {
            let v4 = family == Family::IPV4_MUP;
            if big {
                Nlri::Mup(MupNlri::Type1SessionTransformed(MupType1SessionTransformedRoute {
                    rd: rd0(),
                    prefix_addr: if v4 { IpAddr::V4(net4.addr) } else { IpAddr::V6(net6.addr) },
                    prefix_len: if v4 { 32 } else { 128 },
                    teid: i, qfi: 9,
                    endpoint_address: if v4 { v4a("192.0.2.10") } else { v6a("2001:db8::10") },
                    source_address: Some(if v4 { v4a("192.0.2.20") } else { v6a("2001:db8::20") }),
                }))
            } else {
                Nlri::Mup(MupNlri::InterworkSegmentDiscovery(MupInterworkSegmentDiscoveryRoute {
                    rd: rd0(),
                    prefix_addr: if v4 { IpAddr::V4(net4.addr) } else { IpAddr::V6(net6.addr) },
                    prefix_len: if v4 { net4.mask } else { net6.mask },
                }))
            }
        }
        Family::IPV4_SRPOLICY => Nlri::SrPolicy(SrPolicyNlri { distinguisher: i, color: 100, endpoint: v4a("192.0.2.1") }),
        Family::IPV6_SRPOLICY => Nlri::SrPolicy(SrPolicyNlri { distinguisher: i, color: 100, endpoint: v6a("2001:db8::1") }),
        _ => Nlri::V4(net4),
    }
}

pub fn nlri_bulk(family: Family, n: usize, big: bool) -> Vec<Nlri> {
    (0..n as u32).map(|i| nlri_nth(family, i, big)).collect()
}

/// What a receiver must report for `n` when it arrives in MP_UNREACH_NLRI.
/// RFC 8277 §2.4: the label field of a withdrawn labeled-unicast NLRI is a
/// 3-byte compatibility field that is ignored; the code reports label 0.
pub fn unreach_canonical(n: &Nlri) -> Nlri {
    match n {
        Nlri::LabeledV4(x) => Nlri::LabeledV4(LabeledV4Nlri { labels: stack(&[0]), prefix: x.prefix }),
        Nlri::LabeledV6(x) => Nlri::LabeledV6(LabeledV6Nlri { labels: stack(&[0]), prefix: x.prefix }),
        o => o.clone(),
    }
}

/// Entries with path ids i+1 (add-path negotiated) or 0 (not negotiated: the id
/// is not on the wire and decodes as 0).
pub fn path_entries(nlris: &[Nlri], addpath: bool) -> Vec<PathNlri> {
    nlris
        .iter()
        .enumerate()
        .map(|(i, n)| PathNlri { path_id: if addpath { i as u32 + 1 } else { 0 }, nlri: n.clone() })
        .collect()
}

// ===========================================================================
// Next hops
// ===========================================================================

#[derive(Clone, Debug)]
pub struct NexthopCase {
    pub name: &'static str,
    pub nexthop: Option<Nexthop>,
    /// only legal when RFC 8950 extended next hop is negotiated (IPv6 next hop
    /// for an AFI-1 family); for Family::IPV4 the encoder needs the negotiated
    /// flag to leave the legacy NEXT_HOP encoding.
    pub needs_ext_nh: bool,
}

pub fn nh_v4() -> Nexthop {
    Nexthop::V4(Ipv4Addr::new(192, 0, 2, 1))
}
pub fn nh_v6() -> Nexthop {
    Nexthop::V6("2001:db8::1".parse().unwrap())
}
pub fn nh_v6_ll() -> Nexthop {
    Nexthop::V6LinkLocal("2001:db8::1".parse().unwrap(), "fe80::1".parse().unwrap())
}
/// IPv4-mapped IPv6 next hop (RFC 4798 §2, 6PE)
pub fn nh_v4_mapped() -> Nexthop {
    Nexthop::V6("::ffff:192.0.2.1".parse().unwrap())
}

/// RFC-valid next hops of a family (RFC 4271 §5.1.3, RFC 4760 §3, RFC 2545 §3,
/// RFC 4364 §4.3.2, RFC 4659 §3.2.1, RFC 8950 §3, RFC 7432 §9, RFC 8955 §4).
pub fn nexthops(family: Family) -> Vec<NexthopCase> {
    let c = |name, nexthop, needs_ext_nh| NexthopCase { name, nexthop, needs_ext_nh };
    if is_flowspec(family) {
        return vec![c("none", None, false)];
    }
    match family {
        // RFC 8950 covers AFI 1 with SAFI 1, 2, 4, 128
        Family::IPV4 | Family::IPV4_MC | Family::IPV4_MPLS | Family::IPV4_VPN => {
            let mut v = vec![c("v4", Some(nh_v4()), false), c("v6", Some(nh_v6()), true)];
            if family != Family::IPV4_VPN {
                v.push(c("v6+ll", Some(nh_v6_ll()), true));
            }
            v
        }
        Family::IPV6 | Family::IPV6_MC | Family::IPV6_MPLS => vec![
            c("v6", Some(nh_v6()), false),
            c("v6+ll", Some(nh_v6_ll()), false),
            c("v4-mapped", Some(nh_v4_mapped()), false),
        ],
        Family::IPV6_VPN => vec![c("v6", Some(nh_v6()), false), c("v4-mapped", Some(nh_v4_mapped()), false)],
        Family::IPV6_MUP | Family::IPV6_SRPOLICY => vec![c("v6", Some(nh_v6()), false)],
        // AFI-independent next hop: 4 or 16 bytes
        _ => vec![c("v4", Some(nh_v4()), false), c("v6", Some(nh_v6()), false)],
    }
}

pub fn default_nexthop(family: Family) -> Option<Nexthop> {
    nexthops(family)[0].nexthop
}
