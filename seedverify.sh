#!/bin/bash
# usage: seedverify.sh <seed-out-dir> <worktree> <base-commit> <nextest args for the demo...>
# Confirms for a seeded change: demo passes without the change, fails with it, and the
# repository's own suite still passes with the change (demo not applied).
D=$1; WT=$2; BASE=$3; shift 3
export CARGO_TARGET_DIR=$WT/target CARGO_NET_OFFLINE=true
cd $WT || exit 2
git checkout -q --detach $BASE; git reset -q --hard; git clean -qfd -e target -e Cargo.lock
[ -f Cargo.lock ] || cp /repo/Cargo.lock .
git apply $D/demo.diff || { echo "VERIFY $D: demo.diff does not apply"; exit 3; }
r1=$(cargo nextest run --offline --no-fail-fast "$@" 2>&1 | grep -E "^\s+Summary|^error" | tail -1)
git apply $D/patch.diff || { echo "VERIFY $D: patch.diff does not apply"; exit 3; }
r2=$(cargo nextest run --offline --no-fail-fast "$@" 2>&1 | grep -E "^\s+Summary|^error" | tail -1)
git reset -q --hard; git clean -qfd -e target -e Cargo.lock; git apply $D/patch.diff
r3=$(cargo nextest run --workspace --no-fail-fast --offline 2>&1 | grep -E "^\s+Summary|^error" | tail -1)
git reset -q --hard; git clean -qfd -e target -e Cargo.lock
echo "VERIFY $D"; echo "  demo without change: $r1"; echo "  demo with change:    $r2"; echo "  suite with change:   $r3"
