#!/usr/bin/env python3
"""seedall.py [N-worktrees]: re-runs every stored seeded change against the current checks
(seedtest.sh, quick tier, scratch worktrees under /tmp) and records the outcome in
seeded/<id>/meta.json under detection.last_run.  /repo itself is never modified."""
import json, os, subprocess, sys, glob, re, threading, queue, time
N = int(sys.argv[1]) if len(sys.argv) > 1 else 3
only = set(sys.argv[2:])
seeds = [s for s in sorted(glob.glob("/verif/seeded/*/meta.json")) if not only or os.path.basename(os.path.dirname(s)) in only]
q = queue.Queue()
for s in seeds:
    q.put(s)
head = subprocess.run(["git", "-C", "/repo", "rev-parse", "--short", "HEAD"], stdout=subprocess.PIPE, text=True).stdout.strip()
lock = threading.Lock()
def worker(k):
    wt = f"/tmp/seedtest-wt{k + 2}"
    while True:
        try:
            mp = q.get_nowait()
        except queue.Empty:
            return
        m = json.load(open(mp))
        d = os.path.dirname(mp)
        checks = m["detection"]["command"].split("patch.diff", 1)[1].split("(")[0].split()
        env = dict(os.environ, SEEDWT=wt)
        t0 = time.time()
        # patch-head.diff: the same change ported to /repo HEAD where later fix: commits touched its context lines
        patch = d + "/patch-head.diff" if os.path.exists(d + "/patch-head.diff") else d + "/patch.diff"
        r = subprocess.run(["/verif/seedtest.sh", patch] + checks, stdout=subprocess.PIPE, stderr=subprocess.STDOUT, text=True, env=env)
        out = r.stdout
        base = head
        if "does not apply" in out:
            base = m["base_commit"]
            r = subprocess.run(["/verif/seedtest.sh", d + "/patch.diff"] + checks, stdout=subprocess.PIPE, stderr=subprocess.STDOUT, text=True, env=dict(env, BASE=base))
            out = r.stdout
        sigs = re.findall(r"^   (C\d\d/\S+?):", out, flags=re.M)
        rcs = re.findall(r"^SEEDTEST: (C\d\d) rc=(\d+) violations=(\d+)", out, flags=re.M)
        detected = any(rc == "1" and int(v) > 0 for _, rc, v in rcs)
        if not detected:
            print(f"--- {m['id']} output tail:\n" + "\n".join(out.splitlines()[-8:]), flush=True)
        m["detection"]["last_run"] = {"repo_commit": base, "detected": detected, "per_check": [{"check": c, "rc": int(rc), "new_signatures": int(v)} for c, rc, v in rcs], "signatures_shown": sigs[:8], "wall_s": round(time.time() - t0, 1)}
        with lock:
            json.dump(m, open(mp, "w"), indent=1)
            print(f"{m['id']}: detected={detected} {rcs} {sigs[:2]}", flush=True)
ts = [threading.Thread(target=worker, args=(k,)) for k in range(N)]
[t.start() for t in ts]
[t.join() for t in ts]
for k in range(N):
    subprocess.run(["git", "-C", "/repo", "worktree", "remove", "--force", f"/tmp/seedtest-wt{k + 2}"], stderr=subprocess.DEVNULL)
    subprocess.run(["rm", "-rf", f"/verif/target/hd-tmp_seedtest_wt{k + 2}", f"/verif/target/hx-tmp_seedtest_wt{k + 2}"])
print("ALLDONE")
