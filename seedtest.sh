#!/bin/bash
# usage: seedtest.sh <patch.diff> Cxx [Cyy ...]   (env TIER=quick|thorough)
# Applies a seeded change to a scratch worktree of /repo (at /repo's HEAD) and runs the
# given checks against it (VERIF_REPO mode).  /repo itself is not touched.
set -u
PATCH=$1; shift
WT=${SEEDWT:-/tmp/seedtest-wt}
if [ ! -d $WT ]; then git -C /repo worktree add -q --detach $WT HEAD || exit 2; fi
# a failed 3-way apply leaves unmerged paths, which would make the checkout fail: reset first
git -C $WT reset -q --hard
git -C $WT checkout -q --detach ${BASE:-$(git -C /repo rev-parse HEAD)} 2>/dev/null
git -C $WT reset -q --hard ; git -C $WT clean -qfd -e target
[ -f $WT/Cargo.lock ] || cp /repo/Cargo.lock $WT/Cargo.lock
if ! git -C $WT apply --3way "$PATCH" 2>$WT.apply.err && ! git -C $WT apply "$PATCH" 2>>$WT.apply.err; then
  echo "SEEDTEST: patch does not apply: $(head -3 $WT.apply.err)"; exit 3; fi
for c in "$@"; do
  out=$(cd /verif && VERIF_REPO=$WT ./check $c --tier ${TIER:-quick} 2>&1); rc=$?
  nsig=$(echo "$out" | grep -c "^VIOLATION")
  echo "SEEDTEST: $c rc=$rc violations=$nsig"
  echo "$out" | grep -E "^   [A-Z][0-9]+/|machinery" | cut -c1-300 | head -6
done
git -C $WT reset -q --hard ; git -C $WT clean -qfd -e target
