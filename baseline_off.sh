#!/bin/bash
# Runs the repository's own test suite with the verification guard OFF.
# Prints a one-line summary; exit 0 iff nothing failed.
cd /repo || exit 2
unset RUSTFLAGS OSRG_RUSTYBGP_VERIF_DIR
export CARGO_NET_OFFLINE=true
if [ -f /w/lib/nextest.toml ] && command -v cargo-nextest >/dev/null; then
  cargo nextest run --workspace --no-fail-fast --tool-config-file pb:/w/lib/nextest.toml --profile pb --test-threads 8 --offline 2>&1 | tail -${TAIL:-15}
  exit ${PIPESTATUS[0]}
else
  cargo test --workspace --no-fail-fast --offline 2>&1 | grep -E "^test result|FAILED|failed" | tail -${TAIL:-30}
  exit ${PIPESTATUS[0]}
fi
