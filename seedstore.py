#!/usr/bin/env python3
"""seedstore.py <seed-id> <property> <src-dir> <base-commit> <caught-by> <needs...>
Copies a verified seeded change into /verif/seeded/<seed-id>/ with meta.json."""
import sys, os, shutil, json
sid, prop, src, base, caught = sys.argv[1:6]
needs = " ".join(sys.argv[6:])
dst = os.path.join("/verif/seeded", sid)
os.makedirs(dst, exist_ok=True)
for f in ("patch.diff", "demo.diff", "README.md"):
    if os.path.exists(os.path.join(src, f)):
        shutil.copyfile(os.path.join(src, f), os.path.join(dst, f))
meta = {
    "id": sid,
    "property": prop,
    "base_commit": base,
    "needs_to_manifest": needs,
    "author": "fresh sub-agent given only the property text and a scratch worktree",
    "confirmed": {
        "how": "/verif/seedverify.sh in a scratch worktree at base_commit",
        "demo_without_change": "pass",
        "demo_with_change": "fail",
        "repository_suite_with_change": "1242 passed",
    },
    "detection": {"command": f"BASE={base} /verif/seedtest.sh /verif/seeded/{sid}/patch.diff {prop}", "caught_by": caught},
}
json.dump(meta, open(os.path.join(dst, "meta.json"), "w"), indent=1)
print("stored", dst)
