#!/usr/bin/env python3
"""Regenerates /verif/MANIFEST.json from the table below (single source of truth
for what is claimed).  Run after adding/removing a check."""
import json, os, subprocess

VERIF = os.path.dirname(os.path.abspath(__file__))

# id -> (category, technique, level text, level note, design ref)
CLAIMED = {
    "C06": (
        "model_checking",
        "explicit-state BFS over the real Table mutators (history states, canonical fingerprints), fold-vs-dump oracle in every state",
        "Every history up to the stated depth over 8 op packs (id re-use, add-path, GR, LLGR, NHT, deferral, prefix limit) of the real rustybgp_table::Table is executed; after every step two folding consumers (best_changed / any_changed) must equal collect_loc_rib_paths and dest ids must be unique and stable. Exhaustive within the packs' universes (3 prefixes, 2 peers + local, restarted sessions, 5 attribute sets, 2 next hops). TableManager level: selection-deferral ops, destination ids unique across shards, and a late-observer model (the first session registers after a deferral that nobody watched).",
        "Trusted: the harness' session model (ops a peer can issue only while its session is up; start_deferral only on an empty table). Fingerprint = 128-bit hash of the canonical dump (collision probability negligible). Small-scope universe.",
        "DESIGN.md §5 C06",
    ),
    "C15": (
        "model_checking",
        "explicit-state BFS over the real Table mutators with a recount oracle in every state",
        "Same exploration as C06; after every step peer_stats, Table::state and the per-session prefix-limit counter are compared with a recount from Table::destinations(enable_filtered=true); counter underflow and silently exceeded limits are flagged. Exhaustive within the packs' universes and depth. The two-family model (per-family statistics recount, one family dropped while the other stays) and a live model with an import policy that rejects one prefix of a limited peer.",
        "The limit counter is accepted under both readings of 'recount' (all prefixes of the peer / prefixes announced by the session owning the counter); purges are called with prefix_counter=None exactly as the daemon does.",
        "DESIGN.md §5 C15",
    ),
}

CLAIMED["C07"] = (
    "model_checking",
    "explicit-state BFS to fixpoint over the real PeerFsm::process (all reachable states of both connection roles), reference-transition oracle on every transition",
    "All reachable states of the real two-connection PeerFsm are enumerated (fixpoint) for 12 configurations (local hold 0/90 x expected AS set/any x local identifier <,=,> remote) under 19 inputs per role (connect, acceptable/unacceptable OPENs, every message type, both timers, disconnect, admin shutdown, update-sent). Every transition is compared with a reference transition function written from the statement (entry conditions of OpenConfirm/Established, FSM-error NOTIFICATION carrying the state, slot freed + Idle reported, collision survivor and Cease to the loser) and the one-survivor invariant is evaluated in every state. OPEN byte encodings with invalid version / hold time / identifier go through the real parser. Live collision part: two real sessions of one neighbour (daemon roles active and passive) resolve a collision for both identifier orders and both OPEN orders, also with the neighbour going silent afterwards: the loser is sent Cease 6/7 and closed, the survivor reaches Established, keeps sending KEEPALIVEs and gives up a silent neighbour with Hold Timer Expired.",
    "Sans-IO FSM level: the I/O driver (ConnArbiter, session tasks) is not exercised by this check. Both readings of 'carrying that state' (internal state number / RFC 6608 sub-code) are accepted; with equal identifiers either survivor is accepted.",
    "DESIGN.md §5 C07",
)
CLAIMED["C08"] = (
    "model_checking",
    "BFS over timed traces of the real PeerFsm under a virtual-time interpretation of its timer outputs, interval-reference oracle in every state",
    "For all 49 (local, remote) hold-time pairs from {0,3,4,10,90,180,65535} every timed trace up to the depth bound (connect, OPEN, fire-earliest-timer, advance 0 / 1 / h/3 / h-1 / h seconds then KEEPALIVE / UPDATE / ROUTE-REFRESH received or UPDATE sent) is executed on the real PeerFsm; in every state the armed hold deadline must equal last-received + min(local,remote), the keepalive deadline last-sent + h/3, ROUTE-REFRESH and sends must not re-arm the hold timer, and with a negotiated value of zero no timer may be armed, no expiry and no timer-driven KEEPALIVE may occur. Driver binding: every timer value the FSM emitted is armed through the real PeerSession::apply_outputs and flush_tx and the pending sleep read back; the bytes of ten message kinds (KEEPALIVE, UPDATEs incl. AS-looped / attributes-only / treat-as-withdraw-with-nothing-to-withdraw, ROUTE-REFRESH) arrive on the socket of an Established session, the real run_select handles them and the hold deadline must be re-armed by exactly the KEEPALIVE / UPDATE kinds; 3 (thorough 6) jitter-gated real-time runs.",
    "The timer semantics of the I/O driver are modelled (Set*Timer(n) replaces the pending sleep with now+n; hold served before keepalive before received messages), read off PeerSession::apply_outputs / run_select; real-time behaviour below one second is out of scope.",
    "DESIGN.md §5 C08",
)

CLAIMED["C11"] = (
    "model_checking",
    "explicit-state BFS over the real RestartingDeferral driven through the daemon's own glue against a real TableManager, pending-set reference oracle in every state",
    "All histories up to the depth bound of peer-established (every subset of the configured GR families, including none), End-of-RIB (any family, repeated), peer-withdrawn (established or failed attempt), timer expiry, interleaved with local/peer route inserts and removes on colliding prefixes, for 3 (thorough: 4) peer/family configurations including a peer without graceful restart. Each event goes through the real PeerSession::process_effects / process_restarting_outputs / gr_selection_deferral_timer_expired code and a 2-shard TableManager; a registered neighbour channel observes every NlriChange. In every state: nothing of a still-deferred family reaches the neighbours, each prefix of a released family has been announced exactly once since it last changed, the restarting flag is cleared iff no peer is pending or the timer fired, and the timer is armed when the first helper establishes.",
    "The PeerSession used is the repository's own socket-less test constructor (new_for_test); the OPEN exchange itself is not part of this check. 128-bit fingerprints.",
    "DESIGN.md §5 C11",
)

CLAIMED["C10"] = (
    "model_checking",
    "explicit-state BFS over LIVE sessions (real accept_connection / PeerSession::run / apply_disconnect / timer tasks over loopback TCP, harness = remote speaker) plus fixpoint BFS of the pure GrState machine",
    "(ii) Every history up to the depth bound of: establish with chosen GR / LLGR / N-bit capabilities, announce (plain and NO_LLGR), End-of-RIB, drop by six reasons (TCP close, Cease, hard reset, non-Cease NOTIFICATION, local admin shutdown, locally detected UPDATE error), failed reconnects closed before / after the OPEN, restart- and LLGR-timer expiry through the code's own one-shot senders, disable / enable, is executed against the real session code with real tables; after every step: stale routes only while a restart timer / that family's LLGR timer is armed or an End-of-RIB is awaited, no helper state after an ineligible drop, non-negotiated families empty, routes of the current session never purged, NO_LLGR routes gone in the LLGR period, failed reconnects leave the timers alone, FSM slots freed. (i) The pure GrState machine is explored to fixpoint with the driver's table/timer calls as reference. Drop reasons include the operator's hard reset (ResetPeer through the real gRPC handler); LLGR packs announce a route carrying the LLGR_STALE community.",
    "Quiescence is established by KEEPALIVE barriers on the session's receive counter and by task completion (a timeout there is a machinery error, exit 2). Hold-timer expiry as a drop reason is not enumerated (needs seconds of real time). A received non-Cease NOTIFICATION with the N-bit negotiated is accepted either way (RFC 8538 vs the statement's wording).",
    "DESIGN.md §5 C10",
)

CLAIMED["C01"] = (
    "model_checking",
    "explicit-state BFS over the real export pipeline with a LIVE observing session (PeerSession::run over loopback TCP), differential oracle against a brand-new session on a replica daemon",
    "Every history up to the depth bound of announce / withdraw / peer-down (with and without GR) / LLGR start / stale purge / next-hop flap / export-policy swap / soft_reset_out / ROUTE-REFRESH events from two peers, the local source and the neighbour itself, with an explicit sync op controlling when the observing session delivers and flushes (batched vs one-by-one delivery), is executed against the real TableManager + PeerSession::run + process_nlri_change + PendingTx + flush_tx + encoder; at every sync the neighbour's mirror Adj-RIB-In decoded from the received bytes must equal the mirror of a brand-new session with identical parameters from the same address on a replica daemon rebuilt by replaying the RIB ops, and contain only prefixes the RIB still has. Configurations: observer role (eBGP, iBGP, RR client, RS client; thorough also a confederation neighbour), add-path send-max 1/2, 1/2 shards, op packs for destination-id re-use, multi-source/best-change/add-path window, GR/LLGR + policy, and late-observer packs in which the neighbour's session comes up in the middle of a history and is held (cfg-guarded gate after on_established) with its initial dump buffered, so that the following changes are delivered before its first flush. The canonical state contains the RIB, the neighbour's mirror and the change events queued since the last sync (read from a second listener on the TableManager's stream). A soft_reset_out whose handling is HELD (cfg-guarded gate before each peer event is handled) until the next sync, so that the refresh walks a RIB that is ahead of the changes queued behind it (pack refresh-ahead); a restarting-speaker pack (selection deferral from before the first route, prefixes on two shards). soft_reset_out / ROUTE-REFRESH otherwise wait on a KEEPALIVE barrier, so when a refresh is handled is a harness choice, never a race. Focused small packs at one more level of depth: add-path with next-hop flaps on the best / non-best path, add-path and plain with an export policy that starts / stops rejecting a path inside the window. Schedule part: stateless exploration (baton scheduler, all schedules with <= 3 preemptions, thorough: all interleavings) of session establishment - register_peer's per-shard initial dump + channel registration - against concurrent withdraw / announce / replace / peer drop on both shards; fold(dump, delivered changes) must equal the Loc-RIB. Further quick packs: held-queue (op HoldEvents: the session handles no peer event until the next sync, so events of different kinds wait in its channel together) and addpath2-window (three sources of one prefix against a window of two).",
    "In the BFS part producers are serialised (direct TableManager calls; shard locks make them atomic); the race between session establishment and RIB changes is explored by the schedule part. The bytes are decoded with the repository's parser under the neighbour's codec. An export-policy change is always followed by a soft reset / route refresh before views are compared. TCP partial writes are not varied. Two add-path re-advertisement defects are recorded as known findings.",
    "DESIGN.md §5 C01",
)
CLAIMED["C16"] = (
    "model_checking",
    "explicit-state BFS over connect/disconnect/unacceptable-OPEN/enable/disable/delete/reset/UpdatePeer histories against the real accept_connection + session tasks + gRPC handlers; bounded-exhaustive enumeration of capability-list pairs through negotiate / PeerFsm / negotiate_gr",
    "(i) All histories up to the depth bound of TCP connects (passive and active role; from the static neighbour's address, an address inside a dynamic prefix, another address), disconnects, an OPEN the message decoder refuses, enable / disable / delete / hard reset / UpdatePeer (teardown-relevant and not) through the REAL gRPC handlers, for 4 configurations (static only with prefix limit; admin-down static + route-server dynamic group with GR and hold time; overlapping dynamic prefixes + RR-client group + confederation): admission verdict of accept_connection, nothing written before a refusal, role / hold time / local AS / families / GR capability / prefix limits of the session as seen in the OPEN it sends, Global.peers and connection slots after every step (dynamic neighbours disappear with their last connection), and every admin operation that tears sessions down must have delivered its close request through the arbiter each live session was registered with. (ii) Every ordered pair of capability lists from two complete menus (per-family absent / MP / add-path modes 0-4, conflicting duplicate add-path entries, AS4, extended message, unknown capability; GR flag/family lists x LLGR lists) goes through OPEN encode->decode and PeerCodec::negotiate in both directions: mirror-image families / add-path directions / extended message / AS width, PeerFsm's effective send-max vs the codec, GR / LLGR / N-bit in force iff both advertised. Established dynamic neighbours (part c16dyn): group GR x peer GR x (TCP close | Cease): no record is left behind and the address is admitted again. UpdatePeerGroup through the real handler is an op of the BFS; the daemon's peer groups are part of the state.",
    "Overlapping dynamic prefixes: any matching group is accepted (the statement requires a matching prefix, not a priority). codec/FSM lists and GR/LLGR lists are enumerated as two independent products because negotiate() never reads GR/LLGR and negotiate_gr/llgr read nothing else. Sessions are not driven beyond the daemon's OPEN in part (i).",
    "DESIGN.md §5 C16",
)
CLAIMED["C18"] = (
    "model_checking",
    "stateless schedule exploration of real OS threads running real TableManager methods under a baton scheduler (iterative preemption bounding, 16 parallel explorers), plus explicit-state BFS over subscribe / unsubscribe points in sequential histories",
    "Schedules: 9 scenarios of subscribe(snapshot) against concurrent insert / remove / replace on the same and on another shard, peer drop + PeerDown, soft_reset_in under a changed import policy (alone and against an insert of the same peer), GR stale purge against a re-announcement, restart-timer drop, LLGR start + purge, a second subscriber coming and going; scheduling points are cfg-guarded hooks before every shard lock (a thread is enabled only when the lock it is about to take is free) and at every subscribers.load()/rcu(). Quick: every schedule with <= 3 preemptions; thorough: unbounded, i.e. ALL interleavings at hook granularity (the level at which no alternative is left is reported). After every complete execution fold(snapshot + live events) must equal the pre- and post-policy Adj-RIB-In of all shards, where the events up to EndOfSnapshot are accumulated by the BMP client's own apply_snapshot / flush_peer_snapshot (in-crate include in bmp.rs) and the live events are applied one by one; a failing schedule is re-executed and must fail identically. Histories: BFS depth 6 (thorough 10) over insert (accepted / rejected by policy) / remove / peer drop / GR drop / reconnect / stale purge / timer drop / LLGR start / LLGR purge / soft_reset_in / policy toggle / deferral / subscribe / unsubscribe with the folded view compared after every step. BMP station: BFS depth 7 (thorough 10) over session up / announce / withdraw / session down (atomic, and split into SessionDown and its later PeerDown event so that a station can attach in between; plain and with GR) / stale purge / restart-timer drop of two neighbours and attach / detach of a loopback BMP station served by the real BMP client (subscribe(snapshot), initial Peer Up burst, snapshot flush, live loop): Peer Down reaches the station only for a peer whose Peer Up it was sent, and for every peer the station holds as up its folded pre- and post-policy Adj-RIB-In equals the RIB's. Handler level (part c18api): WatchEvent through the real handler with init, one table filter kind at a time, snapshot then live events, against routes the import policy accepts and rejects. Sequential model also with an attribute-rewriting import policy.",
    "std::sync::Mutex, arc-swap and tokio channels are trusted to be linearizable at hook granularity (no weak-memory exploration). 'Peer-down only after peer-up' is asserted at the BMP station, not at the TableManager (the initial PeerUp burst is produced by the BMP client from Global.peers); there the table side is driven through the calls PeerSession makes and PeerState.session_addrs is set / cleared as apply_outputs does. While a peer's routes are retained as stale its entries are not compared (the statement does not say whether a subscriber that was told PeerDown still lists them); they are compared again after the purge. Time caps exist and are reported if hit (none is at quick).",
    "DESIGN.md §5 C18",
)

CLAIMED["C02"] = (
    "model_checking",
    "bounded-exhaustive enumeration of path sets in every arrival order plus explicit-state BFS over single-prefix histories of the real Table, against a reference comparator written from the statement",
    "All ordered pairs of a 1152-kind IPv4 product and a 640-kind EVPN product (2 colliding values per decision step: LLGR-stale flag/community, LOCAL_PREF, 9 AS_PATH shapes up to 510 hops, ORIGIN, 5 roles, GR-stale, CLUSTER_LIST, router-id/ORIGINATOR_ID incl. complete ties, eligibility, MAC mobility alone / embedded among other EVPN extended communities / absent while other EVPN communities are present) and triples over a cover, each inserted in every arrival order into a real Table; BFS over 8 packs of histories (insert/replace/remove/drop/restale/restale_llgr/purges/next-hop flips with session restarts; one pack with selection deferral started / ended around next-hop flips). After every insert/step: ranked list sorted by the reference and containing exactly the eligible paths, best is reference-maximal, ecmp_paths is the tie prefix, Global and RsLocal views agree, result equals a from-scratch table of the current path set. Both dev (overflow checks) and release profiles.",
    "Table API level only (the daemon's use of the ranking is C01/C20). Both readings of MAC-mobility present-vs-absent accepted. Built by a helper sub-agent from DESIGN §5 C02; reviewed through its findings (6 defects, all repaired).",
    "DESIGN.md §5 C02",
)
CLAIMED["C03"] = (
    "exploration",
    "bounded-exhaustive mutation enumeration of valid frames through the real decoders (BGP under 16 codec configurations per family, RTR, BFD), tokio Decoder contract as oracle",
    "Seeds: valid frames for all 19 families from the generators (every NLRI value, next hop, attribute kind, OPEN capability kind, full-size 4096 / 65535-byte UPDATEs, long label chains); menu: every length field located by an independent frame walker set to boundary values incl. sums reaching 2^16, every type/flag byte over 256 values, body bytes to boundary values, truncation at every byte, one trailing byte; stream level every split offset / glued frames / byte-wise delivery; RTR versions x types 0-255 x length menu x every split; BFD every value of the fixed fields and every truncation. Quick: every single mutation (2.0e7 decoder calls); thorough: every pair of a full-menu and a boundary-menu mutation (1e9 calls). Oracle: no panic (dev and release), terminates under a watchdog, exactly one of message / need-more / error, Some => consumed, no need-more on a complete frame. Driver level (hd part c03drv): bursts of 1 to 1000 frames arriving in one read, optionally followed by a frame of unknown type, through the real run_select of an Established session: nothing complete may be left unparsed, the bad frame must be rejected.",
    "Coverage is the mutation closure of valid frames, not arbitrary byte strings. Allocation bombs are argued from the code (all lengths <= 16 bits), not observed. Built by a helper sub-agent; 5 root causes found and repaired.",
    "DESIGN.md §5 C03",
)
CLAIMED["C04"] = (
    "exploration",
    "bounded-exhaustive enumeration of messages x capability pairs through the real encoder, independent frame walker + peer-side decode as oracle",
    "OPEN (every capability kind, 0-19 families, capability lists crossing 255 bytes), UPDATE reach/unreach/EoR for all 19 families with entry counts 0,1,2,k-1,k,k+1,2k,3k+1 around the measured frame capacity k, min/max NLRI sizes, attribute-block size ladder up to the frame limit, an attribute set as the decoder hands it on after RECEIVING optional attributes with the Extended Length bit on short values (relay), every NOTIFICATION variant, KEEPALIVE, ROUTE-REFRESH; capability pairs: 32 pairs reaching every negotiated outcome (incl. add-path send-only / receive-only) everywhere, all 1024 pairs on 4 families (thorough). Oracle: every frame within the negotiated maximum with mutually consistent length fields (independent walker), Ok(count) = frames seen, multiset of (prefix, path-id) / next hop / attributes decoded by the peer's codec equals the input modulo the documented canonicalisation, decode(encode(decode)) fixed point; dev and release profiles. Driver level (hd part c04drv): flush_tx with pending UPDATE lists that contain an UPDATE whose attributes leave no room for NLRI: every other UPDATE of the flush arrives, every frame is within the maximum.",
    "NLRI content of flowspec / LS / MUP / SR-policy is read with the repository's decoder (framing and attributes are independent for all families). Three capability-length signatures (RFC 9072 needed) are known findings. Built by helper sub-agents (generators + oracle).",
    "DESIGN.md §5 C04",
)
CLAIMED["C05"] = (
    "exploration",
    "bounded-exhaustive enumeration of RFC 7606 corruptions against an independent reference receiver (packet level) plus end-to-end replay of the corpus through live sessions into the RIB",
    "12 valid base UPDATEs (legacy / MP / mixed, both attribute orders, AS width 2 and 4, all 22 attribute kinds) x a menu of ~480 corruptions each (length +-1/0, flag flips, illegal values, duplicates, omission of mandatory attributes, unknown well-known, block truncation at and inside every attribute, withdrawn/total length errors) x 4 neighbour roles; quick: all singles, thorough: also 1.07e6 pairs. Oracle: no Reach with a faulty attribute believed, treat-as-withdraw where RFC 7606 requires it, original withdrawals kept, reset only where the NLRI cannot be located, iBGP-only attributes dropped for external peers (the daemon's is_ebgp expression is read from its source). End to end (hd part): 2707 (thorough 68411) corpus cases written to a live passive session after pre-installing the affected prefixes; the Adj-RIB-In delta, NOTIFICATIONs and session fate are judged by the same reference.",
    "IPv4/IPv6 unicast only; content of PREFIX_SID / LS / TUNNEL_ENCAP not judged. Built by helper sub-agents; 8 packet-level defects and 1 end-to-end defect (NLRI padding bits) found.",
    "DESIGN.md §5 C05",
)
CLAIMED["C09"] = (
    "exploration",
    "full-matrix enumeration of process_nlri_change and the inbound loop checks against a reference export function written from the statement",
    "source kind (5 peer roles, local, kernel, the receiver itself) x receiver role x RR config x confederation x add-path max x 256 attribute presence sets x 9 AS_PATH shapes x 7 next-hop kinds x 6 export policies x LLGR-stale; quick: pairwise-complete rows crossed with the full 240-cell source x receiver x RR x confed matrix (1.06e6 cases, each also through the real PendingTx); thorough: the full product (6.08e7 feasible tuples). Inbound: is_as_loop over every layout of 1-3 segments x 4 types x positions, rx_update ORIGINATOR_ID / CLUSTER_LIST cases into a TableManager, 114 live loopback sessions fed hand-written UPDATE bytes. Under 'set next-hop unchanged' the next hop sent to an eBGP neighbour must be the received one; every (send-max, next hop, policy) triple is in the quick rows.",
    "ExportMap is fresh per case (multi-step export state is C01). Per-peer local-as override, transport family != route family, RTC filter not covered. Built by a helper sub-agent; no violation of the statement found, 13 deliberate mutations all detected.",
    "DESIGN.md §5 C09",
)
CLAIMED["C12"] = (
    "model_checking",
    "exhaustive enumeration over embedded small address spaces against a linear-scan RFC 6811 reference, plus fixpoint BFS over VRP maintenance histories",
    "For 4-bit address spaces embedded at bit offsets straddling byte boundaries (IPv4 offsets 6; thorough also 14, 28, 0; IPv6 62; thorough 124, 0, 118): every VRP set of size <= 2 (528 VRPs, 139 657 sets per space; thorough also size 3 over 3-bit spaces) x every route prefix of the space x 12 origin derivations (AS_SEQUENCE tails, AS_SET tail, empty / missing / confed-only AS_PATH): state and matched / unmatched lists against the reference (1.05e8 validations quick, 1.2e9 thorough). Maintenance: insert / remove / reset / session-restart over 5 VRPs x 2 caches against a BTreeSet model to FIXPOINT (48 925 states), re-validating probe routes in every state.",
    "Both RFC 6811 'NONE => Invalid' and GoBGP 'NotFound' accepted for AS_SET tails (Valid never). 'Randomly over the real address space' is sampling and not claimed. Built by a helper sub-agent; 2 defects found and repaired.",
    "DESIGN.md §5 C12",
)
CLAIMED["C13"] = (
    "fault_enumeration",
    "exhaustive enumeration of conforming RTR cache scripts x delivery fragmentation x session-loss points against the real serve_inner over an in-memory duplex",
    "Scripts from the RFC 6810/8210 grammar with <= 2 (thorough 3) incremental rounds over 3 prefixes (announce / withdraw), Cache Reset, Error Report, Router Key PDUs at any position, versions 0 and 1 (4052 scripts quick, 60 284 thorough), produced by an independent PDU encoder; delivered whole, byte-wise and split at every offset of every PDU; connection closed (EOF), failing with a read error (reset), or with the client's write side broken before the next Serial Notify, after every PDU; two caches on one TableManager in every segment interleaving (306 650 executions quick, 1.02e7 thorough). After each End-of-Data collect_roa for the cache equals the fold of its script, the other cache is untouched, nothing is left after the session ends, and every delivered PDU of any type is consumed (a parked client with unconsumed complete PDUs is a wedge). Two caches at ONE IP address announcing an identical VRP (8 orders of who completes first / who takes it back / how). Operator-ended sessions (token cancelled after a snapshot, through the real try_connect over TCP): repeated 40 / 200 times, NOT exhaustive - tokio::select!'s choice among ready branches is not owned by the harness.",
    "Quiescence = the client has read every byte written and is parked in poll_read (tap on the duplex), bounded yield loops + watchdog (expiry = machinery error). Malformed RTR input is C03's subject. Built by a helper sub-agent; 2 defects found and repaired.",
    "DESIGN.md §5 C13",
)
CLAIMED["C14"] = (
    "model_checking",
    "bounded-exhaustive enumeration of policy programs x routes against a reference interpreter, plus explicit-state BFS over policy CRUD histories",
    "Prefix sets: all sets of <= 2 entries over an embedded space (nested, overlapping, sibling, zero prefix, ranges excluding the entry's own length, entries longer than the route) x ANY/INVERT x all routes, v4 and v6; AS-path sets: every single-pattern form + a regex probe x ANY/ALL/INVERT x all AS_PATHs of <= 2 segments of every type incl. empty segments; community / ext-community / large-community sets x options x lists of <= 2 values; scalar conditions at/below/above; chaining of statements (condition x disposition x action), policies of <= 2 statements, assignments of <= 2 policies, both defaults, import and export (1.27e7 evaluations quick, 1.45e8 thorough): disposition + attributes + next hop equal the reference, no panic in dev or release. CRUD: BFS depth 5 (thorough 6) over add / replace / delete of sets, statements, policies, assignments (names from pools of 2; global import/export + one per-peer export): referential integrity of everything a user holds, StillInUse for referenced objects, needs_rpki flag of every assignment, and the CONTENT of every defined set = what its accepted add / replace / delete calls add up to (compared as member sets with a fresh table given that content in one call). Handler level (hd part c14api): BFS depth 7 (thorough 10) over 21 policy requests through the REAL gRPC handlers; the assignments installed in the TableManager must behave like those a PolicyTable of its own yields for the same requests, and the import path must filter a route exactly when that assignment rejects it.",
    "Three readings of AS-path matching on odd paths (GoBGP sequence-list, flat, per-segment) accepted. Non-IPv4/6 NLRI in prefix conditions and ext/large-community actions not covered. Built by a helper sub-agent; 7 defects found and repaired.",
    "DESIGN.md §5 C14",
)
CLAIMED["C19"] = (
    "exploration",
    "bounded-exhaustive enumeration of monitored events through the real BMP/MRT encoders (packet level) and the daemon's converters with live sessions (daemon level), independent structural readers as oracle",
    "Packet level: BMP PeerUp (v4/v6 address combinations x OPENs from the capability ladder), PeerDown (each reason), RouteMonitoring (every family, add-path, attribute blocks up to > 4096 bytes, entry counts beyond one frame, next-hop kinds, pre/post policy, Adj-RIB-Out, Loc-RIB flags), Initiation / Termination; MRT BGP4MP(_AS4)(_ADDPATH)(_LOCAL) for all address combinations, TABLE_DUMP_V2 peer index with 0-3 peers and RIB records with 0-3 entries (44 043 records quick, 195 835 thorough, dev and release). Daemon level: 2659 table-driven scenarios (three single-stack peers and the IPv6 session of a dual-stack neighbour sharing AS and BGP identifier with its IPv4 session) through a loopback BMP station and the MRT dumper plus 96 (thorough 288) live sessions comparing PeerUp with the OPENs really exchanged. Oracle: RFC 7854 / 8671 / 9069 / 6396 / 8050 readers written from the RFCs: header length = bytes that follow, address-family flags match the addresses, exactly one BGP PDU per record that parses (with the record's add-path / AS width) to the monitored prefixes / attributes / next hop, peer indexes and entry counts consistent.",
    "PeerDown for hold-timer expiry / FSM error / admin shutdown, Adj-RIB-Out content against a second peer, MRT rotation not covered. Built by a helper sub-agent; 5 defects found and repaired.",
    "DESIGN.md §5 C19",
)
CLAIMED["C20"] = (
    "model_checking",
    "explicit-state BFS over the real TableManager with the kernel request tap, fold-of-requests oracle in every state",
    "19 packs (thorough 20) of histories, each complete to depth 5 (thorough 7; the full 68-op alphabet to depth 3/4): insert / replace / remove from eBGP and iBGP peers, local and kernel sources with tying and non-tying attributes and two next hops, session loss with drop / GR-stale / mixed / LLGR-only families and reconnect with a new Source, stale and LLGR purges, soft_reset_in under import policies (reject; hand-built next-hop rewrite), next-hop reachability flips, VRFs with matching and non-matching import targets, two VRFs, two RDs sharing an inner prefix, a restarting-speaker pack (selection deferral around announcements and reachability reports; the FIB is compared again once the deferral has ended), a pack with a per-session prefix limit of 1 that trips; 1 and 2 shards. After every step the drained request stream is folded: Apply per (table, prefix) equals the next-hop set of the best path and the paths tied before the router-id step (nothing without an eligible path), the same in every VRF whose import targets match; register - unregister per address equals the number of peer-learned paths using it and never goes negative; unreachable next hops exclude their paths.",
    "Both 'best by the C02 reference order' and 'the path the RIB ranks first' accepted for the FIB clause (ranking disputes stay with C02). The netlink side and the schedule race between insert_route's early nexthop_invalid load and a concurrent flip are out of scope. Three signatures (one inner prefix imported from two RDs into one VRF) are known findings. Built by a helper sub-agent; 2 defects repaired.",
    "DESIGN.md §5 C20",
)

CLAIMED["C17"] = (
    "exploration",
    "bounded-exhaustive enumeration of internal values (round trip) and of API messages with deviating fields (totality, invariants), downstream consumers as crash oracle",
    "Round trip: every attribute and NLRI value obtained by decoding the wire corpus of C03/C04 (all 19 families, all 22 attribute kinds, LS / PREFIX_SID / TUNNEL_ENCAP TLV ladders) plus accepted single mutants -> attr_to_api / nlri_to_api -> attr_from_api / net_from_api -> must be identical (and re-encode to the same bytes). Totality / invariants: valid API messages for every attribute and NLRI type with every single field (quick) / pair of fields (thorough) set to boundary and out-of-range values (enum -1/0/max+1/256/2^31, lists of 0/1/255/256/70000 elements, malformed / wrong-family / over-long address strings, labels and lengths beyond their bit width): conversion must not panic, and whatever it accepts must (a) be accepted by the wire decoder after encoding, (b) survive the best-path comparator, policy evaluation with every condition kind, export rewriting and encoding under 4 codec configurations without panic (dev profile, overflow checks on). Handler level (part c17api): AddPath / ListPath / DeletePath through the real handlers for the global table and a VRF, identifier lists [0] [7] [7,9] [0,9].",
    "24 signatures are known findings: information the gRPC schema cannot express (LS / PREFIX_SID / TUNNEL_ENCAP sub-TLVs, PARTIAL flag, OSPF area 0, RTC AS-wildcard with AS 0, descriptor order) and the private SRv6-SID LS layout; each needs an API schema extension or a codec redesign. 21 defects were repaired. Built by a helper sub-agent; integrated by a second one.",
    "DESIGN.md §5 C17",
)

REASON_NOT_YET = "no check registered yet in this revision (machinery for it is designed in DESIGN.md §5 but not built/validated); not claimed"

ALL = ["C%02d" % i for i in range(1, 21)]

HOOK_COMMITS = []
try:
    out = subprocess.run(["git", "-C", "/repo", "log", "--format=%h %s"], stdout=subprocess.PIPE).stdout.decode()
    for line in out.splitlines():
        h, _, subj = line.partition(" ")
        if subj.startswith("verif-hook:"):
            HOOK_COMMITS.append(h)
except Exception:
    pass

checks = []
for pid, (cat, tech, text, note, ref) in sorted(CLAIMED.items()):
    checks.append(
        {
            "property_id": pid,
            "quick_cmd": f"./check {pid} --tier quick",
            "thorough_cmd": f"./check {pid} --tier thorough",
            "evidence_file": f"/verif/evidence/{pid}.json",
            "replay_cmd_template": f"./check {pid} --replay {{path}}",
            "engine": "vx",
            "level_claimed": {"category": cat, "text": text, "design_ref": ref},
            "level_note": note,
            "technique": tech,
        }
    )

manifest = {
    "version": 1,
    "setup_cmd": "./check setup",
    "hooks": {
        "guard": "--cfg osrg_rustybgp_verif (RUSTFLAGS), together with cfg(test) for the in-crate harness includes",
        "enable": "RUSTFLAGS='--cfg osrg_rustybgp_verif' OSRG_RUSTYBGP_VERIF_DIR=/verif CARGO_TARGET_DIR=/verif/target/hd cargo test -p rustybgpd --bin rustybgpd --no-run --offline (done by ./check)",
        "baseline_off_cmd": "/verif/baseline_off.sh",
        "source_commits": HOOK_COMMITS,
        "add_only": True,
    },
    "engines": [
        {
            "name": "vx",
            "path": "/verif/lib/vx",
            "serves_properties": sorted(CLAIMED),
            "kind_free_text": "hand-rolled dependency-free explorer: level-synchronous explicit-state BFS over real code with canonical fingerprints (bfs.rs), bounded-exhaustive product/subset enumeration (enumr.rs), baton scheduler with iterative preemption bounding (sched.rs); compiled into the external harness crate /verif/hx (packet/table API) and, through cfg-guarded includes, into the daemon's test build (/verif/hd)",
        }
    ],
    "checks": checks,
    "not_applicable": [{"property_id": p, "reason": REASON_NOT_YET} for p in ALL if p not in CLAIMED],
    "notes": "Every check: ./check Cxx --tier quick|thorough. Exit 0 = held on everything explored (KNOWN-FINDING lines for listed findings), 1 = VIOLATION lines, 2 = machinery failure. Known findings and repaired defects: /verif/known_findings.jsonl.",
}
json.dump(manifest, open(os.path.join(VERIF, "MANIFEST.json"), "w"), indent=1)
print("MANIFEST.json written:", len(checks), "checks,", len(manifest["not_applicable"]), "not claimed")
