#!/usr/bin/env python3
"""Regenerates /verif/MANIFEST.json from the table below (single source of truth
for what is claimed).  Run after adding/removing a check."""
import json, os, subprocess

VERIF = os.path.dirname(os.path.abspath(__file__))

# id -> (category, technique, level text, level note, design ref)
CLAIMED = {
    "C06": (
        "model_checking",
        "explicit-state BFS over the real Table mutators (history states, canonical fingerprints), fold-vs-dump oracle in every state",
        "Every history up to the stated depth over 8 op packs (id re-use, add-path, GR, LLGR, NHT, deferral, prefix limit) of the real rustybgp_table::Table is executed; after every step two folding consumers (best_changed / any_changed) must equal collect_loc_rib_paths and dest ids must be unique and stable. Exhaustive within the packs' universes (3 prefixes, 2 peers + local, restarted sessions, 5 attribute sets, 2 next hops).",
        "Trusted: the harness' session model (ops a peer can issue only while its session is up; start_deferral only on an empty table). Fingerprint = 128-bit hash of the canonical dump (collision probability negligible). Small-scope universe.",
        "DESIGN.md §5 C06",
    ),
    "C15": (
        "model_checking",
        "explicit-state BFS over the real Table mutators with a recount oracle in every state",
        "Same exploration as C06; after every step peer_stats, Table::state and the per-session prefix-limit counter are compared with a recount from Table::destinations(enable_filtered=true); counter underflow and silently exceeded limits are flagged. Exhaustive within the packs' universes and depth.",
        "The limit counter is accepted under both readings of 'recount' (all prefixes of the peer / prefixes announced by the session owning the counter); purges are called with prefix_counter=None exactly as the daemon does.",
        "DESIGN.md §5 C15",
    ),
}

REASON_NOT_YET = "no check registered yet in this revision (machinery for it is designed in DESIGN.md §5 but not built/validated); not claimed"

ALL = ["C%02d" % i for i in range(1, 21)]

HOOK_COMMITS = []
try:
    out = subprocess.run(["git", "-C", "/repo", "log", "--format=%h %s"], stdout=subprocess.PIPE).stdout.decode()
    for line in out.splitlines():
        h, _, subj = line.partition(" ")
        if subj.startswith("verif-hook:"):
            HOOK_COMMITS.append(h)
except Exception:
    pass

checks = []
for pid, (cat, tech, text, note, ref) in sorted(CLAIMED.items()):
    checks.append(
        {
            "property_id": pid,
            "quick_cmd": f"./check {pid} --tier quick",
            "thorough_cmd": f"./check {pid} --tier thorough",
            "evidence_file": f"/verif/evidence/{pid}.json",
            "replay_cmd_template": f"./check {pid} --replay {{path}}",
            "engine": "vx",
            "level_claimed": {"category": cat, "text": text, "design_ref": ref},
            "level_note": note,
            "technique": tech,
        }
    )

manifest = {
    "version": 1,
    "setup_cmd": "./check setup",
    "hooks": {
        "guard": "--cfg osrg_rustybgp_verif (RUSTFLAGS), together with cfg(test) for the in-crate harness includes",
        "enable": "RUSTFLAGS='--cfg osrg_rustybgp_verif' OSRG_RUSTYBGP_VERIF_DIR=/verif CARGO_TARGET_DIR=/verif/target/hd cargo test -p rustybgpd --bin rustybgpd --no-run --offline (done by ./check)",
        "baseline_off_cmd": "/verif/baseline_off.sh",
        "source_commits": HOOK_COMMITS,
        "add_only": True,
    },
    "engines": [
        {
            "name": "vx",
            "path": "/verif/lib/vx",
            "serves_properties": sorted(CLAIMED),
            "kind_free_text": "hand-rolled dependency-free explorer: level-synchronous explicit-state BFS over real code with canonical fingerprints (bfs.rs), bounded-exhaustive product/subset enumeration (enumr.rs), baton scheduler with iterative preemption bounding (sched.rs); compiled into the external harness crate /verif/hx (packet/table API) and, through cfg-guarded includes, into the daemon's test build (/verif/hd)",
        }
    ],
    "checks": checks,
    "not_applicable": [{"property_id": p, "reason": REASON_NOT_YET} for p in ALL if p not in CLAIMED],
    "notes": "Every check: ./check Cxx --tier quick|thorough. Exit 0 = held on everything explored (KNOWN-FINDING lines for listed findings), 1 = VIOLATION lines, 2 = machinery failure. Known findings and repaired defects: /verif/known_findings.jsonl.",
}
json.dump(manifest, open(os.path.join(VERIF, "MANIFEST.json"), "w"), indent=1)
print("MANIFEST.json written:", len(checks), "checks,", len(manifest["not_applicable"]), "not claimed")
