#!/usr/bin/env python3
"""Regenerates /verif/MANIFEST.json from the table below (single source of truth
for what is claimed).  Run after adding/removing a check."""
import json, os, subprocess

VERIF = os.path.dirname(os.path.abspath(__file__))

# id -> (category, technique, level text, level note, design ref)
CLAIMED = {
    "C06": (
        "model_checking",
        "explicit-state BFS over the real Table mutators (history states, canonical fingerprints), fold-vs-dump oracle in every state",
        "Every history up to the stated depth over 8 op packs (id re-use, add-path, GR, LLGR, NHT, deferral, prefix limit) of the real rustybgp_table::Table is executed; after every step two folding consumers (best_changed / any_changed) must equal collect_loc_rib_paths and dest ids must be unique and stable. Exhaustive within the packs' universes (3 prefixes, 2 peers + local, restarted sessions, 5 attribute sets, 2 next hops).",
        "Trusted: the harness' session model (ops a peer can issue only while its session is up; start_deferral only on an empty table). Fingerprint = 128-bit hash of the canonical dump (collision probability negligible). Small-scope universe.",
        "DESIGN.md §5 C06",
    ),
    "C15": (
        "model_checking",
        "explicit-state BFS over the real Table mutators with a recount oracle in every state",
        "Same exploration as C06; after every step peer_stats, Table::state and the per-session prefix-limit counter are compared with a recount from Table::destinations(enable_filtered=true); counter underflow and silently exceeded limits are flagged. Exhaustive within the packs' universes and depth.",
        "The limit counter is accepted under both readings of 'recount' (all prefixes of the peer / prefixes announced by the session owning the counter); purges are called with prefix_counter=None exactly as the daemon does.",
        "DESIGN.md §5 C15",
    ),
}

CLAIMED["C07"] = (
    "model_checking",
    "explicit-state BFS to fixpoint over the real PeerFsm::process (all reachable states of both connection roles), reference-transition oracle on every transition",
    "All reachable states of the real two-connection PeerFsm are enumerated (fixpoint) for 12 configurations (local hold 0/90 x expected AS set/any x local identifier <,=,> remote) under 19 inputs per role (connect, acceptable/unacceptable OPENs, every message type, both timers, disconnect, admin shutdown, update-sent). Every transition is compared with a reference transition function written from the statement (entry conditions of OpenConfirm/Established, FSM-error NOTIFICATION carrying the state, slot freed + Idle reported, collision survivor and Cease to the loser) and the one-survivor invariant is evaluated in every state. OPEN byte encodings with invalid version / hold time / identifier go through the real parser.",
    "Sans-IO FSM level: the I/O driver (ConnArbiter, session tasks) is not exercised by this check. Both readings of 'carrying that state' (internal state number / RFC 6608 sub-code) are accepted; with equal identifiers either survivor is accepted.",
    "DESIGN.md §5 C07",
)
CLAIMED["C08"] = (
    "model_checking",
    "BFS over timed traces of the real PeerFsm under a virtual-time interpretation of its timer outputs, interval-reference oracle in every state",
    "For all 25 (local, remote) hold-time pairs from {0,3,9,90,65535} every timed trace up to the depth bound (connect, OPEN, fire-earliest-timer, advance 1 / h/3 / h-1 / h seconds then KEEPALIVE / UPDATE / ROUTE-REFRESH received or UPDATE sent) is executed on the real PeerFsm; in every state the armed hold deadline must equal last-received + min(local,remote), the keepalive deadline last-sent + h/3, ROUTE-REFRESH and sends must not re-arm the hold timer, and with a negotiated value of zero no timer may be armed, no expiry and no timer-driven KEEPALIVE may occur.",
    "The timer semantics of the I/O driver are modelled (Set*Timer(n) replaces the pending sleep with now+n; hold served before keepalive before received messages), read off PeerSession::apply_outputs / run_select; real-time behaviour below one second is out of scope.",
    "DESIGN.md §5 C08",
)

CLAIMED["C11"] = (
    "model_checking",
    "explicit-state BFS over the real RestartingDeferral driven through the daemon's own glue against a real TableManager, pending-set reference oracle in every state",
    "All histories up to the depth bound of peer-established (every subset of the configured GR families, including none), End-of-RIB (any family, repeated), peer-withdrawn (established or failed attempt), timer expiry, interleaved with local/peer route inserts and removes on colliding prefixes, for 3 (thorough: 4) peer/family configurations including a peer without graceful restart. Each event goes through the real PeerSession::process_effects / process_restarting_outputs / gr_selection_deferral_timer_expired code and a 2-shard TableManager; a registered neighbour channel observes every NlriChange. In every state: nothing of a still-deferred family reaches the neighbours, each prefix of a released family has been announced exactly once since it last changed, the restarting flag is cleared iff no peer is pending or the timer fired, and the timer is armed when the first helper establishes.",
    "The PeerSession used is the repository's own socket-less test constructor (new_for_test); the OPEN exchange itself is not part of this check. 128-bit fingerprints.",
    "DESIGN.md §5 C11",
)

CLAIMED["C10"] = (
    "model_checking",
    "explicit-state BFS over LIVE sessions (real accept_connection / PeerSession::run / apply_disconnect / timer tasks over loopback TCP, harness = remote speaker) plus fixpoint BFS of the pure GrState machine",
    "(ii) Every history up to the depth bound of: establish with chosen GR / LLGR / N-bit capabilities, announce (plain and NO_LLGR), End-of-RIB, drop by six reasons (TCP close, Cease, hard reset, non-Cease NOTIFICATION, local admin shutdown, locally detected UPDATE error), failed reconnects closed before / after the OPEN, restart- and LLGR-timer expiry through the code's own one-shot senders, disable / enable, is executed against the real session code with real tables; after every step: stale routes only while a restart timer / that family's LLGR timer is armed or an End-of-RIB is awaited, no helper state after an ineligible drop, non-negotiated families empty, routes of the current session never purged, NO_LLGR routes gone in the LLGR period, failed reconnects leave the timers alone, FSM slots freed. (i) The pure GrState machine is explored to fixpoint with the driver's table/timer calls as reference.",
    "Quiescence is established by KEEPALIVE barriers on the session's receive counter and by task completion (a timeout there is a machinery error, exit 2). Hold-timer expiry as a drop reason is not enumerated (needs seconds of real time). A received non-Cease NOTIFICATION with the N-bit negotiated is accepted either way (RFC 8538 vs the statement's wording).",
    "DESIGN.md §5 C10",
)

CLAIMED["C01"] = (
    "model_checking",
    "explicit-state BFS over the real export pipeline with a LIVE observing session (PeerSession::run over loopback TCP), differential oracle against a brand-new session on a replica daemon",
    "Every history up to the depth bound of announce / withdraw / peer-down (with and without GR) / LLGR start / stale purge / next-hop flap / export-policy swap / soft_reset_out / ROUTE-REFRESH events from two peers, the local source and the neighbour itself, with an explicit sync op controlling when the observing session delivers and flushes (batched vs one-by-one delivery), is executed against the real TableManager + PeerSession::run + process_nlri_change + PendingTx + flush_tx + encoder; at every sync the neighbour's mirror Adj-RIB-In decoded from the received bytes must equal the mirror of a brand-new session with identical parameters from the same address on a replica daemon rebuilt by replaying the RIB ops, and contain only prefixes the RIB still has. Configurations: observer role (eBGP, iBGP, RR client, RS client), add-path send-max 1/2, 1/2 shards, op packs for destination-id re-use, multi-source/best-change/add-path window, GR/LLGR + policy.",
    "Producers are serialised (direct TableManager calls; shard locks make them atomic); the registration race is covered by C18's scheduler harness. The bytes are decoded with the repository's parser under the neighbour's codec. An export-policy change is always followed by a soft reset / route refresh before views are compared. TCP partial writes are not varied. Two add-path re-advertisement defects are recorded as known findings.",
    "DESIGN.md §5 C01",
)
CLAIMED["C16"] = (
    "model_checking",
    "explicit-state BFS over connect/disconnect/enable/disable/delete histories against the real accept_connection + session tasks; bounded-exhaustive enumeration of capability-list pairs through negotiate / PeerFsm / negotiate_gr",
    "(i) All histories up to the depth bound of TCP connects (passive and active role; from the static neighbour's address, an address inside a dynamic prefix, another address), disconnects, enable / disable / delete, for 3 configurations (static only with prefix limit; admin-down static + route-server dynamic group with GR and hold time; overlapping dynamic prefixes + RR-client group + confederation): admission verdict of accept_connection, nothing written before a refusal, role / hold time / local AS / families / GR capability / prefix limits of the session as seen in the OPEN it sends, Global.peers and connection slots after every step (dynamic neighbours disappear with their last connection). (ii) Every ordered pair of capability lists from two complete menus (per-family absent / MP / add-path modes 0-4, conflicting duplicate add-path entries, AS4, extended message, unknown capability; GR flag/family lists x LLGR lists) goes through OPEN encode->decode and PeerCodec::negotiate in both directions: mirror-image families / add-path directions / extended message / AS width, PeerFsm's effective send-max vs the codec, GR / LLGR / N-bit in force iff both advertised.",
    "Overlapping dynamic prefixes: any matching group is accepted (the statement requires a matching prefix, not a priority). codec/FSM lists and GR/LLGR lists are enumerated as two independent products because negotiate() never reads GR/LLGR and negotiate_gr/llgr read nothing else. Sessions are not driven beyond the daemon's OPEN in part (i).",
    "DESIGN.md §5 C16",
)
CLAIMED["C18"] = (
    "exploration",
    "stateless schedule exploration of real OS threads running real TableManager methods under a baton scheduler, iterative preemption bounding",
    "All schedules with at most 2 (thorough 3) preemptions of subscribe(snapshot) against concurrent insert / remove / replace on the same and on another shard, peer drop + PeerDown, and soft_reset_in under a changed import policy; scheduling points are cfg-guarded hooks before every shard lock and around every subscribers.load()/rcu(). After every complete execution fold(snapshot + live events) must equal the pre- and post-policy Adj-RIB-In of all shards; every failing schedule is re-executed and must fail identically before it is believed.",
    "std::sync::Mutex, arc-swap and tokio channels are trusted to be linearizable at hook granularity (no weak-memory exploration). 'Peer-down only after peer-up' is not asserted at this level (the initial PeerUp burst is produced by the BMP client from Global.peers). The run is time-capped (hand-offs between OS threads are slow on a loaded machine); the evidence states which preemption bound was completed per scenario.",
    "DESIGN.md §5 C18",
)

REASON_NOT_YET = "no check registered yet in this revision (machinery for it is designed in DESIGN.md §5 but not built/validated); not claimed"

ALL = ["C%02d" % i for i in range(1, 21)]

HOOK_COMMITS = []
try:
    out = subprocess.run(["git", "-C", "/repo", "log", "--format=%h %s"], stdout=subprocess.PIPE).stdout.decode()
    for line in out.splitlines():
        h, _, subj = line.partition(" ")
        if subj.startswith("verif-hook:"):
            HOOK_COMMITS.append(h)
except Exception:
    pass

checks = []
for pid, (cat, tech, text, note, ref) in sorted(CLAIMED.items()):
    checks.append(
        {
            "property_id": pid,
            "quick_cmd": f"./check {pid} --tier quick",
            "thorough_cmd": f"./check {pid} --tier thorough",
            "evidence_file": f"/verif/evidence/{pid}.json",
            "replay_cmd_template": f"./check {pid} --replay {{path}}",
            "engine": "vx",
            "level_claimed": {"category": cat, "text": text, "design_ref": ref},
            "level_note": note,
            "technique": tech,
        }
    )

manifest = {
    "version": 1,
    "setup_cmd": "./check setup",
    "hooks": {
        "guard": "--cfg osrg_rustybgp_verif (RUSTFLAGS), together with cfg(test) for the in-crate harness includes",
        "enable": "RUSTFLAGS='--cfg osrg_rustybgp_verif' OSRG_RUSTYBGP_VERIF_DIR=/verif CARGO_TARGET_DIR=/verif/target/hd cargo test -p rustybgpd --bin rustybgpd --no-run --offline (done by ./check)",
        "baseline_off_cmd": "/verif/baseline_off.sh",
        "source_commits": HOOK_COMMITS,
        "add_only": True,
    },
    "engines": [
        {
            "name": "vx",
            "path": "/verif/lib/vx",
            "serves_properties": sorted(CLAIMED),
            "kind_free_text": "hand-rolled dependency-free explorer: level-synchronous explicit-state BFS over real code with canonical fingerprints (bfs.rs), bounded-exhaustive product/subset enumeration (enumr.rs), baton scheduler with iterative preemption bounding (sched.rs); compiled into the external harness crate /verif/hx (packet/table API) and, through cfg-guarded includes, into the daemon's test build (/verif/hd)",
        }
    ],
    "checks": checks,
    "not_applicable": [{"property_id": p, "reason": REASON_NOT_YET} for p in ALL if p not in CLAIMED],
    "notes": "Every check: ./check Cxx --tier quick|thorough. Exit 0 = held on everything explored (KNOWN-FINDING lines for listed findings), 1 = VIOLATION lines, 2 = machinery failure. Known findings and repaired defects: /verif/known_findings.jsonl.",
}
json.dump(manifest, open(os.path.join(VERIF, "MANIFEST.json"), "w"), indent=1)
print("MANIFEST.json written:", len(checks), "checks,", len(manifest["not_applicable"]), "not claimed")
