#!/usr/bin/env python3
"""seedverify2.py <base-commit> <ID> [<ID>...]: confirms seeded changes found in /tmp/seed-<ID>-out/<k>/ using
the agent's own scratch worktree /tmp/seed-<ID> and the run command written at the top of demo.diff:
demo passes without the change, fails with it, and the repository suite passes with the change."""
import sys, os, re, subprocess
base = sys.argv[1]
def sh(cmd, cwd=None, env=None):
    return subprocess.run(cmd, shell=True, cwd=cwd, stdout=subprocess.PIPE, stderr=subprocess.STDOUT, text=True, env=env)
for ID in sys.argv[2:]:
    wt = f"/tmp/seed-{ID}"
    for k in (1, 2, 3):
        d = f"/tmp/seed-{ID}-out/{k}"
        if not os.path.exists(d + "/demo.diff"):
            continue
        head = open(d + "/demo.diff").read().split("diff --git")[0]
        cmds = []
        for l in head.splitlines():
            if "cargo nextest run" not in l and "cargo test" not in l:
                continue
            c = l.lstrip("# \t")
            if c.startswith("("):
                continue
            # drop a leading label such as "Run:" / "Run with:"
            m = re.search(r"(cd /tmp/|CARGO_TARGET_DIR=|OSRG_RUSTYBGP_VERIF_DIR=|RUSTFLAGS=|cargo )", c)
            if m:
                cmds.append(c[m.start():].strip())
        cmds = [re.sub(r"git( -C \S+)? apply \S+ && ", "", c) for c in cmds]
        cmds = [re.sub(r"\s+\((?!.*\)\s*\S).*\)\s*$", "", c) for c in cmds]
        if not cmds:
            # a new integration-test file: run exactly that test binary
            m = re.search(r"^\+\+\+ b/(\w+)/tests/(\w+)\.rs", open(d + "/demo.diff").read(), flags=re.M)
            if m:
                crate = {"table": "rustybgp-table", "packet": "rustybgp-packet", "daemon": "rustybgpd"}.get(m.group(1), m.group(1))
                cmds = [f"cargo test -p {crate} --test {m.group(2)}"]
        if not cmds:
            print(f"VERIFY {d}: no run command found in demo.diff"); continue
        cmd = cmds[0]
        if "cd " not in cmd:
            cmd = f"cd {wt} && CARGO_TARGET_DIR={wt}/target " + cmd
        if "--offline" not in cmd:
            cmd += " --offline"
        clean = f"git checkout -q --detach {base}; git reset -q --hard; git clean -qfd -e target -e target2 -e Cargo.lock; [ -f Cargo.lock ] || cp /repo/Cargo.lock ."
        sh(clean, cwd=wt)
        r = sh(f"git apply {d}/demo.diff", cwd=wt)
        if r.returncode:
            print(f"VERIFY {d}: demo.diff does not apply: {r.stdout[:200]}"); continue
        r1 = sh(cmd)
        r = sh(f"git apply {d}/patch.diff", cwd=wt)
        if r.returncode:
            print(f"VERIFY {d}: patch.diff does not apply on top of the demo: {r.stdout[:200]}"); continue
        r2 = sh(cmd)
        sh(clean, cwd=wt)
        sh(f"git apply {d}/patch.diff", cwd=wt)
        r3 = sh(f"CARGO_TARGET_DIR={wt}/target cargo nextest run --workspace --no-fail-fast --offline 2>&1 | grep -E '^\\s+Summary|^error' | tail -1", cwd=wt)
        sh(clean, cwd=wt)
        ok = r1.returncode == 0 and r2.returncode != 0 and "1242 passed" in r3.stdout
        print(f"VERIFY {d}: {'CONFIRMED' if ok else 'NOT CONFIRMED'} demo-without rc={r1.returncode} demo-with rc={r2.returncode} suite-with: {r3.stdout.strip()}  [{cmd[:120]}]", flush=True)
print("ALLDONE")
