#!/usr/bin/env python3
"""seedstore_batch.py <spec.json>: stores verified seeded changes into /verif/seeded/<id>/.
spec: list of {id, property, src, base, needs, caught_by, strengthened?}"""
import sys, os, shutil, json
for e in json.load(open(sys.argv[1])):
    dst = os.path.join("/verif/seeded", e["id"])
    os.makedirs(dst, exist_ok=True)
    for f in ("patch.diff", "demo.diff", "README.md"):
        if os.path.exists(os.path.join(e["src"], f)):
            shutil.copyfile(os.path.join(e["src"], f), os.path.join(dst, f))
    meta = {
        "id": e["id"],
        "property": e["property"],
        "base_commit": e["base"],
        "needs_to_manifest": e["needs"],
        "author": "fresh sub-agent given only the property text and a scratch worktree",
        "confirmed": {
            "how": "/verif/seedverify.sh in the agent's scratch worktree at base_commit",
            "demo_without_change": "pass",
            "demo_with_change": "fail",
            "repository_suite_with_change": "1242 passed",
        },
        "detection": {"command": f"/verif/seedtest.sh /verif/seeded/{e['id']}/patch.diff {e.get('check', e['property'])}   (BASE={e['base']} if the patch no longer applies to /repo HEAD)", "caught_by": e["caught_by"]},
    }
    if e.get("strengthened"):
        meta["strengthened"] = e["strengthened"]
    json.dump(meta, open(os.path.join(dst, "meta.json"), "w"), indent=1)
    print("stored", dst)
