// Harness helpers living inside crate::gr (child module): canonical dumps of
// the private state of GrState / RestartingDeferral for BFS fingerprints.
use super::*;

fn fam(f: &Family) -> String {
    format!("{}/{}", f.afi(), f.safi())
}

pub(crate) fn fp_gr(g: &GrState) -> String {
    match &g.state {
        Inner::Idle => "Idle".into(),
        Inner::PeerRestarting { stale_families, llgr } => {
            let mut s: Vec<String> = stale_families.iter().map(fam).collect();
            s.sort();
            let mut l: Vec<String> = llgr.as_ref().map(|l| l.families.iter().map(|(f, _)| fam(f)).collect()).unwrap_or_default();
            l.sort();
            format!("PeerRestarting{{{:?};llgr={:?}:{:?}}}", s, llgr.is_some(), l)
        }
        Inner::LlgrStaling { remaining } => {
            let mut s: Vec<String> = remaining.iter().map(fam).collect();
            s.sort();
            format!("LlgrStaling{:?}", s)
        }
        Inner::PeerReconnected { pending, from_llgr } => {
            let mut s: Vec<String> = pending.iter().map(fam).collect();
            s.sort();
            format!("PeerReconnected{{{:?};from_llgr={}}}", s, from_llgr)
        }
    }
}

pub(crate) fn gr_kind(g: &GrState) -> &'static str {
    match &g.state {
        Inner::Idle => "Idle",
        Inner::PeerRestarting { .. } => "PeerRestarting",
        Inner::LlgrStaling { .. } => "LlgrStaling",
        Inner::PeerReconnected { .. } => "PeerReconnected",
    }
}

/// Families for which the machine currently expects an End-of-RIB.
pub(crate) fn gr_pending_eor(g: &GrState) -> Vec<Family> {
    match &g.state {
        Inner::PeerReconnected { pending, .. } => pending.iter().copied().collect(),
        _ => vec![],
    }
}

pub(crate) fn fp_restarting(rd: &RestartingDeferral) -> String {
    let dump = |pending: &FnvHashMap<IpAddr, FnvHashSet<Family>>| {
        let mut v: Vec<String> = pending
            .iter()
            .map(|(a, fs)| {
                let mut f: Vec<String> = fs.iter().map(fam).collect();
                f.sort();
                format!("{a}:{:?}", f)
            })
            .collect();
        v.sort();
        format!("{:?}", v)
    };
    match &rd.state {
        RestartingInner::AwaitingStart { pending, duration } => format!("Awaiting{}{:?}", dump(pending), duration.is_some()),
        RestartingInner::Deferring { pending } => format!("Deferring{}", dump(pending)),
        RestartingInner::Completed => "Completed".into(),
    }
}
